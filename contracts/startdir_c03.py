"""C03 (same tests in every child): children are started in the directory the run was started from.

A child is re-invoked with the parent's original arguments (C08/C03: argv round trip); relative --path / --test-path
entries mean the same directories there only if the child's working directory is the one those arguments were given in.
The chain: run_internal captures the start directory (os.getcwd() at entry, unless the caller names one) -> Runner.cwd ->
resume_tests(..., cwd) -> Thread(args=(..., cwd)) -> subprocess.Popen(cwd=cwd).  Each link is a call-site clause on the
real code (the last three live in runner_run / runner_sched / runner_spawn)."""
import os
from pyvc.state import fresh_val

HERE = os.path.dirname(os.path.abspath(__file__))


def getcwd_rule(E, st, node, args, kws, k):
    v = fresh_val(('obj', 'Str'), 'startdir', st)
    st.ghost['startdir'] = v
    return k(st, v)
getcwd_rule.__name__ = 'os.getcwd(): the current directory at this moment (ghost G.startdir)'
getcwd_rule.modifies = ['G.startdir']


RUN_INTERNAL = {
    'property': ['C03'],
    'params': {'defaults': 'Any', 'args': 'Any', 'script_parts': 'Opt[Any]', 'cwd': 'Opt[Str]', 'warnings': 'Any'},
    'returns': 'Any',
    'ghost': {'startdir': 'Str'},
    'requires': [],
    'modifies': ['G.startdir'],
    'ensures': [],
    'raises': {'OtherException': [], 'OtherBase': []},           # whatever Runner.run lets through
    'callsites': {
        # the runner is told a directory in every case: the caller's, or the current one captured before anything runs
        'Runner': ["has_kw_cwd", "_kw_cwd is not None",
                   "implies(old(cwd) is not None, _kw_cwd == old(cwd))",
                   "implies(old(cwd) is None, _kw_cwd == G.startdir)"],
    },
    'rules': {'os.getcwd': getcwd_rule, '_script_parts': 'fresh:Any',
              'Runner': {'kind': 'fresh', 'type': 'Any', 'raises': []},
              'runner.run': {'kind': 'fresh', 'type': 'Any', 'raises': ['OtherException', 'OtherBase']}},
    'expr_rules': {'runner.failed': 'fresh:Any'},
}


RUNNER_INIT = {
    'property': ['C03'],
    'params': {'defaults': 'Any', 'args': 'Any', 'found_suites': 'Any', 'options': 'Any', 'script_parts': 'Any',
               'cwd': 'Opt[Str]', 'warnings': 'Any'},
    'self_fields': {'cwd': 'Opt[Str]', 'script_parts': 'Any', 'args': 'Any'},
    'requires': [],
    'modifies': ['self.*'],
    'ensures': ["self.cwd == cwd",                       # the directory handed in is the one handed on to resume_tests
                "self.script_parts == script_parts", "self.args == args"],
    'raises': {},
    'expr_rules': {'sys.warnoptions': 'fresh:Any'},
}


def register(E):
    E.load_sidecar(os.path.join(HERE, 'common.py'))
    E.add_contract('__init__.run_internal', RUN_INTERNAL)
    E.records.setdefault('runner.Runner', {})
    E.add_contract('runner.Runner.__init__', RUNNER_INIT)
