"""C18: interpreter-global state changed for a run is restored (features + Runner.run's try/finally)."""
import ast
import os
import z3
from pyvc.vals import VObj, VBool, VInt, VOpt, VNone, VRef, VExc, HList, HDict, HRec, NONE, usort, fresh_name, to_z3
from pyvc.state import fresh_val

HERE = os.path.dirname(os.path.abspath(__file__))
Feature = usort('Feature')


# ------------------------------------------------------------------ interpreter-global state as ghost G.*
def g_get(name):
    def h(E, st, node, args, kws, k):
        return k(st, st.ghost[name])
    h.__name__ = 'reads interpreter state %s (ghost G.%s)' % (name, name)
    return h


def g_set(name):
    def h(E, st, node, args, kws, k):
        st.ghost[name] = args[0]
        return k(st, NONE)
    h.__name__ = 'sets interpreter state %s (ghost G.%s)' % (name, name)
    h.modifies = ['G.' + name]
    return h


def g_store(name):
    def h(E, st, target, v, node):
        st.ghost[name] = v
        return E.ok(st)
    h.__name__ = 'assignment to %s (ghost G.%s)' % (name, name)
    return h


def set_threshold(E, st, node, k):
    """gc.set_threshold(*x): x is the saved threshold object or the list of --gc values"""
    def fin(s, v):
        if isinstance(v, VObj) and v.sort == 'GcThreshold':
            s.ghost['gc_threshold'] = v
        else:
            s.ghost['gc_threshold'] = VObj('GcThreshold', z3.Const(fresh_name('thr'), usort('GcThreshold')))
        return k(s, NONE)
    return E.ev(node.args[0].value, st, fin)
set_threshold.raw = True
set_threshold.modifies = ['G.gc_threshold']
set_threshold.__name__ = 'gc.set_threshold(*t): the collector thresholds become t (ghost G.gc_threshold)'


def sys_settrace(E, st, node, args, kws, k):
    """sys.settrace(x) through whatever sys.settrace currently is: coverage's wrapper ignores None"""
    x = args[0]
    wrapper = st.ghost['settrace_wrapped'].z
    out = []
    none = x.isnone if isinstance(x, VOpt) else z3.BoolVal(isinstance(x, VNone))
    for s2, skip in E.branch(st, z3.And(wrapper, none), 'settrace-wrapper-ignores-None'):
        if not skip:
            s2.ghost['trace'] = x
        out += k(s2, NONE)
    return out
sys_settrace.modifies = ['G.trace']
sys_settrace.__name__ = 'sys.settrace(x): installs x (the module-level wrapper of coverage.py ignores None)'


def store_settrace(E, st, target, v, node):
    name = getattr(v, 'data', {}).get('qual', '') if v.__class__.__name__ == 'VFunc' else ''
    st.ghost['settrace_wrapped'] = VBool(name.endswith('settrace') and not name.endswith('osettrace'))
    return E.ok(st)
store_settrace.__name__ = 'sys.settrace = settrace | osettrace (ghost G.settrace_wrapped)'

ENV = {'gc_threshold': 'GcThreshold', 'gc_debug': 'int', 'tb_format': 'Fn', 'tb_print': 'Fn', 'trace': 'Opt[Hook]',
       'thr_trace': 'Opt[Hook]', 'settrace_wrapped': 'bool'}


def feat(d):
    d = dict(d)
    d.setdefault('ghost', ENV)
    d.setdefault('property', ['C18'])
    d.setdefault('params', {})
    d.setdefault('raises', {})
    return d


THRESH_FIELDS = {'threshold': 'List[int]', 'old_threshold': 'GcThreshold', 'runner': 'Rec[FRunner]'}
THRESH_SETUP = feat({'self_fields': THRESH_FIELDS, 'dynamic': ('old_threshold',), 'requires': ["len(self.threshold) >= 1"],
                     'modifies': ['self.old_threshold', 'G.gc_threshold'],
                     'ensures': ["hasattr(self, 'old_threshold')", "self.old_threshold == old(G.gc_threshold)"]})
THRESH_TEARDOWN = feat({'self_fields': THRESH_FIELDS, 'dynamic': ('old_threshold',),
                        'requires': ["hasattr(self, 'old_threshold')"], 'modifies': ['G.gc_threshold'],
                        'ensures': ["G.gc_threshold == self.old_threshold"]})      # restored to what global_setup saved

DEBUG_FIELDS = {'flags': 'List[Str]', 'old_flags': 'int', 'runner': 'Rec[FRunner]'}
DEBUG_SETUP = feat({'self_fields': DEBUG_FIELDS, 'dynamic': ('old_flags',), 'requires': [],
                    'modifies': ['self.old_flags', 'G.gc_debug'],
                    'ensures': ["hasattr(self, 'old_flags')", "self.old_flags == old(G.gc_debug)"],
                    'loops': {'#loop1': []},
                    'expr_rules': {'getattr(gc, op)': 'fresh:int'},
                    'rules': {}})
DEBUG_TEARDOWN = feat({'self_fields': DEBUG_FIELDS, 'dynamic': ('old_flags',),
                       'requires': ["hasattr(self, 'old_flags')"], 'modifies': ['G.gc_debug'],
                       'ensures': ["G.gc_debug == self.old_flags"]})

TB_FIELDS = {'old_format': 'Fn', 'old_print': 'Fn', 'runner': 'Rec[FRunner]'}
TB_SETUP = feat({'self_fields': TB_FIELDS, 'dynamic': ('old_format', 'old_print'), 'requires': [],
                 'modifies': ['self.old_format', 'self.old_print', 'G.tb_format', 'G.tb_print'],
                 'ensures': ["hasattr(self, 'old_format') and hasattr(self, 'old_print')",
                             "self.old_format == old(G.tb_format) and self.old_print == old(G.tb_print)"]})
TB_TEARDOWN = feat({'self_fields': TB_FIELDS, 'dynamic': ('old_format', 'old_print'),
                    'requires': ["hasattr(self, 'old_format') and hasattr(self, 'old_print')"],
                    'modifies': ['G.tb_format', 'G.tb_print'],
                    'ensures': ["G.tb_format == self.old_format and G.tb_print == self.old_print"]})

TRACE_FIELDS = {'started': 'bool', 'donothing': 'bool', 'globaltrace': 'Hook', '_old_trace': 'Opt[Hook]',
                '_old_threading_trace': 'Opt[Hook]'}
TRACE_START = feat({'self_fields': TRACE_FIELDS, 'dynamic': ('_old_trace', '_old_threading_trace'),
                    'requires': ["not self.started", "not G.settrace_wrapped"],
                    'modifies': ['self.started', 'self._old_trace', 'self._old_threading_trace', 'G.trace', 'G.thr_trace',
                                 'G.settrace_wrapped'],
                    'ensures': ["self.started",
                                "implies(not self.donothing, hasattr(self, '_old_trace') and hasattr(self, '_old_threading_trace')"
                                " and self._old_trace == old(G.trace) and self._old_threading_trace == old(G.thr_trace))",
                                "implies(self.donothing, G.trace == old(G.trace) and G.thr_trace == old(G.thr_trace))"]})
TRACE_STOP = feat({'self_fields': TRACE_FIELDS, 'dynamic': ('_old_trace', '_old_threading_trace'),
                   'requires': ["self.started",
                                "implies(not self.donothing, hasattr(self, '_old_trace') and hasattr(self, '_old_threading_trace'))"],
                   'modifies': ['self.started', 'G.trace', 'G.thr_trace', 'G.settrace_wrapped'],
                   'ensures': ["not self.started",
                               # the hooks that were installed before start() are back, and sys.settrace is the original
                               "implies(not self.donothing, G.trace == self._old_trace and G.thr_trace == self._old_threading_trace"
                               " and not G.settrace_wrapped)",
                               "implies(self.donothing, G.trace == old(G.trace) and G.thr_trace == old(G.thr_trace))"]})

def trace_base_init(E, st, node, k):
    me = st.lookup('self')
    rec = st.heap[me.rid]
    f = dict(rec.fields)
    f['donothing'] = fresh_val(('bool',), 'donothing', st)       # trace.Trace: donothing = not (count or trace ...)
    st.heap[me.rid] = HRec(rec.cls, f, rec.present)
    return k(st, NONE)
trace_base_init.raw = True
trace_base_init.__name__ = 'trace.Trace.__init__(self, **kw): sets donothing from the keywords (stdlib)'

TRACE_INIT = feat({'self_fields': TRACE_FIELDS, 'dynamic': ('_old_trace', '_old_threading_trace'),
                   'params': {'directories': 'Any'}, 'requires': [],
                   'modifies': ['self.started', 'self.donothing'],
                   'ensures': ["not self.started"],
                   'rules': {'trace.Trace.__init__': trace_base_init, 'TestIgnore': 'fresh:Any'},
                   'skip_stmts': {'self.ignore = TestIgnore(directories)': 'the ignore filter of the tracer (which files are '
                                  'counted) is not interpreter-global state'}})

COV_FIELDS = {'tracer': 'Rec[coverage.TestTrace]', 'directory': 'Any', 'runner': 'Rec[CovRunner]'}
SAVED = ("implies(not self.tracer.donothing, hasattr(self.tracer, '_old_trace') and hasattr(self.tracer, '_old_threading_trace')"
         " and self.tracer._old_trace == old(G.trace) and self.tracer._old_threading_trace == old(G.thr_trace))")
COV_SETUP = feat({'self_fields': COV_FIELDS, 'requires': ["not G.settrace_wrapped"],
                  'modifies': ['self.tracer', 'self.directory', 'G.trace', 'G.thr_trace', 'G.settrace_wrapped'],
                  # --coverage: the tracer is started and remembers exactly the hooks that were installed before the run
                  'ensures': ["self.tracer.started", SAVED],
                  'rules': {'os.getcwd': 'fresh:Str', 'os.path.join': 'pure:Str', 'test_dirs': 'fresh:Any'}})
COV_TEARDOWN = feat({'self_fields': COV_FIELDS,
                     'requires': ["self.tracer.started",
                                  "implies(not self.tracer.donothing, hasattr(self.tracer, '_old_trace') and"
                                  " hasattr(self.tracer, '_old_threading_trace'))"],
                     'modifies': ['self.tracer.started', 'G.trace', 'G.thr_trace', 'G.settrace_wrapped'],
                     # ... and early_teardown puts exactly those back (TestTrace.stop)
                     'ensures': ["not self.tracer.started",
                                 "implies(not self.tracer.donothing, G.trace == self.tracer._old_trace and"
                                 " G.thr_trace == self.tracer._old_threading_trace and not G.settrace_wrapped)"]})

# ------------------------------------------------------------------ Runner.run: the try/finally around the test phase
RUN_GHOST = {'gs': 'Set[Feature]', 'early': 'Set[Feature]', 'torn': 'Set[Feature]', 'testing': 'bool', 'xmlw': 'int', 'phase_ok': 'bool'}
ALL_TORN = ("forall(q, Int, implies(0 <= q and q < len(self.features), self.features[q] in G.early and"
            " self.features[q] in G.torn))")


def feature_call(kind, ghost_set, may_raise):
    def h(E, st, node, args, kws, k):
        f = st.lookup('feature')
        out = []
        if may_raise:
            for exc in ('OtherException', 'KeyboardInterrupt'):
                s2 = st.copy()
                s2.path.append('%s!%s' % (kind, exc))
                out.append((s2, 'raise', VExc(exc)))
        if ghost_set:
            g = st.ghost[ghost_set]
            hd = st.heap[g.rid]
            st.heap[g.rid] = HDict(hd.kt, hd.vt, z3.Store(hd.mem, f.z, z3.BoolVal(True)), hd.vals)
        return out + k(st, NONE)
    h.__name__ = 'feature.%s(): dynamic dispatch to an arbitrary feature%s' % (kind, ' (may raise)' if may_raise else '')
    h.modifies = ['G.' + ghost_set] if ghost_set else []
    return h


def run_tests_rule(E, st, node, args, kws, k):
    out = []
    for exc in ('OtherException', 'KeyboardInterrupt', 'OtherBase'):
        s2 = st.copy()
        s2.path.append('run_tests!%s' % exc)
        out.append((s2, 'raise', VExc(exc)))
    return out + k(st, NONE)
run_tests_rule.__name__ = 'self.run_tests(): returns or is aborted by any exception (hook exception, KeyboardInterrupt)'


def configure_rule(E, st, node, args, kws, k):
    return k(st, NONE)
configure_rule.__name__ = 'self.configure(): assumed to leave self.features / self.options as given symbolically'


def write_xml_rule(E, st, node, args, kws, k):
    from pyvc.vals import VInt
    st.ghost['xmlw'] = VInt(st.ghost['xmlw'].z + 1)
    return k(st, NONE)
write_xml_rule.__name__ = 'self.options.output.writeXMLReports(): the report files are written (ghost G.xmlw += 1)'
write_xml_rule.modifies = ['G.xmlw']


def with_warnings(E, st, node):
    return E.exec_block(node.body, st)
with_warnings.__name__ = 'warnings.catch_warnings(): restores the warnings filters on every exit (T4)'

RUN = {
    'property': ['C18'],
    'params': {},
    'self_fields': {'features': 'List[Feature]', 'options': 'Rec[RunOptions]', 'do_run_tests': 'bool', 'show_report': 'bool',
                    'layer_name_cache': 'Any'},
    'ghost': RUN_GHOST,
    'requires': ["not G.testing", "not G.phase_ok"],
    'modifies': ['self.layer_name_cache', 'G.gs', 'G.early', 'G.torn', 'G.testing', 'G.xmlw', 'G.phase_ok'],
    'ghost_code': {'for feature in self.features:\n    feature.late_setup()': ['G.testing = True'],   # the test phase begins
                   'if self.do_run_tests:\n    self.run_tests()': ['G.phase_ok = True']},         # ... and has ended normally
    'ensures': ["implies(G.testing, " + ALL_TORN + ")",
                # C17: with --xml the reports are written exactly once after every run that got as far as running tests
                # (and not at all without it) -- after the teardown, so the tree the wrapper recorded is complete
                "G.xmlw == old(G.xmlw) + ite(bool(self.options.xmlOutput) and not self.options.fail, 1, 0)"],
    # once the test phase has begun, every feature gets early_teardown and global_teardown, whatever ends the phase
    'raises': {'Exception': ["implies(G.testing, " + ALL_TORN + ")"], 'BaseException': ["implies(G.testing, " + ALL_TORN + ")"]},
    'props': {"self.do_run_tests": ['C03', 'C18']},
    'callsites': {
        # C03: --list-tests (Listing.global_setup clears do_run_tests) reaches no test or layer code
        'self.run_tests': ["self.do_run_tests"],
        'self.options.output.writeXMLReports': ["G.testing", ALL_TORN, "G.xmlw == old(G.xmlw)"],
        # C07/C02: the features' report() -- in a layer subprocess SubProcess.report IS the result channel to the parent -- is
        # reached only when the test phase ended normally: a child dying from an exception must not deliver a report
        'feature.report': ["G.phase_ok", ALL_TORN],
        # a feature is only torn down after all features were set up (the loops are not interleaved)
        'feature.global_teardown': ["forall(q, Int, implies(0 <= q and q < len(self.features), self.features[q] in G.gs))",
                                    "forall(q, Int, implies(0 <= q and q < len(self.features), self.features[q] in G.early))"],
    },
    'loops': {
        '#loop1': ["not G.testing", "forall(q, Int, implies(0 <= q and q < _i, self.features[q] in G.gs))"],
        '#loop2': ["not G.testing", "forall(q, Int, implies(0 <= q and q < len(self.features), self.features[q] in G.gs))"],
        '#loop3': ["G.testing", "forall(q, Int, implies(0 <= q and q < len(self.features), self.features[q] in G.gs))",
                   "forall(q, Int, implies(len(self.features) - _i <= q and q < len(self.features), self.features[q] in G.early))"],
        '#loop4': ["G.testing", "forall(q, Int, implies(0 <= q and q < len(self.features), self.features[q] in G.gs))",
                   "forall(q, Int, implies(0 <= q and q < len(self.features), self.features[q] in G.early))",
                   "forall(q, Int, implies(len(self.features) - _i <= q and q < len(self.features), self.features[q] in G.torn))"],
        '#loop5': ["G.testing", ALL_TORN],
    },
    'rules': {
        'self.configure': configure_rule, 'self.layer_name_cache.clear': 'NOEFFECT', 'self.run_tests': run_tests_rule,
        'feature.global_setup': feature_call('global_setup', 'gs', True),
        'feature.late_setup': feature_call('late_setup', None, True),
        'feature.early_teardown': feature_call('early_teardown', 'early', False),
        'feature.global_teardown': feature_call('global_teardown', 'torn', False),
        'feature.report': feature_call('report', None, True),
        'with:self._enabled_warnings()': with_warnings,
        'self.options.output.writeXMLReports': write_xml_rule,
    },
}


def syntactic(E):
    fdef, _, src = E.find_def('runner.Runner.run')
    tries = [n for n in ast.walk(fdef) if isinstance(n, ast.Try)]
    ok = False
    if len(tries) == 1 and tries[0].finalbody:
        fin = ast.unparse(ast.Module(body=tries[0].finalbody, type_ignores=[]))
        ok = 'early_teardown' in fin and 'global_teardown' in fin and 'run_tests' in ast.unparse(ast.Module(body=tries[0].body, type_ignores=[]))
    E.syntactic_obligation("Runner.run: the test phase is the body of a try whose finally runs early_teardown and global_teardown",
                           ok, props=('C18',))
    fdef, _, src = E.find_def('runner.Runner._enabled_warnings')
    E.syntactic_obligation("Runner._enabled_warnings changes warnings filters only inside warnings.catch_warnings()",
                           'with warnings.catch_warnings():' in src, props=('C18',))


def profiling_pairing(E):
    """--profile: the hooks the profiler installs are taken out by the same profiler object.  Decided on the source:
    Profiling.global_setup binds late_setup / early_teardown to enable / disable of ONE object (self.profiler, assigned once
    before, not re-assigned in between), nothing else in the class assigns them; CProfiler takes enable / disable from the one
    cProfile.Profile() it creates.  With Runner.run's contract (every feature gets late_setup before and early_teardown after
    the test phase, on every exit) and the assumed contract of cProfile (disable() removes what enable() installed), the
    profile hook is balanced."""
    gs, _, _ = E.find_def('profiling.Profiling.global_setup')
    stmts = [n for n in ast.walk(gs) if isinstance(n, ast.Assign)]
    order = [(n.lineno, ast.unparse(n.targets[0]), ast.unparse(n.value)) for n in stmts if len(n.targets) == 1]
    prof = [o for o in order if o[1] == 'self.profiler']
    late = [o for o in order if o[1] == 'self.late_setup']
    early = [o for o in order if o[1] == 'self.early_teardown']
    ok = (len(prof) == 1 and len(late) == 1 and len(early) == 1
          and late[0][2] == 'self.profiler.enable' and early[0][2] == 'self.profiler.disable'
          and prof[0][0] < late[0][0] and prof[0][0] < early[0][0])
    tree = E.module('profiling')[0]
    cls = [n for n in tree.body if isinstance(n, ast.ClassDef) and n.name == 'Profiling'][0]
    others = [ast.unparse(a)[:60] for f in cls.body if isinstance(f, ast.FunctionDef) and f.name != 'global_setup'
              for a in ast.walk(f) if isinstance(a, (ast.Assign, ast.AugAssign))
              and any(ast.unparse(t) in ('self.late_setup', 'self.early_teardown', 'self.profiler')
                      for t in (a.targets if isinstance(a, ast.Assign) else [a.target])) and f.name != '__init__']
    defs = [f.name for f in cls.body if isinstance(f, ast.FunctionDef) and f.name in ('late_setup', 'early_teardown')]
    E.syntactic_obligation("Profiling: late_setup / early_teardown are enable / disable of one and the same profiler object, bound "
                           "once in global_setup (what --profile installs before the tests is removed by the same object after them)",
                           ok and not others and not defs,
                           detail='assignments %s; elsewhere %s; methods %s' % (prof + late + early, others, defs), props=('C18',))
    cp = [n for n in tree.body if isinstance(n, ast.ClassDef) and n.name == 'CProfiler'][0]
    init = [f for f in cp.body if isinstance(f, ast.FunctionDef) and f.name == '__init__'][0]
    a = {ast.unparse(n.targets[0]): ast.unparse(n.value) for n in ast.walk(init) if isinstance(n, ast.Assign) and len(n.targets) == 1}
    ok2 = (a.get('self.profiler') == 'cProfile.Profile()' and a.get('self.enable') == 'self.profiler.enable'
           and a.get('self.disable') == 'self.profiler.disable')
    redefs = [f.name for f in cp.body if isinstance(f, ast.FunctionDef) and f.name in ('enable', 'disable')]
    E.syntactic_obligation("CProfiler: enable / disable are those of the one cProfile.Profile() created in __init__",
                           ok2 and not redefs, detail=str(a), props=('C18',))


def register(E):
    E.load_sidecar(os.path.join(HERE, 'common.py'))
    E.records['FRunner'] = {'options': 'Rec[FOptions]'}
    E.records['FOptions'] = {'output': 'Output'}
    E.records['RunOptions'] = {'fail': 'bool', 'xmlOutput': 'Opt[Str]', 'output': 'Output'}
    for cls in ('garbagecollection.Threshold', 'garbagecollection.Debug', 'tb_format.Traceback', 'coverage.TestTrace',
                'runner.Runner'):
        E.records.setdefault(cls, {})
    E.known_modules |= {'traceback', 'gc', 'threading'}
    E.truthy_sorts['Hook'] = 'always'
    E.truthy_sorts['Fn'] = 'always'
    E.globals['traceback.format_exception'] = lambda eng, st: st.ghost['tb_format']
    E.globals['traceback.print_exception'] = lambda eng, st: st.ghost['tb_print']
    E.globals['tb_format.format_exception'] = lambda eng, st: VObj('Fn', z3.Const('zope_format_exception', usort('Fn')))
    E.globals['tb_format.print_exception'] = lambda eng, st: VObj('Fn', z3.Const('zope_print_exception', usort('Fn')))
    from pyvc.vals import VFunc
    E.globals['coverage.osettrace'] = lambda eng, st: VFunc('def', qual='coverage.osettrace')
    E.globals['runner._layer_name_cache'] = lambda eng, st: VObj('Any', z3.Const('layer_name_cache', usort('Any')))
    E.global_rules.update({
        'gc.get_threshold': g_get('gc_threshold'), 'gc.set_threshold': set_threshold,
        'gc.get_debug': g_get('gc_debug'), 'gc.set_debug': g_set('gc_debug'),
        'store:traceback.format_exception': g_store('tb_format'), 'store:traceback.print_exception': g_store('tb_print'),
        'sys.gettrace': g_get('trace'), "getattr(threading, 'gettrace', lambda: None)": g_get('thr_trace'),
        'sys.settrace': sys_settrace, 'threading.settrace': g_set('thr_trace'),
        'store:sys.settrace': store_settrace,
        'repr': 'fresh:Str', 'tuple': 'fresh:Any',
    })
    E.assumptions += [
        "G.* models interpreter-global state: gc thresholds / debug flags, traceback.format_exception / print_exception, "
        "sys / threading trace hooks; the gc, sys, threading and traceback functions read / write exactly these",
        "tests do not change these globals behind the runner's back; feature teardown methods do not raise (not decided otherwise)",
        "Profiling: cProfile.Profile.disable() takes out what enable() of the same object installed (stdlib); that late_setup / "
        "early_teardown ARE that pair is decided on the source (two syntactic obligations), the profile files it writes are not C18's",
        "T4: warnings.catch_warnings() restores the filters on every exit",
    ]
    syntactic(E)
    profiling_pairing(E)
    G = 'garbagecollection.'
    E.add_contract(G + 'Threshold.global_setup', THRESH_SETUP)
    E.add_contract(G + 'Threshold.global_teardown', THRESH_TEARDOWN)
    E.add_contract(G + 'Debug.global_setup', DEBUG_SETUP)
    E.add_contract(G + 'Debug.global_teardown', DEBUG_TEARDOWN)
    E.add_contract('tb_format.Traceback.global_setup', TB_SETUP)
    E.add_contract('tb_format.Traceback.global_teardown', TB_TEARDOWN)
    E.add_contract('coverage.TestTrace.start', TRACE_START)
    E.add_contract('coverage.TestTrace.stop', TRACE_STOP)
    E.add_contract('coverage.TestTrace.__init__', TRACE_INIT)
    E.records['CovOptions'] = {'coverage': 'Str', 'output': 'Output'}
    E.records['CovRunner'] = {'options': 'Rec[CovOptions]'}
    E.records['coverage.TestTrace'] = dict(TRACE_FIELDS)
    E.record_dynamic['coverage.TestTrace'] = ('_old_trace', '_old_threading_trace')
    E.records.setdefault('coverage.Coverage', {})
    E.globals['coverage.test_dirs'] = lambda eng, st: VFunc('handler', call=lambda eng2, st2, node, args, kws, k: k(st2, fresh_val(('obj', 'Any'), 'dirs', st2)))
    E.add_contract('coverage.Coverage.global_setup', COV_SETUP)
    E.add_contract('coverage.Coverage.early_teardown', COV_TEARDOWN)
    E.add_contract('runner.Runner.run', RUN)
