"""C04: tb_format._iter_chain -- the exception-chain walk behind the runner's patched traceback.print_exception, which
handle_layer_failure reaches through traceback.print_exc().  It must terminate and raise nothing for EVERY chain of
__cause__ / __context__ links, cyclic ones included (a RecursionError there escapes the `except Exception` handlers of
run_layer / tear_down_unneeded and aborts the whole run)."""
import os
import z3
from pyvc.vals import VObj, VBool, VInt, VOpt, VRef, HDict, HList, NONE, usort, fresh_name

HERE = os.path.dirname(os.path.abspath(__file__))
Exc = usort('ExcObj')
I = z3.IntSort()
SET = z3.ArraySort(Exc, z3.BoolSort())
unseen = z3.Function('number_of_exceptions_not_in', SET, I)     # |U \ s| for the finite set U of live exception objects


def _unseen(E, st, s):
    return VInt(unseen(st.heap[s.rid].mem))


CHAIN = {
    'property': ['C04'],
    'generator': True,
    'params': {'exc': 'ExcObj', 'custom_tb': 'Any', 'seen': 'Opt[Set[ExcObj]]'},
    'returns': 'List[Any]',
    'locals': {'its': 'List[Any]', 'seen': 'Set[ExcObj]'},
    'requires': ["implies(seen is not None, exc not in seen)"],
    'modifies': ['seen'],
    # termination: every call marks one more exception as seen; there are finitely many
    'decreases': "ite(seen is None, 1 + unseen_all(), unseen(seen))",
    'ensures': ["implies(old(seen) is not None, exc in seen)",
                "implies(old(seen) is not None, forall(x, ExcObj, implies(old(x in seen), x in seen)))"],
    'raises': {},                     # nothing: in particular no RecursionError for cyclic chains
    'loops': {'#loop1': []},
    'rules': {},
    'skip_stmts': {'yield from it': 'what is yielded (the text that gets printed) is not part of the claim; termination and '
                   'the absence of exceptions are'},
    'expr_rules': {'traceback._cause_message': 'fresh:Any', 'traceback._context_message': 'fresh:Any',
                   'custom_tb or exc.__traceback__': 'fresh:Any'},
}


def register(E):
    E.load_sidecar(os.path.join(HERE, 'common.py'))
    E.objattrs[('ExcObj', '__context__')] = 'Opt[ExcObj]'
    E.objattrs[('ExcObj', '__cause__')] = 'Opt[ExcObj]'
    E.objattrs[('ExcObj', '__suppress_context__')] = 'bool'
    E.objattrs[('ExcObj', '__traceback__')] = 'Any'
    s, x = z3.Const('s', SET), z3.Const('x', Exc)
    empty = z3.K(Exc, z3.BoolVal(False))
    E.axioms += [
        z3.ForAll([s], unseen(s) >= 0),
        # finite-cardinality facts (mathematics, not code): an unseen exception is counted; marking it decreases the count
        z3.ForAll([s, x], z3.Implies(z3.Not(z3.Select(s, x)), unseen(s) >= 1)),
        z3.ForAll([s, x], z3.Implies(z3.Not(z3.Select(s, x)), unseen(z3.Store(s, x, z3.BoolVal(True))) == unseen(s) - 1)),
    ]
    E.specfuncs.update({'unseen': lambda eng, st, sv: VInt(unseen(st.heap[(sv.inner if isinstance(sv, VOpt) else sv).rid].mem)),
                        'unseen_all': lambda eng, st: VInt(unseen(empty))})
    E.assumptions += [
        "tb_format._iter_chain: the exception objects alive at one moment form a finite set (|U \\\\ seen| is a natural "
        "number that decreases when an unseen exception is marked); attribute reads of exceptions do not raise",
    ]
    E.add_contract('tb_format._iter_chain', CHAIN)
