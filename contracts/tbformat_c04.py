"""C04: tb_format._iter_chain -- the exception-chain walk behind the runner's patched traceback.print_exception, which
handle_layer_failure reaches through traceback.print_exc().  It must terminate and raise nothing for EVERY chain of
__cause__ / __context__ links, cyclic ones included (a RecursionError there escapes the `except Exception` handlers of
run_layer / tear_down_unneeded and aborts the whole run)."""
import os
import z3
from pyvc.vals import VObj, VBool, VInt, VOpt, VRef, HDict, HList, NONE, usort, fresh_name

HERE = os.path.dirname(os.path.abspath(__file__))
Exc = usort('ExcObj')
I = z3.IntSort()
SET = z3.ArraySort(I, z3.BoolSort())
# the set holds the ids of the exceptions seen (exceptions need not be hashable: fix c0f8281)
unseen = z3.Function('number_of_exceptions_whose_id_is_not_in', SET, I)   # |{x in U : id(x) not in s}|, U = live exception objects
id_of = z3.Function('id_of__ExcObj', Exc, I)


def _unseen(E, st, s):
    return VInt(unseen(st.heap[s.rid].mem))


CHAIN = {
    'property': ['C04'],
    'generator': True,
    'params': {'exc': 'ExcObj', 'custom_tb': 'Any', 'seen': 'Opt[Set[int]]'},
    'returns': 'List[Any]',
    'locals': {'its': 'List[Any]', 'seen': 'Set[int]'},
    'requires': ["implies(seen is not None, id(exc) not in seen)"],
    'modifies': ['seen'],
    # termination: every call marks one more exception as seen; there are finitely many
    'decreases': "ite(seen is None, 1 + unseen_all(), unseen(seen))",
    'ensures': ["implies(old(seen) is not None, id(exc) in seen)",
                "implies(old(seen) is not None, forall(x, Int, implies(old(x in seen), x in seen)))"],
    # nothing: no RecursionError for cyclic chains, and no TypeError for exceptions that are not hashable (an exception
    # object put into -- or looked up in -- a set is hashed: that may raise for a user-defined class; an int never does)
    'raises': {},
    'loops': {'#loop1': []},
    'rules': {},
    'skip_stmts': {'yield from it': 'what is yielded (the text that gets printed) is not part of the claim; termination and '
                   'the absence of exceptions are'},
    'expr_rules': {'traceback._cause_message': 'fresh:Any', 'traceback._context_message': 'fresh:Any',
                   'custom_tb or exc.__traceback__': 'fresh:Any'},
}


def register(E):
    E.load_sidecar(os.path.join(HERE, 'common.py'))
    E.objattrs[('ExcObj', '__context__')] = 'Opt[ExcObj]'
    E.objattrs[('ExcObj', '__cause__')] = 'Opt[ExcObj]'
    E.objattrs[('ExcObj', '__suppress_context__')] = 'bool'
    E.objattrs[('ExcObj', '__traceback__')] = 'Any'
    s, x = z3.Const('s', SET), z3.Const('x', Exc)
    empty = z3.K(I, z3.BoolVal(False))
    E.axioms += [
        z3.ForAll([s], unseen(s) >= 0),
        # finite-cardinality facts (mathematics, not code; id() is injective on live objects): an exception whose id is not
        # in the set is counted; marking its id decreases the count by one
        z3.ForAll([s, x], z3.Implies(z3.Not(z3.Select(s, id_of(x))), unseen(s) >= 1)),
        z3.ForAll([s, x], z3.Implies(z3.Not(z3.Select(s, id_of(x))),
                                     unseen(z3.Store(s, id_of(x), z3.BoolVal(True))) == unseen(s) - 1)),
    ]
    E.unhashable_sorts = getattr(E, 'unhashable_sorts', set()) | {'ExcObj'}     # user-defined classes: __hash__ may be None
    E.specfuncs.update({'unseen': lambda eng, st, sv: VInt(unseen(st.heap[(sv.inner if isinstance(sv, VOpt) else sv).rid].mem)),
                        'unseen_all': lambda eng, st: VInt(unseen(empty))})
    E.assumptions += [
        "tb_format._iter_chain: the exception objects alive at one moment form a finite set and id() is injective on them (the "
        "number of live exceptions whose id is not in `seen` is a natural number that decreases when one is marked); attribute "
        "reads of exceptions do not raise; hashing an exception object may raise TypeError (user-defined class), hashing an int never does",
    ]
    E.add_contract('tb_format._iter_chain', CHAIN)
