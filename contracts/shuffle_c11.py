"""C11: Shuffle.global_setup is a permutation inside each layer, determined by the seed and the discovered tests."""
import ast
import os
import z3
from pyvc.vals import VObj, VBool, VInt, VReal, VRef, HList, HDict, NONE, usort, fresh_name

HERE = os.path.dirname(os.path.abspath(__file__))
Suite, Test = usort('Suite'), usort('Test')
suite_arr = z3.Function('suite_tests', Suite, z3.ArraySort(z3.IntSort(), Test))
suite_len = z3.Function('suite_len', Suite, z3.IntSort())
perm_of = z3.Function('perm_of', Suite, Suite, z3.BoolSort())
rand = z3.Function('rng_random', z3.IntSort(), z3.IntSort(), z3.RealSort())     # (seed, position in the stream)


def rng_random(E, st, node, args, kws, k):
    """rng.random(): the k-th float of the stream determined by the seed, in [0, 1) (stdlib guarantee)."""
    me = st.lookup('self')
    seed = st.heap[me.rid].fields['seed']
    pos = st.ghost['rpos']
    r = rand(seed.z, pos.z)
    st.ghost['rpos'] = VInt(pos.z + 1)
    st.assume(z3.And(r >= 0, r < 1))
    return k(st, VReal(r))
rng_random.__name__ = 'rng.random() = stream(seed)[G.rpos++], a float in [0, 1)'
rng_random.modifies = ['G.rpos']


def new_suite(E, st, node, args, kws, k):
    """suite.__class__(tests): a new suite holding exactly `tests`; it is a permutation of `suite` because the
    call-site obligation (witness G.pi) has just been proved."""
    tests = st.heap[args[0].rid]
    old = st.lookup('suite')
    s = z3.Const(fresh_name('newsuite'), Suite)
    i = z3.Int(fresh_name('i'))
    st.assume(suite_len(s) == tests.n)
    st.assume(z3.ForAll([i], z3.Implies(z3.And(0 <= i, i < tests.n), z3.Select(suite_arr(s), i) == z3.Select(tests.arr, i))), qf=False)
    st.assume(perm_of(s, old.z))
    return k(st, VObj('Suite', s))
new_suite.__name__ = 'suite.__class__(tests): new suite with exactly these tests (permutation of `suite` by the call-site obligation)'

N = "len(G.orig)"
WITNESS = [
    "len(tests) == " + N + " and len(G.pi) == " + N,
    "forall(a, Int, implies(0 <= a and a < " + N + ", 0 <= G.pi[a] and G.pi[a] < " + N + " and tests[a] == G.orig[G.pi[a]]))",
    "forall(a, Int, b, Int, implies(0 <= a and a < b and b < " + N + ", G.pi[a] != G.pi[b]))",
]

SHUFFLE = {
    'property': ['C11'],
    'params': {},
    'self_fields': {'seed': 'int', 'runner': 'Rec[ShuffleRunner]'},
    'ghost': {'rpos': 'int', 'pi': 'List[int]', 'orig': 'List[Test]'},
    'locals': {},
    'requires': [],
    'modifies': ['self.runner.tests_by_layer_name', 'G.rpos', 'G.pi', 'G.orig'],
    'ghost_code': {
        'tests = list(suite)': ['G.orig = list(tests)', 'G.pi = list(range(len(tests)))'],
        'tests[i], tests[j] = (tests[j], tests[i])': ['G.pi[i], G.pi[j] = G.pi[j], G.pi[i]'],
    },
    'ensures': [
        # never across layers, nothing dropped or duplicated: same layer names, every suite a permutation of its own old one
        "forall(n, Str, iff(n in self.runner.tests_by_layer_name, old(n in self.runner.tests_by_layer_name)))",
        "forall(n, Str, implies(n in self.runner.tests_by_layer_name,"
        " perm_of(self.runner.tests_by_layer_name[n], old(self.runner.tests_by_layer_name)[n])))",
    ],
    'raises': {},
    'callsites': {
        # the new suite is built from a permutation (witness pi) of the layer's own tests
        'suite.__class__': ["_arg0 == tests", "forall(a, Int, implies(0 <= a and a < len(G.orig), G.orig[a] == suite_item(suite, a)))",
                            "len(G.orig) == suite_size(suite)"] + WITNESS,
    },
    'loops': {
        '#loop1': [
            "forall(n, Str, iff(n in self.runner.tests_by_layer_name, old(n in self.runner.tests_by_layer_name)))",
            # processed layers: permuted; the others: untouched
            "forall(q, Int, implies(0 <= q and q < _i1, perm_of(self.runner.tests_by_layer_name[_it1[q][0]], _it1[q][1])))",
            "forall(q, Int, implies(_i1 <= q and q < len(_it1), self.runner.tests_by_layer_name[_it1[q][0]] == _it1[q][1]))",
            "forall(q, Int, implies(0 <= q and q < len(_it1), _it1[q][0] in old(self.runner.tests_by_layer_name)"
            " and old(self.runner.tests_by_layer_name)[_it1[q][0]] == _it1[q][1]))",
            "forall(q, Int, r, Int, implies(0 <= q and q < r and r < len(_it1), _it1[q][0] != _it1[r][0]))",
            "forall(n, Str, implies(old(n in self.runner.tests_by_layer_name), exists(q, Int, 0 <= q and q < len(_it1) and _it1[q][0] == n)))",
        ],
        '#loop2': WITNESS + ["forall(a, Int, implies(0 <= a and a < len(G.orig), G.orig[a] == suite_item(suite, a)))",
                             "len(G.orig) == suite_size(suite)"],
    },
    'rules': {'random.Random': 'fresh:Any', 'rng.seed': 'NOEFFECT', 'rng.random': rng_random, 'suite.__class__': new_suite},
}


def _suite_item(E, st, s, i):
    return VObj('Test', z3.Select(suite_arr(s.z), i.z))


def _perm_of(E, st, a, b):
    return VBool(perm_of(a.z, b.z))


def syntactic(E):
    """obligations on the source text: what Shuffle reads, where it sits among the features, what children are given."""
    fdef, _, src = E.find_def('shuffle.Shuffle.global_setup')
    reads = {n.attr for n in ast.walk(fdef) if isinstance(n, ast.Attribute)}
    bad = [r for r in reads if r in ('options', 'resume_layer', 'resume_number', 'processes', 'layer', 'args', 'defaults')]
    E.syntactic_obligation("Shuffle.global_setup reads only self.seed, the registered tests and the random stream "
                           "(no option, no --layer / resume / -j state)", not bad, 'reads %s' % sorted(bad), props=('C11',))
    # one random stream serves all layers: which numbers a layer gets depends on the order the layers are visited in, so that
    # order must be a function of the layer names alone (sorted), never of discovery / registration order
    loops = [n for n in ast.walk(fdef) if isinstance(n, ast.For) and 'tests_by_layer_name' in ast.unparse(n.iter)]
    ok_iter = bool(loops) and all(
        isinstance(n.iter, ast.Call) and isinstance(n.iter.func, ast.Name) and n.iter.func.id == 'sorted'
        and not n.iter.keywords and len(n.iter.args) == 1
        and ast.unparse(n.iter.args[0]) in ('self.runner.tests_by_layer_name.items()', 'self.runner.tests_by_layer_name')
        for n in loops)
    E.syntactic_obligation("Shuffle.global_setup visits the layers in sorted name order (the layers share one random stream: the "
                           "permutation of a layer must not depend on the order in which the layers were discovered)",
                           ok_iter, 'layer loops: %s' % [ast.unparse(n.iter) for n in loops], props=('C11', 'C03'))
    cfg, _, _ = E.find_def('runner.Runner.configure')
    order = [ast.unparse(n.args[0].func).split('.')[-1] for n in ast.walk(cfg)
             if isinstance(n, ast.Call) and ast.unparse(n.func) == 'self.features.append' and n.args
             and isinstance(n.args[0], ast.Call)]
    want = ['Find', 'Shuffle', 'SubProcess', 'Filter', 'Listing']
    pos = [order.index(w) if w in order else -1 for w in want]
    E.syntactic_obligation("Runner.configure: features appended in the order Find < Shuffle < SubProcess < Filter < Listing "
                           "(shuffling happens before layer filtering: filtered, listing and child runs consume the same stream)",
                           all(p >= 0 for p in pos) and pos == sorted(pos), 'order %s' % order, props=('C11', 'C03'))
    rep, _, _ = E.find_def('shuffle.Shuffle.report')
    E.syntactic_obligation("Shuffle.report prints self.seed", 'self.seed' in ast.unparse(rep), props=('C11',))
    # (that a generated seed is handed to the children is the postcondition of Shuffle.__init__, verified above)
    # (that the child is started with the parent's original arguments is a call-site obligation at subprocess.Popen, C07/C03)


ARGS = "runner.options.original_testrunner_args"
SHUFFLE_INIT = {
    'property': ['C11'],
    'params': {'runner': 'Rec[ShuffleInitRunner]'},
    'self_fields': {'active': 'bool', 'seed': 'Opt[int]', 'runner': 'Any'},
    'requires': [],
    'modifies': ['self.active', 'self.seed', ARGS],
    'ensures': [
        "self.seed is not None",
        "implies(old(runner.options.shuffle_seed) is not None, self.seed == old(runner.options.shuffle_seed))",
        # a generated seed reaches every child process -- -j N or resumed layers alike -- through the arguments they are
        # re-invoked with (spawn_layer_in_subprocess passes original_testrunner_args[1:]): the seed that is reported
        # reproduces the order of every layer
        "implies(old(runner.options.shuffle_seed) is None and runner.options.shuffle and old(%s) is not None,"
        " len(%s) == old(len(%s)) + 2 and %s[len(%s) - 2] == '--shuffle-seed' and %s[len(%s) - 1] == str_of(self.seed)"
        " and forall(q, Int, implies(0 <= q and q < old(len(%s)), %s[q] == old(%s)[q])))"
        % ((ARGS,) * 10),
    ],
    'raises': {},
    'rules': {'super().__init__': 'NOEFFECT'},
    'expr_rules': {'int(time.time() * 256)': 'fresh:int'},
}


def register(E):
    E.load_sidecar(os.path.join(HERE, 'common.py'))
    E.records['ShuffleRunner'] = {'tests_by_layer_name': 'Dict[Str,Suite]'}
    E.records['shuffle.Shuffle'] = {}
    E.iter_sorts['Suite'] = lambda eng, st, o: st.alloc(HList(('obj', 'Test'), suite_arr(o.z), suite_len(o.z)))
    E.axioms.append(z3.ForAll([z3.Const('s', Suite)], suite_len(z3.Const('s', Suite)) >= 0))
    E.specfuncs.update({'suite_item': _suite_item, 'perm_of': _perm_of,
                        'suite_size': lambda eng, st, s: VInt(suite_len(s.z))})
    E.truthy_sorts['Suite'] = 'always'
    E.assumptions += [
        "A-FLOAT: floats are reals; rng.random() returns a value in [0, 1) determined by (seed, position in the stream) "
        "(stdlib guarantee for random.Random(seed).random())",
        "perm_of(new, old) is introduced only where the call-site obligation has proved a permutation witness",
        "sorted(d.items()) is a permutation of the items (its order by layer name is not needed for the claims proved here)",
    ]
    syntactic(E)
    E.records['ShuffleInitOptions'] = {'shuffle': 'bool', 'shuffle_seed': 'Opt[int]', 'original_testrunner_args': 'Opt[List[Str]]',
                                       'processes': 'int', 'resume_layer': 'Opt[Str]'}
    E.records['ShuffleInitRunner'] = {'options': 'Rec[ShuffleInitOptions]'}
    E.specfuncs['str_of'] = lambda eng, st, v: eng.uf('str_of', [v.inner if v.__class__.__name__ == 'VOpt' else v], ('obj', 'Str'))
    E.add_contract('shuffle.Shuffle.__init__', SHUFFLE_INIT)
    E.add_contract('shuffle.Shuffle.global_setup', SHUFFLE)
