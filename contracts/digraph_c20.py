"""C20: the default-mode filter of DiGraph.sccs (second sentence of the property) as a fragment contract.

The fragment is the tail of the ``if nstate.low == nstate.dfs:`` block, taken mechanically from the real source
(anchor: the statement starting with ``if len(scc) == 1 and not trivial:`` and the two statements after it).  Every
free variable of the fragment is a parameter with an arbitrary value of its type, so the contract holds for every
component the enumeration can hand to it.  The enumeration itself (Tarjan) is NOT proved: bounded oracle native/c20.py.
"""
import z3
from pyvc.vals import VObj, VBool, VInt, VRef, HList, HDict, NONE, usort, fresh_name

Node, NSet, Untr, Out = usort('GNode'), usort('NSet'), usort('Untr'), usort('OutNode')
nmem = z3.Function('nset_member', NSet, Node, z3.BoolSort())
untr = z3.Function('untransform', Untr, Node, Out)


def _selfloop(E, st, g, x):
    """x has an entry in g._neighbors and is a member of it (the node has an edge to itself)"""
    h = st.heap[st.heap[g.rid].fields['_neighbors'].rid]
    return VBool(z3.And(z3.Select(h.mem, x.z), nmem(z3.Select(h.vals, x.z), x.z)))


def _untr(E, st, g, x):
    return VObj('OutNode', untr(st.heap[g.rid].fields['_untransform_node'].z, x.z))


def yield_handler(E, st, x):
    st.ghost['yn'] = VInt(st.ghost['yn'].z + 1)
    st.ghost['last'] = x
    return E.ok(st)


FILTER = {
    'property': ['C20'],
    'fragment': {'find': 'if len(scc) ', 'count': 3, 'continue_exit': True,
                 'heads': ['if len(scc) ', 'utr = ', 'yield ']},
    'params': {'self': 'Rec[digraph.DiGraph]', 'scc': 'List[GNode]', 'trivial': 'bool'},
    'ghost': {'yn': 'int', 'last': 'List[OutNode]'},
    'yield_handler': yield_handler,
    'requires': ["len(scc) >= 1"],                       # a component popped from the stack has at least its root
    'modifies': ['G.yn', 'G.last'],
    'ensures': [
        # the statement: in default mode exactly the components with more than one node or with a self-loop are yielded;
        # with trivial=True every component is
        "iff(not _continued, trivial or len(scc) > 1 or selfloop(self, scc[0]))",
        "implies(_continued, G.yn == old(G.yn))",                         # a skipped component yields nothing
        "implies(not _continued, G.yn == old(G.yn) + 1)",                 # a reported one is yielded exactly once
        "implies(not _continued, len(G.last) == len(scc))",               # ... with exactly its nodes, untransformed
        "implies(not _continued, forall(i, Int, implies(0 <= i and i < len(scc), G.last[i] == untr(self, scc[i]))))",
    ],
    'raises': {},        # nothing: a node without a neighbour entry is a trivial component, not a KeyError
    'canary': True,
}


def register(E):
    E.records['digraph.DiGraph'] = {'_neighbors': 'Dict[GNode,NSet]', '_nodes': 'Set[GNode]', '_untransform_node': 'Untr'}
    E.member_sorts['NSet'] = lambda eng, st, cont, x: nmem(cont.z, x.z)
    E.callable_sorts['Untr'] = lambda eng, st, f, args: VObj('OutNode', untr(f.z, args[0].z))
    E.specfuncs.update({'selfloop': _selfloop, 'untr': _untr})
    E.assumptions += [
        "C20 fragment: neighbour sets are an abstract sort with a membership predicate; _untransform_node is a total "
        "function on the nodes of the graph (every transformed node was recorded by _transform_nodes)",
        "C20: the component enumeration itself (iterative Tarjan, digraph.py sccs) is NOT proved; it is explored by the "
        "bounded oracle only (exhaustive small graphs + random graphs against a Warshall closure)",
    ]
    E.add_contract('digraph.DiGraph.sccs', FILTER)
