"""C20: the default-mode filter of DiGraph.sccs (second sentence of the property) as a fragment contract.

The fragment is the tail of the ``if nstate.low == nstate.dfs:`` block, taken mechanically from the real source
(anchor: the statement starting with ``if len(scc) == 1 and not trivial:`` and the two statements after it).  Every
free variable of the fragment is a parameter with an arbitrary value of its type, so the contract holds for every
component the enumeration can hand to it.  The enumeration itself (Tarjan) is NOT proved: bounded oracle native/c20.py.
"""
import z3
from pyvc.vals import VObj, VBool, VInt, VRef, HList, HDict, NONE, usort, fresh_name

Node, NSet, Untr, Out = usort('GNode'), usort('NSet'), usort('Untr'), usort('OutNode')
nmem = z3.Function('nset_member', NSet, Node, z3.BoolSort())
untr = z3.Function('untransform', Untr, Node, Out)


def _selfloop(E, st, g, x):
    """x has an entry in g._neighbors and is a member of it (the node has an edge to itself)"""
    h = st.heap[st.heap[g.rid].fields['_neighbors'].rid]
    return VBool(z3.And(z3.Select(h.mem, x.z), nmem(z3.Select(h.vals, x.z), x.z)))


def _untr(E, st, g, x):
    if getattr(x, 'sort', None) != 'GNode':          # element of the empty default (): the clause is vacuous there
        return VObj('OutNode', z3.Const('undefined_out', Out))
    return VObj('OutNode', untr(st.heap[g.rid].fields['_untransform_node'].z, x.z))


def yield_handler(E, st, x):
    st.ghost['yn'] = VInt(st.ghost['yn'].z + 1)
    st.ghost['last'] = x
    return E.ok(st)


FILTER = {
    'property': ['C20'],
    'fragment': {'find': 'if len(scc) ', 'count': 3, 'continue_exit': True,
                 'heads': ['if len(scc) ', 'utr = ', 'yield ']},
    'params': {'self': 'Rec[digraph.DiGraph]', 'scc': 'List[GNode]', 'trivial': 'bool'},
    'ghost': {'yn': 'int', 'last': 'List[OutNode]'},
    'yield_handler': yield_handler,
    'requires': ["len(scc) >= 1"],                       # a component popped from the stack has at least its root
    'modifies': ['G.yn', 'G.last'],
    'ensures': [
        # the statement: in default mode exactly the components with more than one node or with a self-loop are yielded;
        # with trivial=True every component is
        "iff(not _continued, trivial or len(scc) > 1 or selfloop(self, scc[0]))",
        "implies(_continued, G.yn == old(G.yn))",                         # a skipped component yields nothing
        "implies(not _continued, G.yn == old(G.yn) + 1)",                 # a reported one is yielded exactly once
        "implies(not _continued, len(G.last) == len(scc))",               # ... with exactly its nodes, untransformed
        "implies(not _continued, forall(i, Int, implies(0 <= i and i < len(scc), G.last[i] == untr(self, scc[i]))))",
    ],
    'raises': {},        # nothing: a node without a neighbour entry is a trivial component, not a KeyError
    'canary': True,
}


NEIGHBORS = {          # the public accessor: works on UNtransformed nodes (transforms its argument, untransforms the result)
    'property': ['C20'],
    'generator': True,
    'params': {'node': 'OutNode'},
    'self_fields': {'_neighbors': 'Dict[GNode,NSet]', '_nodes': 'Set[GNode]', '_untransform_node': 'Untr', '_transform_node': 'Tr'},
    'returns': 'List[OutNode]',
    'requires': [], 'modifies': [],
    'ensures': ["implies(tr(self, node) not in self._neighbors, len(result) == 0)",
                "implies(tr(self, node) in self._neighbors, len(result) == nset_len(self._neighbors[tr(self, node)]) and"
                " forall(i, Int, implies(0 <= i and i < len(result),"
                " result[i] == untr(self, nset_item(self._neighbors[tr(self, node)], i)))))"],
    'raises': {},
    'loops': {'#loop1': ["len(G.__yield__) == _i",
                         "forall(i, Int, implies(0 <= i and i < _i, G.__yield__[i] == untr(self, _it[i])))"]},
}


def ownership_syntactic(E):
    """Frame / ownership condition of the graph representation, decided on the AST of the real source (the SMT encoding
    gives neighbour sets value semantics, so aliasing cannot be stated there): every set object that add_neighbors
    stores in self._neighbors, and everything _transform_nodes returns, is created inside the call -- never the caller's
    own set, never a set already stored for another node.  Otherwise a later in-place update (`nbs |= ...`) or the caller
    re-using its set would change edges of other nodes, and sccs() would enumerate a graph that was never built."""
    import ast
    SETOPS = (ast.BitAnd, ast.BitOr, ast.Sub, ast.BitXor)
    FRESH_METHODS = ('copy', 'union', 'intersection', 'difference', 'symmetric_difference')

    def assigned(fdef, name):
        vals = []
        for n in ast.walk(fdef):
            if isinstance(n, ast.Assign) and any(isinstance(t, ast.Name) and t.id == name for t in n.targets):
                vals.append(n.value)
            elif isinstance(n, (ast.AugAssign, ast.AnnAssign)) and isinstance(n.target, ast.Name) and n.target.id == name:
                vals.append(None if isinstance(n, ast.AugAssign) else n.value)     # x |= ...: stays the same object
        return vals

    def fresh(e, fdef, tr_fresh, depth=0):
        if e is None or depth > 6:
            return e is None and depth > 0        # an in-place update of a name keeps it as fresh as it was
        if isinstance(e, ast.Call):
            f = e.func
            if isinstance(f, ast.Name) and f.id in ('set', 'frozenset'):
                return True
            if isinstance(f, ast.Attribute) and f.attr in FRESH_METHODS:
                return True
            if ast.unparse(f) == 'self._transform_nodes':
                return tr_fresh
            return False
        if isinstance(e, ast.BinOp) and isinstance(e.op, SETOPS):
            return True
        if isinstance(e, (ast.SetComp, ast.Set)):
            return True
        if isinstance(e, ast.IfExp):
            return fresh(e.body, fdef, tr_fresh, depth + 1) and fresh(e.orelse, fdef, tr_fresh, depth + 1)
        if isinstance(e, ast.Name):
            vals = assigned(fdef, e.id)
            if e.id in [a.arg for a in fdef.args.args] or not vals:
                return False                       # a parameter (the caller's object) or an unknown name
            return all(fresh(v, fdef, tr_fresh, depth + 1) for v in vals)
        return False

    init, _, _ = E.find_def('digraph.DiGraph.__init__')
    trs = [n for n in ast.walk(init) if isinstance(n, ast.FunctionDef) and n.name == 'tr_nodes']
    lam = [n.value for n in ast.walk(init) if isinstance(n, ast.Assign) and isinstance(n.value, ast.Lambda)
           and any(isinstance(t, ast.Name) and t.id == 'tr_nodes' for t in n.targets)]
    tr_ok = bool(trs or lam)
    for d in trs:
        rets = [r for r in ast.walk(d) if isinstance(r, ast.Return)]
        tr_ok = tr_ok and bool(rets) and all(r.value is not None and fresh(r.value, d, False) for r in rets)
    for l in lam:
        tr_ok = tr_ok and fresh(l.body, init, False)
    E.syntactic_obligation("DiGraph._transform_nodes returns a set created inside the call (never its argument), in both modes",
                           tr_ok, props=('C20',))
    add, _, _ = E.find_def('digraph.DiGraph.add_neighbors')
    stores = [n for n in ast.walk(add) if isinstance(n, ast.Assign)
              and any(isinstance(t, ast.Subscript) and ast.unparse(t.value) == 'self._neighbors' for t in n.targets)]
    st_ok = bool(stores) and all(fresh(n.value, add, tr_ok) for n in stores)
    E.syntactic_obligation("DiGraph.add_neighbors stores only a set it created itself as a node's neighbour set (no aliasing with "
                           "the caller's argument or with another node's set)", st_ok, props=('C20',))
    an, _, _ = E.find_def('digraph.DiGraph.add_nodes')
    upd = [n for n in ast.walk(an) if isinstance(n, ast.Assign) and any(ast.unparse(t) == 'self._nodes' for t in n.targets)]
    E.syntactic_obligation("DiGraph.add_nodes updates the graph's own node set in place or with a new set (the node set is never an "
                           "alias of an argument)", all(fresh(n.value, an, tr_ok) for n in upd), props=('C20',))


def register(E):
    trf = z3.Function('transform', usort('Tr'), Out, Node)
    E.callable_sorts['Tr'] = lambda eng, st, f, args: VObj('GNode', trf(f.z, args[0].z))
    E.specfuncs['tr'] = lambda eng, st, g, x: VObj('GNode', trf(st.heap[g.rid].fields['_transform_node'].z, x.z))
    E.records['digraph.DiGraph'] = {'_neighbors': 'Dict[GNode,NSet]', '_nodes': 'Set[GNode]', '_untransform_node': 'Untr',
                                    '_transform_node': 'Tr'}
    E.member_sorts['NSet'] = lambda eng, st, cont, x: nmem(cont.z, x.z)
    E.callable_sorts['Untr'] = lambda eng, st, f, args: VObj('OutNode', untr(f.z, args[0].z))
    E.specfuncs.update({'selfloop': _selfloop, 'untr': _untr})
    E.assumptions += [
        "C20 fragment: neighbour sets are an abstract sort with a membership predicate; _untransform_node is a total "
        "function on the nodes of the graph (every transformed node was recorded by _transform_nodes)",
        "C20: the component enumeration itself (iterative Tarjan, digraph.py sccs) is NOT proved; it is explored by the "
        "bounded oracle only (exhaustive small graphs + random graphs against a Warshall closure)",
    ]
    ownership_syntactic(E)
    E.add_contract('digraph.DiGraph.sccs', FILTER)
    register_partition(E)
    E.add_contract('digraph.DiGraph.neighbors', NEIGHBORS)


# ======================================================================================================================
# The enumeration itself: a PARTIAL deductive result about the real iterative Tarjan loop (second contract on sccs).
# Proved: the function raises nothing (no KeyError / IndexError / StopIteration / AssertionError on any graph), every
# node of the graph is put into exactly one component (popped from the Tarjan stack exactly once, never twice, and the
# stack is empty when the enumeration ends) -- i.e. the components PARTITION the node set.  NOT proved: that each
# component is a strongly connected component (mutual reachability, maximality) -- that stays with the bounded oracle.
# ======================================================================================================================
TS = usort('TState')
MARK = z3.Const('rtn_marker', Node)
nbr_arr = z3.Function('nset_elements', NSet, z3.ArraySort(z3.IntSort(), Node))
nbr_len = z3.Function('nset_size', NSet, z3.IntSort())


def _gd(st, name):
    return st.heap[st.ghost[name].rid]


def _gput(st, name, key, val):
    ref = st.ghost[name]
    h = st.heap[ref.rid]
    st.heap[ref.rid] = HDict(h.kt, h.vt, z3.Store(h.mem, key, z3.BoolVal(True)), z3.Store(h.vals, key, val))


def ts_attr(which, mk):
    def get(E, st, o):
        return mk(z3.Select(_gd(st, which).vals, o.z))
    return get


def ts_store(which):
    def h(E, st, target, v, node):
        o, attr = target
        _gput(st, which, o.z, v.z)
        return E.ok(st)
    h.__name__ = 'TState.%s := value (ghost map G.%s)' % (which, which)
    return h


def new_state_rule(E, st, node, args, kws, k):
    """_TarjanState(dfs): a new state object; dfs = low = next(counter), stacked = False"""
    t = z3.Const(fresh_name('tstate'), TS)
    al = st.ghost['alloc']
    h = st.heap[al.rid]
    st.assume(z3.Not(z3.Select(h.mem, t)))
    st.heap[al.rid] = HDict(h.kt, h.vt, z3.Store(h.mem, t, z3.BoolVal(True)), h.vals)
    c = st.ghost['ctr'].z
    _gput(st, 'low', t, c)
    _gput(st, 'dfs', t, c)
    _gput(st, 'stk', t, z3.BoolVal(False))
    st.ghost['ctr'] = VInt(c + 1)
    return k(st, VObj('TState', t))
new_state_rule.__name__ = '_TarjanState(dfs): fresh object, dfs = low = next(dfs), stacked = False (ghost maps)'
new_state_rule.modifies = ['G.alloc', 'G.low', 'G.dfs', 'G.stk', 'G.ctr']


def partition_yield(E, st, x):
    st.ghost['yn'] = VInt(st.ghost['yn'].z + 1)
    return E.ok(st)


LOW = lambda x: "G.low[state[%s]]" % x
DFS = lambda x: "G.dfs[state[%s]]" % x
STK = lambda x: "G.stk[state[%s]]" % x
NODES = "self._nodes"
BASE = [
    # every node is unvisited or has a state, never both
    "forall(x, GNode, implies(x in unvisited, x in %s and x not in state))" % NODES,
    "forall(x, GNode, implies(x in state, x in %s and x not in unvisited))" % NODES,
    "forall(x, GNode, implies(x in %s, x in unvisited or x in state))" % NODES,
    "forall(x, GNode, implies(x in state, state[x] in G.alloc))",
    "forall(x, GNode, y, GNode, implies(x in state and y in state and x != y, state[x] != state[y]))",
    # stacked flag == membership in the Tarjan stack; a node with a state is on the stack or already in a component
    "forall(x, GNode, implies(x in state, iff(%s, x in stack)))" % STK('x'),
    "forall(i, Int, j, Int, implies(0 <= i and i < j and j < len(stack), stack[i] != stack[j]))",
    "forall(i, Int, implies(0 <= i and i < len(stack), stack[i] in state))",
    "forall(x, GNode, implies(x in state, iff(x in G.done, not %s)))" % STK('x'),
    "forall(x, GNode, implies(x in G.done, x in state))",
    # numbering: low <= dfs < counter; the stack and the ancestor path are ordered by dfs number
    "forall(x, GNode, implies(x in state, %s <= %s and 0 <= %s and %s < G.ctr))" % (LOW('x'), DFS('x'), DFS('x'), DFS('x')),
    "forall(i, Int, j, Int, implies(0 <= i and i < j and j < len(stack), %s < %s))" % (DFS('stack[i]'), DFS('stack[j]')),
    "forall(i, Int, implies(0 <= i and i < len(ancestors), ancestors[i] in state and %s))" % STK('ancestors[i]'),
    "forall(i, Int, j, Int, implies(0 <= i and i < j and j < len(ancestors), %s < %s))" % (DFS('ancestors[i]'), DFS('ancestors[j]')),
    "implies(len(ancestors) > 0, len(stack) > 0 and ancestors[0] == stack[0])",
    "implies(len(ancestors) == 0, len(stack) == 0)",
    # no low-link points below the root of the current tree (so the root closes its component: the stack empties)
    "implies(len(stack) > 0, forall(x, GNode, implies(x in state and %s >= %s, %s >= %s)))"
    % (DFS('x'), DFS('stack[0]'), LOW('x'), DFS('stack[0]')),
    "G.yn >= old(G.yn)", "G.ctr >= 0",
]
VIS = [
    "forall(p, Int, implies(0 <= p and p < len(visits) and visits[p] != marker(), visits[p] in %s))" % NODES,
    "len(G.mpos) == len(ancestors)",
    "forall(i, Int, implies(0 <= i and i < len(G.mpos), 0 <= G.mpos[i] and G.mpos[i] < len(visits) and visits[G.mpos[i]] == marker()))",
    "forall(i, Int, j, Int, implies(0 <= i and i < j and j < len(G.mpos), G.mpos[i] < G.mpos[j]))",
    "forall(p, Int, implies(0 <= p and p < len(visits) and visits[p] == marker(), exists(i, Int, 0 <= i and i < len(G.mpos) and G.mpos[i] == p)))",
    "implies(len(G.mpos) > 0, G.mpos[0] == 0)",
]
# between trees, or right after a trivial root was skipped with `continue`, the visit list is empty; at the start of a tree
# it holds exactly the (unvisited) root
L2 = BASE + VIS + ["implies(len(ancestors) == 0, len(visits) == 0 or (len(visits) == 1 and visits[0] in unvisited))"]
L1 = BASE + ["len(ancestors) == 0", "len(stack) == 0", "len(visits) == 0", "len(G.mpos) == 0"]
L3 = [b for b in BASE if 'ancestors[0] == stack[0]' not in b and 'len(ancestors) == 0, len(stack) == 0' not in b] + VIS + [
    "exists(i, Int, 0 <= i and i < len(stack) and stack[i] == node)",          # the root of the component is still on the stack
    "node in state",
    "forall(i, Int, implies(0 <= i and i < len(stack), stack[i] == pre(stack, '#loop3')[i]))", "len(stack) <= pre(len(stack), '#loop3')",
    "forall(i, Int, implies(0 <= i and i < len(ancestors), %s < %s))" % (DFS('ancestors[i]'), DFS('node')),
    "implies(len(ancestors) > 0, ancestors[0] == pre(stack, '#loop3')[0] and ancestors[0] != node)",
    "implies(len(ancestors) == 0, node == pre(stack, '#loop3')[0])",
    "len(visits) > 0 or len(ancestors) == 0",
    "implies(len(ancestors) == 0, len(visits) == 0)",
]
GHOSTS_MOD = ['G.low', 'G.dfs', 'G.stk', 'G.alloc', 'G.ctr', 'G.done', 'G.mpos', 'G.yn']

PARTITION = {
    'merge': True,
    'property': ['C20'],
    'generator': True,
    'params': {'trivial': 'bool'},
    'self_fields': {'_neighbors': 'Dict[GNode,NSet]', '_nodes': 'Set[GNode]', '_untransform_node': 'Untr'},
    'returns': 'List[Any]',
    'yield_handler': partition_yield,
    'ghost': {'done': 'Set[GNode]', 'alloc': 'Set[TState]', 'ctr': 'int', 'low': 'Dict[TState,int]', 'dfs': 'Dict[TState,int]',
              'stk': 'Dict[TState,bool]', 'mpos': 'List[int]', 'yn': 'int'},
    'locals': {'state': 'Dict[GNode,TState]', 'ancestors': 'List[GNode]', 'stack': 'List[GNode]', 'visits': 'List[GNode]',
               'scc': 'List[GNode]', 'nstate': 'Opt[TState]'},
    'requires': [
        "marker() not in self._nodes",                       # the return marker is a fresh object(), not a node
        # class invariant of DiGraph (add_neighbors intersects with the known nodes): neighbours are nodes of the graph
        "forall(x, GNode, i, Int, implies(x in self._neighbors and 0 <= i and i < nset_len(self._neighbors[x]),"
        " nset_item(self._neighbors[x], i) in self._nodes))",
        "forall(x, GNode, x not in G.done)", "len(G.mpos) == 0", "G.ctr >= 0",
    ],
    'modifies': GHOSTS_MOD,
    'ghost_code': {
        'scc.append(n)': ['G.done.add(n)'],
        'node = ancestors.pop()': ['G.mpos.pop()'],
        'visits[-1] = rtn_marker': ['G.mpos.append(len(visits) - 1)'],
    },
    'ensures': [
        # the components partition the node set: every node was put into exactly one component
        "forall(x, GNode, iff(x in G.done, x in self._nodes))",
    ],
    'raises': {},          # nothing: no KeyError, IndexError, StopIteration or AssertionError on any graph
    'callsites': {
        'scc.append': ["n not in G.done",                   # ... and never into a second one
                       "n in self._nodes"],
    },
    'loops': {
        '#loop1': {'modifies': GHOSTS_MOD, 'inv': L1},
        '#loop2': {'modifies': GHOSTS_MOD, 'inv': L2},
        '#loop3': {'modifies': GHOSTS_MOD, 'inv': L3},
    },
    'rules': {'count': 'fresh:Any', 'object': lambda E, st, node, args, kws, k: k(st, VObj('GNode', MARK)),
              '_TarjanState': new_state_rule,
              'store:TState.low': ts_store('low'), 'store:TState.stacked': ts_store('stk')},
}


def register_partition(E):
    E.objattrs[('TState', 'low')] = ts_attr('low', VInt)
    E.objattrs[('TState', 'dfs')] = ts_attr('dfs', VInt)
    E.objattrs[('TState', 'stacked')] = ts_attr('stk', VBool)
    E.iter_sorts['NSet'] = lambda eng, st, o: st.alloc(HList(('obj', 'GNode'), nbr_arr(o.z), nbr_len(o.z)))
    s0 = z3.Const('s0', NSet)
    i0 = z3.Int('i0')
    E.axioms += [z3.ForAll([s0], nbr_len(s0) >= 0),
                 z3.ForAll([s0, i0], z3.Implies(z3.And(0 <= i0, i0 < nbr_len(s0)), nmem(s0, z3.Select(nbr_arr(s0), i0))))]
    E.specfuncs.update({'marker': lambda eng, st: VObj('GNode', MARK),
                        'nset_len': lambda eng, st, s_: VInt(nbr_len(s_.z)),
                        'nset_item': lambda eng, st, s_, i: VObj('GNode', z3.Select(nbr_arr(s_.z), i.z))})
    E.truthy_sorts['TState'] = 'always'
    E.add_contract('digraph.DiGraph.sccs@partition', PARTITION)
