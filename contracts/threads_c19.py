"""C19: threadsupport.enumerate -- exactly one proxy per ident that sys._current_frames() lists; the threading object
when threading knows the ident, else a DummyThread for it."""
import os
import z3
from pyvc.vals import VObj, VBool, VInt, VRef, HList, HDict, NONE, usort, fresh_name
from pyvc.state import fresh_val

HERE = os.path.dirname(os.path.abspath(__file__))
TObj, Proxy = usort('ThreadObj'), usort('Proxy')
I = z3.IntSort()
ident = z3.Function('attr_ThreadObj_ident', TObj, I)
proxy = z3.Function('ThreadProxy', TObj, Proxy)
dummy = z3.Function('DummyThread', I, TObj)


def frames_rule(E, st, node, args, kws, k):
    d = fresh_val(('dict', ('int',), ('obj', 'Any')), 'frames', st)
    st.ghost['frames'] = d
    return k(st, d)
frames_rule.__name__ = 'sys._current_frames(): {ident: frame} of the threads running now (ghost G.frames)'
frames_rule.modifies = ['G.frames']


def tlist_rule(E, st, node, args, kws, k):
    L = fresh_val(('list', ('obj', 'ThreadObj')), 'threading_enumerate', st)
    st.ghost['known'] = L
    return k(st, L)
tlist_rule.__name__ = 'threading.enumerate(): the thread objects threading knows (ghost G.known)'
tlist_rule.modifies = ['G.known']

# the thread object standing for ident i: one that threading knows with that ident, else DummyThread(i)
STANDS_FOR = ("((exists(q, Int, 0 <= q and q < len(G.known) and G.known[q].ident == {i} and {x} == proxy_of(G.known[q])))"
              " or (not exists(q, Int, 0 <= q and q < len(G.known) and G.known[q].ident == {i}) and {x} == proxy_of(dummy({i}))))")

ENUMERATE = {
    'property': ['C19'],
    'params': {},
    'returns': 'List[Proxy]',
    'ghost': {'frames': 'Dict[int,Any]', 'known': 'List[ThreadObj]'},
    'requires': [],
    'modifies': ['G.frames', 'G.known'],
    'ensures': [
        # nothing but running threads: every proxy stands for an ident that sys._current_frames() lists
        "forall(p, Int, implies(0 <= p and p < len(result), exists(i, Int, i in G.frames and %s)))"
        % STANDS_FOR.format(i='i', x='result[p]'),
        # every running thread: each listed ident has its proxy
        "forall(i, Int, implies(i in G.frames, exists(p, Int, 0 <= p and p < len(result) and %s)))"
        % STANDS_FOR.format(i='i', x='result[p]'),
    ],
    'raises': {},
    'rules': {'current_frames': frames_rule, 'threading.enumerate': tlist_rule,
              'ThreadProxy': lambda E, st, node, args, kws, k: k(st, VObj('Proxy', proxy(args[0].z))),
              'DummyThread': lambda E, st, node, args, kws, k: k(st, VObj('ThreadObj', dummy(args[0].z)))},
}


def register(E):
    E.load_sidecar(os.path.join(HERE, 'common.py'))
    E.objattrs[('ThreadObj', 'ident')] = 'int'
    i0 = z3.Int('i0')
    E.axioms.append(z3.ForAll([i0], ident(dummy(i0)) == i0))        # DummyThread.__init__: self.ident = ident
    E.specfuncs.update({'proxy_of': lambda eng, st, t: VObj('Proxy', proxy(t.z)),
                        'dummy': lambda eng, st, i: VObj('ThreadObj', dummy(i.z))})
    E.assumptions += [
        "C19: sys._current_frames() lists exactly the threads running at that moment (interpreter); ThreadProxy(t) and "
        "DummyThread(i) are constructors (pure); when threading knows several objects with one ident any of them may be "
        "taken (dict comprehension keeps the last)",
    ]
    E.add_contract('threadsupport.enumerate', ENUMERATE)
