"""C10 / C03: Runner.ordered_layers (what the run loop and --list-tests iterate) and the purity of the ordering functions."""
import ast
import builtins
import os
import z3
from pyvc.vals import VObj, VBool, VInt, VTup, HList, usort, fresh_name, sort_of, to_z3

HERE = os.path.dirname(os.path.abspath(__file__))


def free_names(fdef):
    """names a function reads or writes that are not bound inside it (params, assignments, nested defs, loop and
    comprehension variables) and are not builtins"""
    bound, used, decl = set(), set(), set()
    for n in ast.walk(fdef):
        if isinstance(n, ast.arg):
            bound.add(n.arg)
        elif isinstance(n, ast.Name):
            (bound if isinstance(n.ctx, (ast.Store, ast.Del)) else used).add(n.id)
        elif isinstance(n, (ast.FunctionDef, ast.ClassDef)) and n is not fdef:
            bound.add(n.name)
        elif isinstance(n, (ast.Global, ast.Nonlocal)):
            decl.update(n.names)
        elif isinstance(n, ast.ExceptHandler) and n.name:
            bound.add(n.name)
    return {u for u in (used | decl) if (u not in bound or u in decl) and not hasattr(builtins, u)}, decl


def purity(E):
    """C10 'depends only on the set of layers (names and base relationships)': the ordering functions read nothing but
    their argument, __bases__ and name_from_layer, and keep no state between calls (decided on the real source)."""
    if ('order_purity',) in E.added_axioms:          # shared by the sidecars runner_order and runner_layers
        return
    E.added_axioms.add(('order_purity',))
    allowed = {
        'runner.layer_sort_key': {'name_from_layer', 'UnitTests'},
        'runner.order_by_bases': {'layer_sort_key', 'gather_layers'},
        'runner.gather_layers': {'gather_layers'},
    }
    for qual, ok in allowed.items():
        fdef, _, _ = E.find_def(qual)
        free, decl = free_names(fdef)
        extra = sorted(free - ok)
        attrs = sorted({n.attr for n in ast.walk(fdef) if isinstance(n, ast.Attribute)
                        and n.attr not in ('__bases__', 'append', 'add', 'reverse', 'clear')})
        dflt = [ast.unparse(d) for d in fdef.args.defaults + [d for d in fdef.args.kw_defaults if d is not None]
                if not isinstance(d, ast.Constant)]
        E.syntactic_obligation(
            "%s is a function of its argument only: no global / nonlocal state, no mutable default, reads only "
            "__bases__%s" % (qual, ' and ' + ', '.join(sorted(ok)) if ok else ''),
            not extra and not decl and not attrs and not dflt,
            'other names: %s; global/nonlocal: %s; other attributes: %s; non-constant defaults: %s'
            % (extra, sorted(decl), attrs, dflt),
            # C05 / C01 / C16: TestResult.__init__ and tear_down_unneeded keep (and reverse in place) the list they get from
            # order_by_bases: a result shared between calls (a memo) would be changed under the other caller's feet
            props=('C10', 'C05', 'C01', 'C16'))
    # ... and what order_by_bases returns is a list made in this call: it is bound by a list display / list() / sorted()
    # in the function and never stored anywhere (callers own it: tear_down_unneeded reverses it in place)
    fdef, _, _ = E.find_def('runner.order_by_bases')
    rets = [n.value for n in ast.walk(fdef) if isinstance(n, ast.Return)]
    fresh = bool(rets)
    why = []
    for r in rets:
        if isinstance(r, ast.Name):
            binds = [a.value for a in ast.walk(fdef) if isinstance(a, ast.Assign)
                     and any(isinstance(t, ast.Name) and t.id == r.id for t in a.targets)]
            ok = bool(binds) and all(isinstance(b, (ast.List, ast.ListComp))
                                     or (isinstance(b, ast.Call) and ast.unparse(b.func) in ('list', 'sorted')) for b in binds)
            stored = [ast.unparse(a)[:50] for a in ast.walk(fdef) if isinstance(a, ast.Assign)
                      and not all(isinstance(t, ast.Name) for t in a.targets)
                      and any(isinstance(x, ast.Name) and x.id == r.id for x in ast.walk(a.value))]
            if not ok or stored:
                fresh = False
                why.append('%s bound by %s; stored: %s' % (r.id, [ast.unparse(b)[:40] for b in binds], stored))
        elif not (isinstance(r, (ast.List, ast.ListComp)) or (isinstance(r, ast.Call) and ast.unparse(r.func) in ('list', 'sorted'))):
            fresh = False
            why.append('returns %s' % ast.unparse(r)[:50])
    E.syntactic_obligation("order_by_bases returns a list created in the call and stored nowhere else (its callers own it)",
                           fresh, '; '.join(why), props=('C10', 'C05', 'C01', 'C16'))
    rt, _, rsrc = E.find_def('runner.Runner.run_tests')
    lst, _, lsrc = E.find_def('listing.Listing.report')
    E.syntactic_obligation("the run loop (Runner.run_tests) and --list-tests (Listing.report) both iterate "
                           "ordered_layers()", 'self.ordered_layers()' in rsrc and 'self.runner.ordered_layers()' in lsrc,
                           props=('C10', 'C03'))


OFF = "ite(self.options.processes > 1 and not bool(self.options.resume_layer), 1, 0)"
T = "self.tests_by_layer_name"
Y = "G.__yield__"
RNG = lambda a: "(%s <= %s and %s < len(%s))" % (OFF, a, a, Y)
ENTRY = lambda a: ("({Y}[{a}][0] in {T} and {Y}[{a}][1] == layer_of({Y}[{a}][0]) and {Y}[{a}][2] == {T}[{Y}[{a}][0]])"
                   .format(Y=Y, T=T, a=a))
# invariants shared by the layer loop (index _i1 over _it1 = order_by_bases(...)) and the name loop (_i2 over _it2)
COMMON = [
    "forall(a, Int, implies(%s, %s))" % (RNG('a'), ENTRY('a')),
    "forall(a, Int, b, Int, implies(%s and %s and a < b, %s[a][0] != %s[b][0]))" % (RNG('a'), RNG('b'), Y, Y),
    # groups come in the order of the layers
    "forall(a, Int, b, Int, u, Int, v, Int, implies(%s and %s and a < b and 0 <= u and u < len(_it1) and 0 <= v and"
    " v < len(_it1) and _it1[u] == %s[a][1] and _it1[v] == %s[b][1], u <= v))" % (RNG('a'), RNG('b'), Y, Y),
    "len(%s) >= %s" % (Y, OFF),
    "implies(%s == 1, %s[0][1] == EmptyLayerObj())" % (OFF, Y),
    "distinct(_it1)", "bases_first(_it1)",
    "forall(u, Int, implies(0 <= u and u < len(_it1), _it1[u] != object and _it1[u] in layer_names))",
    "forall(n, Str, implies(n in %s, layer_of(n) in layer_names))" % T,
    "forall(x, Layer, implies(x in layer_names, exists(u, Int, 0 <= u and u < len(_it1) and _it1[u] == x)))",
    "forall(n, Str, implies(n in %s and layer_of(n) == UnitTests, _it1[0] == UnitTests))" % T,
]
HASPOS = lambda n: ("(%s in G.pos and %s <= G.pos[%s] and G.pos[%s] < len(%s) and %s[G.pos[%s]][0] == %s)"
                    % (n, OFF, n, n, Y, Y, n, n))
DONE = lambda i: "exists(u, Int, 0 <= u and u < %s and _it1[u] == %%s)" % i

ORDERED = {
    'property': ['C10', 'C03'],
    'generator': True,
    'params': {},
    'self_fields': {'options': 'Rec[Options]', 'tests_by_layer_name': 'Dict[Str,Suite]'},
    'returns': 'List[Tuple[Str,Layer,Suite]]',
    'locals': {'layer_names': 'Dict[Layer,Str]'},
    'ghost': {'pos': 'Dict[Str,int]'},            # where each name was yielded (explicit witness instead of an existential)
    'ghost_code': {'yield (layer_name, layer, self.tests_by_layer_name[layer_name])': ['G.pos[layer_name] = len(G.__yield__) - 1']},
    'requires': ["WF()"],
    'modifies': ['G.pos'],
    'ensures': [
        # one group per registered layer name: nothing invented, nothing lost, none twice -- also when several names
        # denote one layer object
        "forall(i, Int, implies(%s <= i and i < len(result), result[i][0] in %s"
        " and result[i][1] == layer_of(result[i][0]) and result[i][2] == %s[result[i][0]]))" % (OFF, T, T),
        "forall(n, Str, implies(n in %s, exists(i, Int, %s <= i and i < len(result) and result[i][0] == n)))" % (T, OFF),
        "forall(i, Int, j, Int, implies(%s <= i and i < j and j < len(result), result[i][0] != result[j][0]))" % OFF,
        # a layer never comes before one of its bases that is registered too
        "forall(v, Int, w, Int, implies(%s <= v and v < len(result) and %s <= w and w < len(result) and"
        " isanc(result[w][1], result[v][1]) and result[w][1] != result[v][1], w < v))" % (OFF, OFF),
        # the groups of one layer are contiguous
        "forall(a, Int, b, Int, c, Int, implies(%s <= a and a < b and b < c and c < len(result) and"
        " result[a][1] == result[c][1], result[b][1] == result[a][1]))" % OFF,
        # the unit-test layer comes first (after the empty hand-over group of a -j N parent)
        "forall(n, Str, implies(n in %s and layer_of(n) == UnitTests, result[%s][1] == UnitTests))" % (T, OFF),
        "len(result) >= %s" % OFF,
        "implies(%s == 1, result[0][1] == EmptyLayerObj())" % OFF,
        "forall(i, Int, implies(0 <= i and i < len(result), result[i][1] != object))",
    ],
    'raises': {},
    'loops': {
        '#loop1': COMMON + [
            "forall(a, Int, implies(%s, %s))" % (RNG('a'), DONE('_i1') % (Y + '[a][1]')),
            "forall(n, Str, implies(n in %s and %s, %s))" % (T, DONE('_i1') % 'layer_of(n)', HASPOS('n')),
        ],
        '#loop2': COMMON + [
            "0 <= _i1 and _i1 < len(_it1) and layer == _it1[_i1]",
            "forall(a, Int, implies(%s, %s or (%s[a][1] == layer and"
            " exists(q, Int, 0 <= q and q < _i2 and _it2[q] == %s[a][0]))))" % (RNG('a'), DONE('_i1') % (Y + '[a][1]'), Y, Y),
            "forall(n, Str, implies(n in %s and %s, %s))" % (T, DONE('_i1') % 'layer_of(n)', HASPOS('n')),
            "forall(q, Int, implies(0 <= q and q < _i2 and layer_of(_it2[q]) == layer, %s))" % HASPOS('_it2[q]'),
            # the sorted names: exactly the registered names, each once
            "forall(q, Int, implies(0 <= q and q < len(_it2), _it2[q] in %s))" % T,
            "forall(n, Str, implies(n in %s, exists(q, Int, 0 <= q and q < len(_it2) and _it2[q] == n)))" % T,
            "forall(p, Int, q, Int, implies(0 <= p and p < q and q < len(_it2), _it2[p] != _it2[q]))",
        ],
    },
}


def register(E):
    E.load_sidecar(os.path.join(HERE, 'runner_layers.py'))
    Layer, Suite = usort('Layer'), usort('Suite')
    EMPTY = z3.Const('EmptyLayerObj', Layer)
    E.axioms.append(EMPTY != z3.Const('OBJ', Layer))
    E.globals['runner.EmptyLayer'] = lambda eng, st: VObj('Layer', EMPTY)
    E.specfuncs['EmptyLayerObj'] = lambda eng, st: VObj('Layer', EMPTY)
    E.global_rules['EmptySuite'] = 'fresh:Suite'
    E.truthy_sorts['Suite'] = 'always'
    E.records.setdefault('runner.Runner', {})
    E.assumptions += [
        "layer_from_name(name) is a pure function of the name and never returns `object` (several registered names may "
        "denote the same layer object: each name is a group of its own)",
    ]
    purity(E)
    E.add_contract('runner.Runner.ordered_layers', ORDERED)
