"""Rules and record schemas shared by all sidecars (the trusted base T4/T5 of DESIGN.md 3.5)."""

OPTIONS = {
    'output': 'Output', 'post_mortem': 'bool', 'resume_layer': 'Opt[Str]', 'resume_number': 'Opt[int]',
    'verbose': 'int', 'processes': 'int', 'stop_on_error': 'bool', 'repeat': 'int', 'progress': 'bool',
    'report_refcounts': 'bool', 'buffer': 'bool', 'gc_after_test': 'bool',
}

GLOBAL_RULES = {
    # T5: formatter methods terminate, raise nothing, touch no runner state
    'output.*': 'NOEFFECT',
    'options.output.*': 'NOEFFECT',
    'self.options.output.*': 'NOEFFECT',
    'self.runner.options.output.*': 'NOEFFECT',
    'outp.*': 'NOEFFECT',
    'time.time': 'fresh:real',
    'time.sleep': 'NOEFFECT',
    'name_from_layer': 'pure:Str',
    'sys.exc_info': 'fresh:Any',
    'StringIO': 'fresh:Any',
    'traceback.print_exc': 'NOEFFECT',
    'f.getvalue': 'fresh:Str',
    'gc.collect': 'fresh:int',
    # T4: the file system answers arbitrarily (what exists is outside every contract)
    # pure string functions of the standard library (no effect, no exception for str arguments)
    're.escape': 'pure:Str',
    'os.path.realpath': 'pure:Str', 'os.path.normpath': 'pure:Str', 'os.path.normcase': 'pure:Str', 'shlex.quote': 'pure:Str',
    'os.path.exists': 'fresh:bool', 'os.path.isfile': 'fresh:bool', 'os.path.isdir': 'fresh:bool', 'os.path.islink': 'fresh:bool',
}


def register(E):
    E.records.setdefault('Options', {}).update(OPTIONS)
    for k, v in GLOBAL_RULES.items():
        E.global_rules.setdefault(k, v)
    E.truthy_sorts.setdefault('Output', 'always')
    E.objattrs.setdefault(('Any', 'subunit_label'), 'Str')
    import z3 as _z3
    from pyvc.vals import VInt as _VInt
    _ms = _z3.Int('sys_maxsize')
    if ('maxsize',) not in E.added_axioms:
        E.added_axioms.add(('maxsize',))
        E.axioms.append(_ms >= 2147483647)
    E.globals.setdefault('sys.maxsize', lambda eng, st: _VInt(_ms))
    E.globals.setdefault('is_jython', False)
    E.globals.setdefault('uses_refcounts', True)
    note = ("T5: OutputFormatter/Subunit formatter methods are assumed to terminate, raise nothing and not to "
            "touch runner state (calls matching output.* are abstracted to no-ops)")
    if note not in E.assumptions:
        E.assumptions.append(note)
        E.assumptions.append("T4: time.time() returns an arbitrary real; name_from_layer is a pure function of the layer")
        E.assumptions.append("CPython only: is_jython == False, uses_refcounts == True")
