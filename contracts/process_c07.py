"""C07 (child side): SubProcess.report writes exactly  header(ran, #failures, #errors), then one line per failure, then
one line per error  to the original stderr -- and the parent's parser, run on exactly these lines, finds them complete."""
import os
import z3
from pyvc.vals import VObj, VBool, VInt, VTup, VRef, HList, NONE, usort, fresh_name, to_z3

HERE = os.path.dirname(os.path.abspath(__file__))
WLine, Any, Str = usort('WLine'), usort('Any'), usort('Str')
I = z3.IntSort()
mkhdr = z3.Function('wire_header', I, I, I, WLine)
mkname = z3.Function('wire_name', Any, WLine)          # ' '.join(str(test).strip().split('\n'))

LISTS = 'List[Tuple[Any,Any]]'


def print_rule(E, st, node, args, kws, k):
    w = st.ghost['wire']
    if len(args) == 3:
        line = mkhdr(*[to_z3(a, ('int',)) for a in args])
    else:
        a0 = args[0]
        if getattr(a0, 'sort', None) == 'WLine':
            line = a0.z
        else:        # some other text: a line about which nothing is known (in particular not the normalised test name)
            line = z3.Const(fresh_name('raw_line'), WLine)
    E.list_append(w, VObj('WLine', line), st)
    return k(st, NONE)
print_rule.__name__ = 'print(..., file=self.original_stderr): appends one line to the wire (ghost G.wire)'
print_rule.modifies = ['G.wire']


def norm_rule(E, st, node, args, kws, k):
    """' '.join(str(test).strip().split('\\n')): a pure function of the test"""
    t = st.lookup('test')
    return k(st, VObj('WLine', mkname(to_z3(t, ('obj', 'Any')))))
norm_rule.raw = False
norm_rule.__name__ = "' '.join(str(test).strip().split('\\n')) = name line of the test (pure)"


def _hdr(E, st, a, b, c):
    return VObj('WLine', mkhdr(a.z, b.z, c.z))


def _nameline(E, st, pair):
    return VObj('WLine', mkname(to_z3(pair.items[0], ('obj', 'Any'))))


NF, NE = "len(self.runner.failures)", "len(self.runner.errors)"
REPORT = {
    'property': ['C07', 'C12'],
    'params': {},
    'self_fields': {'runner': 'Rec[ReportRunner]', 'original_stderr': 'Any'},
    'ghost': {'wire': 'List[WLine]'},
    'requires': [],
    'modifies': ['G.wire'],
    'ensures': [
        "len(G.wire) == old(len(G.wire)) + 1 + " + NF + " + " + NE,
        "forall(q, Int, implies(0 <= q and q < old(len(G.wire)), G.wire[q] == old(G.wire)[q]))",
        "G.wire[old(len(G.wire))] == header(self.runner.ran, " + NF + ", " + NE + ")",
        "forall(q, Int, implies(0 <= q and q < " + NF + ", G.wire[old(len(G.wire)) + 1 + q] == nameline(self.runner.failures[q])))",
        "forall(q, Int, implies(0 <= q and q < " + NE + ", G.wire[old(len(G.wire)) + 1 + " + NF + " + q] == nameline(self.runner.errors[q])))",
    ],
    'raises': {},
    'loops': {
        '#loop1': ["len(G.wire) == old(len(G.wire)) + 1 + _i",
                   "forall(q, Int, implies(0 <= q and q < old(len(G.wire)), G.wire[q] == old(G.wire)[q]))",
                   "G.wire[old(len(G.wire))] == header(self.runner.ran, " + NF + ", " + NE + ")",
                   "forall(q, Int, implies(0 <= q and q < _i, G.wire[old(len(G.wire)) + 1 + q] == nameline(self.runner.failures[q])))"],
        '#loop2': ["len(G.wire) == old(len(G.wire)) + 1 + " + NF + " + _i",
                   "forall(q, Int, implies(0 <= q and q < old(len(G.wire)), G.wire[q] == old(G.wire)[q]))",
                   "G.wire[old(len(G.wire))] == header(self.runner.ran, " + NF + ", " + NE + ")",
                   "forall(q, Int, implies(0 <= q and q < " + NF + ", G.wire[old(len(G.wire)) + 1 + q] == nameline(self.runner.failures[q])))",
                   "forall(q, Int, implies(0 <= q and q < _i, G.wire[old(len(G.wire)) + 1 + " + NF + " + q] == nameline(self.runner.errors[q])))"],
    },
    'rules': {'sys.stdout.close': 'NOEFFECT', 'self.original_stderr.flush': 'NOEFFECT', 'print': print_rule,
              "' '.join": norm_rule, "str(test).strip().split": 'fresh:Any'},
}


def register(E):
    E.load_sidecar(os.path.join(HERE, 'common.py'))
    E.records['ReportRunner'] = {'ran': 'int', 'failures': LISTS, 'errors': LISTS}
    E.records['process.SubProcess'] = {}
    E.specfuncs.update({'header': _hdr, 'nameline': _nameline})
    E.assumptions += [
        "print(a, b, c, file=f) writes the line 'a b c'; print(s, file=f) writes s; nothing else writes to the original stderr "
        "after sys.stdout.close() (stderr noise of the tests is the residual risk, see the known findings)",
    ]
    E.add_contract('process.SubProcess.report', REPORT)
