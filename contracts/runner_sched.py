"""C06: resume_tests, the -j N scheduler.  The loop is sequential code that *observes* concurrent activity through
thread.is_alive() and result.done; those observations are arbitrary, constrained only by the rely

    R1  a thread once observed dead stays dead                      (is_alive() == False  =>  t in G.dead, for ever)
    R2  when a thread is dead its result is done                    (spawn_layer_in_subprocess sets result.done in its
                                                                     outermost finally -- proved there, P3 of C07)
    R3  done is monotone

so every answer sequence the scheduler of the OS can produce is a path of the symbolic execution.
"""
import os
import z3
from pyvc.vals import VObj, VBool, VInt, VTup, VRef, VOpt, HList, HDict, NONE, usort, fresh_name
from pyvc.state import fresh_val

HERE = os.path.dirname(os.path.abspath(__file__))
Thread, Res, Line = usort('Thread'), usort('SubResult'), usort('OutLine')
from pyvc.vals import VOpt as VOpt  # noqa: E402
I = z3.IntSort()
tidx = z3.Function('thread_index', Thread, I)
rthread = z3.Function('thread_of_result', Res, Thread)
rlines_arr = z3.Function('result_stdout_arr', Res, z3.ArraySort(I, Line))
rlines_n = z3.Function('result_stdout_len', Res, I)
rnum = z3.Function('result_num_ran', Res, I)


def _mem(st, g, z):
    return z3.Select(st.heap[st.ghost[g].rid].mem, z)


def _add(st, g, z, cond=None):
    ref = st.ghost[g]
    h = st.heap[ref.rid]
    val = z3.BoolVal(True) if cond is None else z3.Or(z3.Select(h.mem, z), cond)
    st.heap[ref.rid] = HDict(h.kt, h.vt, z3.Store(h.mem, z, val), h.vals)


def result_factory_rule(E, st, node, args, kws, k):
    r = z3.Const(fresh_name('result'), Res)
    st.assume(z3.Not(_mem(st, 'doneseen', r)))                 # a new result is not done
    return k(st, VObj('SubResult', r))
result_factory_rule.__name__ = 'result_factory(layer_name, queue): a new result collector, not done'


def thread_rule(E, st, node, args, kws, k):
    t = z3.Const(fresh_name('thread'), Thread)
    ready = st.heap[st.lookup('ready_threads').rid]
    res = kws['args'].items[0]
    st.assume(tidx(t) == ready.n)                               # the k-th thread created
    st.assume(rthread(res.z) == t)                              # ... is the one that fills the k-th result
    st.assume(z3.And(z3.Not(_mem(st, 'started', t)), z3.Not(_mem(st, 'dead', t))))      # a new thread is NEW
    return k(st, VObj('Thread', t))
thread_rule.__name__ = 'threading.Thread(target, args): a new thread object in state NEW'


def start_rule(E, st, node, args, kws, k):
    _add(st, 'started', st.lookup('thread').z)
    return k(st, NONE)
start_rule.__name__ = 'thread.start(): NEW -> STARTED (ghost G.started)'
start_rule.modifies = ['G.started']


def is_alive_rule(E, st, node, args, kws, k):
    t = st.lookup('thread').z
    b = z3.Bool(fresh_name('alive'))
    st.assume(z3.Implies(_mem(st, 'dead', t), z3.Not(b)))       # R1
    _add(st, 'dead', t, z3.Not(b))
    return k(st, VBool(b))
is_alive_rule.__name__ = 'thread.is_alive(): any answer; False means DEAD from now on (rely R1, ghost G.dead)'
is_alive_rule.modifies = ['G.dead']


def done_attr(E, st, r):
    d = z3.Bool(fresh_name('done'))
    st.assume(z3.Implies(_mem(st, 'dead', rthread(r.z)), d))     # R2
    st.assume(z3.Implies(_mem(st, 'doneseen', r.z), d))         # R3
    _add(st, 'doneseen', r.z, d)
    return VBool(d)


def writelines_rule(E, st, node, args, kws, k):
    st.ghost['printed'] = VInt(st.ghost['printed'].z + 1)
    return k(st, NONE)
writelines_rule.__name__ = 'stdout.writelines(lines): one layer block written (ghost G.printed += 1)'
writelines_rule.modifies = ['G.printed']

M = "len(results)"
T_OF = lambda k: "thread_of(results[%s])" % k
# --- invariants of the polling loop (and of its inner loops) ---------------------------------------------------
STATIC = [
    "len(results) == old(len(layers))", "len(results) >= 1",
    "forall(k, Int, implies(0 <= k and k < %s, tindex(%s) == k))" % (M, T_OF('k')),
]
READY = [            # I0: ready_threads == T[npop:], none of them started; everything before npop is started
    "0 <= G.npop and G.npop <= %s and len(ready_threads) == %s - G.npop" % (M, M),
    "forall(q, Int, implies(0 <= q and q < len(ready_threads), ready_threads[q] == %s))" % T_OF('G.npop + q'),
    "forall(k, Int, implies(0 <= k and k < %s, iff(%s in G.started, k < G.npop)))" % (M, T_OF('k')),
]
RUNNING = [
    "len(running_threads) <= options.processes",                                       # I1: at most N slots
    # I2 (K): every started thread that was not observed dead occupies a slot -- so at most N children are alive
    "forall(k, Int, implies(0 <= k and k < G.npop and %s not in G.dead, %s in running_threads))" % (T_OF('k'), T_OF('k')),
    "forall(q, Int, implies(0 <= q and q < len(running_threads), running_threads[q] in G.started))",
    "forall(k, Int, implies(0 <= k and k < %s and %s in G.dead, %s in G.started))" % (M, T_OF('k'), T_OF('k')),
]
PRINTED = [          # I3: blocks 0 .. printed-1 are out, in order; current_result is the next one
    "0 <= G.printed and G.printed <= %s" % M,
    "iff(current_result is None, G.printed == %s)" % M,
    "implies(current_result is not None, current_result == results[G.printed] and iterpos(results_iter) == G.printed + 1)",
    "implies(current_result is None, iterpos(results_iter) == %s)" % M,
]
J = ["implies(G.printed < %s, %s not in G.dead)" % (M, T_OF('G.printed'))]      # the next block's thread was not reaped

LOOP_LOCALS = {'current_result': 'Opt[SubResult]', 'ready_threads': 'List[Thread]', 'running_threads': 'List[Thread]',
               'results': 'List[SubResult]', 'stdout_queue': 'Opt[Queue]', 'output': 'Opt[Any]',
               'last_layer_intermediate_output': 'Opt[Str]', 'previous_output': 'Opt[Any]'}

RESUME = {
    'merge': True,
    'property': ['C06'],
    'params': {'script_parts': 'Any', 'options': 'Rec[SchedOptions]', 'features': 'Any',
               'layers': 'List[Tuple[Str,Layer,Suite]]', 'failures': 'List[Tuple[Any,Any]]', 'errors': 'List[Tuple[Any,Any]]',
               'skipped': 'List[Tuple[Any,Any]]', 'cwd': 'Any'},
    'returns': 'int',
    'ghost': {'started': 'Set[Thread]', 'dead': 'Set[Thread]', 'doneseen': 'Set[SubResult]', 'printed': 'int', 'npop': 'int'},
    'locals': LOOP_LOCALS,
    'requires': ["len(layers) >= 1", "options.processes >= 1", "G.printed == 0", "G.npop == 0",
                 "forall(t, Thread, t not in G.started and t not in G.dead)"],
    'modifies': ['G.started', 'G.dead', 'G.doneseen', 'G.printed', 'G.npop'],
    'ghost_code': {'thread = ready_threads.pop(0)': ['G.npop = G.npop + 1']},
    'ensures': [
        "G.printed == old(len(layers))",        # every layer's block was written -- exactly once, in order (call site below)
    ],
    'raises': {},
    'callsites': {
        # one thread per layer, created in layer order, wired to the result of the same index
        'threading.Thread': ["layer_name == old(layers)[_i][0]", "layer == old(layers)[_i][1]",     # in the order handed over
                             "_kw_args[0] == result", "_kw_args[4] == layer_name", "_kw_args[5] == layer",
                             "_kw_args[9] == resume_number",
                             "_kw_args[10] == cwd",                 # C03: ... and the start directory (startdir_c03)
                             "resume_number == ite(options.processes > 1, 1, 0) + _i"],
        # at most N children alive: a thread is started only into a free slot, and only once
        'thread.start': ["thread not in G.started", "len(running_threads) < options.processes",
                         "tindex(thread) == G.npop - 1"],          # started in the order the layers were handed over
        'thread.is_alive': ["thread in G.started"],
        # "up to N layers make progress": after the start loop all N slots are taken or nothing is waiting
        'enumerate': ["len(running_threads) >= options.processes or len(ready_threads) == 0"],
        # the blocks come out in the sequential layer order, each once, each only after its result was seen done
        'stdout.writelines': ["current_result == results[G.printed]", "current_result in G.doneseen",
                              "_arg0 == lines_of(current_result)"],
    },
    'loops': {
        '#loop1': [      # creation
            "len(results) == _i and len(ready_threads) == _i",
            "forall(k, Int, implies(0 <= k and k < _i, tindex(%s) == k and ready_threads[k] == %s))" % (T_OF('k'), T_OF('k')),
            "forall(t, Thread, t not in G.started and t not in G.dead)",
            "resume_number == ite(options.processes > 1, 1, 0) + _i", "G.printed == 0 and G.npop == 0",
        ],
        '#loop2': {'modifies': ['G.doneseen'], 'inv': STATIC + READY + RUNNING + PRINTED + J},   # the polling loop
        '#loop3': STATIC + READY + RUNNING + PRINTED + J,                              # start as many as fit
        '#loop4': STATIC + READY + PRINTED + [                                         # reap, from the highest index down
            "len(_it) <= options.processes",
            "len(running_threads) >= len(_it) - _i and len(running_threads) <= len(_it)",
            "forall(q, Int, implies(0 <= q and q < len(_it) - _i, running_threads[q] == pre(running_threads, '#loop4')[q]))",
            "forall(q, Int, implies(0 <= q and q < len(_it), _it[q][0] == len(_it) - 1 - q and"
            " _it[q][1] == pre(running_threads, '#loop4')[len(_it) - 1 - q]))",
        ] + RUNNING[1:] + ["implies(G.printed < %s and %s in G.dead, True)" % (M, T_OF('G.printed'))],
        '#loop5': STATIC + READY + RUNNING + PRINTED,                                  # keep-alive marks from the queue
        '#loop6': {'modifies': ['G.doneseen'], 'inv': STATIC + READY + RUNNING + PRINTED},     # print what is finished, in order
    },
    'rules': {
        'result_factory': result_factory_rule, 'threading.Thread': thread_rule, 'thread.start': start_rule,
        'thread.is_alive': is_alive_rule, 'stdout.writelines': writelines_rule,
        'stdout.write': 'NOEFFECT', 'stdout.flush': 'NOEFFECT', '_get_output_buffer': 'fresh:Any',
        'queue.Queue': 'fresh:Queue',
        'stdout_queue.get': {'kind': 'fresh', 'type': 'Tuple[Str,Any]', 'raises': ['Empty']},
        'output.encode': 'fresh:Any',
    },
    'expr_rules': {'sum((r.num_ran for r in results))': 'fresh:int'},
}


# ---- the result collectors: what of a child's stdout becomes part of the layer's block ---------------------------------
# (sentence 1 of C06: a -j N run prints the same output as the sequential run -- minus the keep-alive dot lines, and
# nothing else.)  `_is_dots` is an abstract predicate here; what it means is the regex lemma registered below.
isdots = z3.Function('is_dots_line', Line, z3.BoolSort())


def is_dots_rule(E, st, node, args, kws, k):
    return k(st, VOpt(z3.Not(isdots(args[0].z)), VObj('Match', z3.Const(fresh_name('match'), usort('Match')))))
is_dots_rule.__name__ = '_is_dots(line): a match object iff the line is a keep-alive line (predicate is_dots; its meaning: regex lemma)'


def queue_put_rule(E, st, node, args, kws, k):
    st.ghost['marks'] = VInt(st.ghost['marks'].z + 1)
    return k(st, NONE)
queue_put_rule.__name__ = 'self.queue.put(item): one activity mark for the parent (ghost G.marks += 1)'
queue_put_rule.modifies = ['G.marks']

KEPT = ("len(self.stdout) == old(len(self.stdout)) + ite(is_dots(out), 0, 1) and"
        " forall(q, Int, implies(0 <= q and q < old(len(self.stdout)), self.stdout[q] == old(self.stdout)[q])) and"
        " implies(not is_dots(out), self.stdout[old(len(self.stdout))] == out)")
DEFERRED_WRITE = {
    'property': ['C06'], 'params': {'out': 'OutLine'}, 'self_fields': {'stdout': 'List[OutLine]', 'queue': 'Any', 'layer_name': 'Str'},
    'ghost': {'marks': 'int'},
    'requires': [], 'modifies': ['self.stdout'],
    # every line of the child that is not a keep-alive line is kept, in order, unchanged; nothing else is
    'ensures': [KEPT, "G.marks == old(G.marks)"],
    'raises': {},
    'rules': {'_is_dots': is_dots_rule},
}
KEEPALIVE_WRITE = dict(DEFERRED_WRITE, modifies=['self.stdout', 'G.marks'],
                       # ... and a keep-alive line becomes exactly one activity mark, never part of the block
                       ensures=[KEPT, "G.marks == old(G.marks) + ite(is_dots(out), 1, 0)"],
                       rules={'_is_dots': is_dots_rule, 'self.queue.put': queue_put_rule, 'out.strip': 'fresh:Any'})


# ---- the immediate collector (--processes 1: a resumed layer's output is copied to the parent's stdout line by line) ----------
# it copies the child's BYTES: the stream it writes to takes bytes, so no line of a child -- whatever bytes it holds -- can make
# the copy raise (an exception there is turned into "subprocess for <layer>" error by spawn_layer_in_subprocess: a passing
# run would be failed, C02; and the rest of the child's output would be lost, C06)
AnyS = usort('Any')
bin_ok = z3.Function('stream_takes_bytes', AnyS, z3.BoolSort())


def stream_write_rule(E, st, node, args, kws, k):
    """<stream>.write(bytes): TypeError iff the stream does not take bytes (a text stream)"""
    recv = E.resolve_static(node.func.value, st)
    out = []
    ok = bin_ok(recv.z)
    for s2, good in E.branch(st, ok, 'stream.write@%s' % node.lineno):
        out += k(s2, NONE) if good else E.raise_(s2, 'TypeError')
    return out
stream_write_rule.__name__ = 'stream.write(bytes): raises TypeError iff the stream does not take bytes (predicate stream_takes_bytes)'


def buffer_attr_rule(E, st, node, args, kws, k):
    v = VObj('Any', z3.Const(fresh_name('buffer'), AnyS))
    st.assume(bin_ok(v.z))
    return k(st, v)
buffer_attr_rule.__name__ = 'stream.buffer: the binary layer of a text stream (takes bytes)'


def probe_write_rule(E, st, node, args, kws, k):
    """stream.write(b''): the probe of _get_output_buffer -- TypeError iff the stream does not take bytes"""
    return stream_write_rule(E, st, node, args, kws, k)


GET_BUFFER = {
    'property': ['C02', 'C06'], 'params': {'stream': 'Any'}, 'returns': 'Any',
    'requires': [], 'modifies': [],
    'ensures': ["takes_bytes(result)"],
    'raises': {},
    'rules': {'stream.fileno': {'kind': 'fresh', 'type': 'int', 'raises': ['UnsupportedOperation', 'AttributeError']},
              'stream.write': stream_write_rule, 'msvcrt.setmode': 'NOEFFECT'},
    'expr_rules': {'stream.buffer': buffer_attr_rule, "sys.platform == 'win32'": 'fresh:bool'},
}
IMMEDIATE_INIT = {
    'property': ['C02', 'C06'], 'params': {'layer_name': 'Str', 'queue': 'Any'},
    'self_fields': {'stream': 'Any'},
    'requires': [], 'modifies': ['self.*'],
    'ensures': ["takes_bytes(self.stream)"],
    'raises': {},
    'rules': {'super().__init__': 'NOEFFECT'},
    'expr_rules': {'sys.stdout': 'fresh:Any'},
}
IMMEDIATE_WRITE = {
    'property': ['C02', 'C06'], 'params': {'out': 'OutLine'}, 'self_fields': {'stream': 'Any'},
    'requires': ["takes_bytes(self.stream)"], 'modifies': [],
    'ensures': [],
    'raises': {},                                        # whatever bytes the line holds
    'rules': {'self.stream.write': stream_write_rule, 'self.stream.flush': 'NOEFFECT',
              'out.decode': {'kind': 'fresh', 'type': 'Str', 'raises': ['UnicodeDecodeError']}},
}


def stdout_list_frame(E):
    """frame behind the rely "a result's stdout list is complete once done is true" (decided on the source): the list is
    only ever APPENDED to, by the collectors' write methods (the relay thread), and the parent reads it in one place, the
    drain loop guarded by `.done` -- nothing else in runner.py reads, empties or re-binds it while the child is running."""
    import ast
    tree = E.module('runner')[0]
    uses = []
    for n in ast.walk(tree):
        if isinstance(n, ast.Attribute) and n.attr == 'stdout' and not (isinstance(n.value, ast.Name) and n.value.id in ('sys', 'subprocess', 'child')):
            uses.append(n)
    parents = {}
    for p in ast.walk(tree):
        for c in ast.iter_child_nodes(p):
            parents[id(c)] = p

    def enclosing(n, kinds):
        while id(n) in parents:
            n = parents[id(n)]
            if isinstance(n, kinds):
                return n
        return None
    bad = []
    for u in uses:
        par = parents[id(u)]
        fn = enclosing(u, (ast.FunctionDef,))
        fname = fn.name if fn is not None else '<module>'
        text = ast.unparse(par)[:60]
        if isinstance(par, ast.Assign) and fname == '__init__' and ast.unparse(par) == 'self.stdout = []':
            continue                                                    # created empty
        if isinstance(par, ast.Attribute) and par.attr == 'append' and fname == 'write':
            continue                                                    # appended to by a collector's write
        if fname == 'resume_tests' and isinstance(par, ast.Call) and ast.unparse(par.func) == 'stdout.writelines':
            g = u
            guarded = False
            while g is not None:                                        # some enclosing while / if tests `.done`
                g = enclosing(g, (ast.While, ast.If))
                if g is not None and '.done' in ast.unparse(g.test):
                    guarded = True
                    break
            if guarded:
                continue                                                # read by the parent under `.done`
        if fname == 'spawn_layer_in_subprocess':
            continue                                                    # child.stdout: the pipe, not the list
        bad.append('%s: %s' % (fname, text))
    E.syntactic_obligation("a collector's stdout list is only appended to by write() and read by the parent under `.done` "
                           "(nothing flushes, empties or re-binds it while the child is still writing)",
                           not bad, detail='; '.join(bad), props=('C06',))


def register(E):
    E.load_sidecar(os.path.join(HERE, 'common.py'))
    E.load_sidecar(os.path.join(HERE, 'vocab_layers.py'))
    stdout_list_frame(E)
    E.specfuncs['takes_bytes'] = lambda eng, st, x: VBool(bin_ok(x.z))
    E.records.setdefault('runner.ImmediateSubprocessResult', {})
    E.add_contract('runner._get_output_buffer', GET_BUFFER)
    E.add_contract('runner.ImmediateSubprocessResult.__init__', IMMEDIATE_INIT)
    E.add_contract('runner.ImmediateSubprocessResult.write', IMMEDIATE_WRITE)
    E.records['SchedOptions'] = {'processes': 'int', 'verbose': 'int', 'subunit': 'bool', 'subunit_v2': 'bool', 'output': 'Output'}
    for s_ in ('Thread', 'SubResult', 'Queue', 'Suite'):
        E.truthy_sorts[s_] = 'always'
    cnt_s = z3.Function('suite_countTestCases', usort('Suite'), I)
    s0 = z3.Const('s0', usort('Suite'))
    E.axioms.append(z3.ForAll([s0], cnt_s(s0) >= 0))
    E.objmethods[('Suite', 'countTestCases')] = lambda eng, st, recv, node, args, kws, k: k(st, VInt(cnt_s(recv.z)))
    E.objattrs[('SubResult', 'done')] = done_attr
    E.objattrs[('SubResult', 'stdout')] = lambda eng, st, r: st.alloc(HList(('obj', 'OutLine'), rlines_arr(r.z), rlines_n(r.z)))
    E.objattrs[('SubResult', 'num_ran')] = lambda eng, st, r: VInt(rnum(r.z))
    r0 = z3.Const('r0', Res)
    E.axioms.append(z3.ForAll([r0], rlines_n(r0) >= 0))
    E.specfuncs.update({
        'thread_of': lambda eng, st, r: VObj('Thread', rthread(r.z)),
        'tindex': lambda eng, st, t: VInt(tidx(t.z)),
        'lines_of': lambda eng, st, r: st.alloc(HList(('obj', 'OutLine'), rlines_arr((r.inner if isinstance(r, VOpt) else r).z),
                                                      rlines_n((r.inner if isinstance(r, VOpt) else r).z))),
        'iterpos': lambda eng, st, it: st.heap[it.rid].fields['pos'],
    })
    E.assumptions += [
        "C06 rely (environment of the polling loop): R1 a thread observed dead stays dead; R2 a dead thread's result is "
        "done (result.done is set in the outermost finally of spawn_layer_in_subprocess, proved in the C07 check); "
        "R3 result.done is monotone; a result's stdout list is complete once done is true",
        "threading.Thread() returns a new thread (never started, never dead); is_alive() of a started thread returns "
        "False only when the thread has ended; queue.Queue.get(False) returns an item or raises queue.Empty",
        "counting step outside SMT: the started threads not observed dead are members of running_threads, whose length "
        "is at most N, hence at most N layer subprocesses are alive (one subprocess per thread, reaped in its finally)",
    ]
    E.add_contract('runner.resume_tests', RESUME)
    E.truthy_sorts['Match'] = 'always'
    E.specfuncs['is_dots'] = lambda eng, st, l: VBool(isdots(l.z))
    E.add_contract('runner.DeferredSubprocessResult.write', DEFERRED_WRITE)
    E.add_contract('runner.KeepaliveSubprocessResult.write', KEEPALIVE_WRITE)
    # what a keep-alive line is: one or more dots directly followed by a line end (CR, LF or CRLF) -- and nothing that merely
    # starts with a dot.  Lemma on the real pattern text, in z3's regular-expression theory (language equality).
    from pyvc import relemma
    E.regex_lemma("_is_dots accepts exactly the lines that start with dots followed by a line end (keep-alive lines); no other "
                  "output line of a child is dropped from its layer's block", 'runner', '_is_dots',
                  z3.Concat(z3.Plus(z3.Re(z3.StringVal('.'))), z3.Union(relemma._ch(13), relemma._ch(10)),
                            z3.Star(relemma.any_char())), mode='match', props=('C06',))
