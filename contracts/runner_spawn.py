"""C07 / C02 / C03: spawn_layer_in_subprocess -- the parent side of the subprocess result channel.

The pipes, the child process and the reader thread are abstract: the contract is about what the function does for
ARBITRARY content of the child's stderr (any list of lines), for a Popen that fails, a reader that delivers nothing,
read errors on stdout -- i.e. for every way the child can die or misbehave.  Termination is not claimed."""
import os
import z3
from pyvc.vals import VObj, VBool, VInt, VTup, VRef, VExc, HList, HRec, NONE, usort, fresh_name, sort_of
from pyvc.state import fresh_hlist

HERE = os.path.dirname(os.path.abspath(__file__))
Line, Str = usort('Line'), usort('Str')
I, Bo = z3.IntSort(), z3.BoolSort()
hdr_ok = z3.Function('hdr_ok', Line, Bo)          # the line parses as exactly three integers
hdr_ran = z3.Function('hdr_ran', Line, I)
hdr_nf = z3.Function('hdr_nfail', Line, I)
hdr_ne = z3.Function('hdr_nerr', Line, I)
dec_ok = z3.Function('decodable', Line, Bo)       # line.strip().decode() succeeds
name_of = z3.Function('name_of_line', Line, Str)  # ... and yields this name
LARR = z3.ArraySort(I, Line)
first_hdr = z3.Function('first_header', LARR, I, I)

LISTS = 'List[Tuple[Any,Any]]'


def first_hdr_axioms():
    a = z3.Const('a', LARR)
    n, j = z3.Ints('n j')
    h = first_hdr(a, n)
    return [z3.ForAll([a, n], z3.Or(
        z3.And(h == -1, z3.ForAll([j], z3.Implies(z3.And(0 <= j, j < n), z3.Not(hdr_ok(z3.Select(a, j)))))),
        z3.And(0 <= h, h < n, hdr_ok(z3.Select(a, h)),
               z3.ForAll([j], z3.Implies(z3.And(0 <= j, j < h), z3.Not(hdr_ok(z3.Select(a, j))))))), patterns=[first_hdr(a, n)])]


# ------------------------------------------------------------------ assumed behaviour of the environment
def popen_rule(E, st, node, args, kws, k):
    from pyvc.vals import VInt
    if 'nspawn' in st.ghost:
        st.ghost['nspawn'] = VInt(st.ghost['nspawn'].z + 1)          # one more child process asked for (ghost G.nspawn)
    s2 = st.copy()
    s2.path.append('Popen!OSError')
    return [(s2, 'raise', VExc('OSError'))] + k(st, VObj('Child', z3.Const(fresh_name('child'), usort('Child'))))
popen_rule.__name__ = 'subprocess.Popen(...): returns a child or raises OSError (cannot be started); ghost G.nspawn += 1'
popen_rule.modifies = ['G.nspawn']


def join_rule(E, st, node, args, kws, k):
    """stderr_thread.join(): the reader thread has appended what it read -- or nothing, if reading failed"""
    buf = st.lookup('stderr_buf')
    out = []
    s2 = st.copy()
    s2.path.append('reader:nothing')
    out += k(s2, NONE)
    st.path.append('reader:data')
    E.list_append(buf, VObj('Bytes', z3.Const(fresh_name('stderr_bytes'), usort('Bytes'))), st)
    return out + k(st, NONE)
join_rule.__name__ = 'stderr_thread.join(): stderr_buf == [all bytes of the child\'s stderr] or [] (reader failed)'
join_rule.modifies = []


def splitlines_rule(E, st, node, k):
    """stderr_buf[0].splitlines(): IndexError when the reader delivered nothing; else an ARBITRARY list of lines"""
    buf = st.lookup('stderr_buf')
    h = st.heap[buf.rid]

    def lines(s):
        L = s.alloc(fresh_hlist(('obj', 'Line'), 'errlines', s))
        s.ghost['errlines'] = L
        s.ghost['got_lines'] = VBool(True)
        return k(s, L)
    return E.guard(st, h.n > 0, 'IndexError', 'stderr_buf[0]', node, lines)
splitlines_rule.raw = True
splitlines_rule.__name__ = 'stderr_buf[0].splitlines(): any list of lines (ghost G.errlines); IndexError if the buffer is empty'
splitlines_rule.modifies = ['G.errlines', 'G.got_lines']


def map_int_rule(E, st, node, args, kws, k):
    line = args[1]
    out = []
    for s2, ok in E.branch(st, hdr_ok(line.z), 'hdr@%s' % node.lineno):
        if ok:
            out += k(s2, VTup([VInt(hdr_ran(line.z)), VInt(hdr_nf(line.z)), VInt(hdr_ne(line.z))]))
        else:
            out.append((s2, 'raise', VExc('ValueError')))
    return out
map_int_rule.__name__ = 'a, b, c = map(int, line.strip().split()): three ints iff the line is header-like, else ValueError (nothing assigned)'


def decode_rule(E, st, node, args, kws, k):
    line = st.lookup(node.func.value.func.value.id)
    out = []
    for s2, ok in E.branch(st, dec_ok(line.z), 'decode@%s' % node.lineno):
        if ok:
            out += k(s2, VObj('Str', name_of(line.z)))
        else:
            out.append((s2, 'raise', VExc('UnicodeDecodeError')))
    return out
decode_rule.__name__ = 'line.strip().decode(): the name, or UnicodeDecodeError'


def readline_rule(E, st, node, args, kws, k):
    s2 = st.copy()
    s2.path.append('readline!OSError')
    return [(s2, 'raise', VExc('OSError'))] + k(st, fresh_val_bytes(st))
readline_rule.__name__ = 'child.stdout.readline(): some bytes (possibly empty = EOF) or OSError'


def fresh_val_bytes(st):
    return VObj('Bytes', z3.Const(fresh_name('line'), usort('Bytes')))


def _first_hdr(E, st, L):
    h = st.heap[L.rid]
    return VInt(first_hdr(h.arr, h.n))


def _line_fn(f, sort=None):
    def g(E, st, line):
        z = f(line.z)
        return VBool(z) if z.sort() == Bo else (VInt(z) if z.sort() == I else VObj('Str', z))
    return g


def _anyname(E, st, line):
    """the (name, None) pair the parent records for a reported line"""
    from pyvc.vals import to_z3
    t = ('tuple', (('obj', 'Any'), ('obj', 'Any')))
    from pyvc.vals import from_z3
    return from_z3(to_z3(VTup([VObj('Str', name_of(line.z)), NONE]), t), t)


H = "first_header(G.errlines)"
NFZ = "ite(nfail_of(G.errlines[%s]) > 0, nfail_of(G.errlines[%s]), 0)" % (H, H)
NEZ = "ite(nerr_of(G.errlines[%s]) > 0, nerr_of(G.errlines[%s]), 0)" % (H, H)
COMPLETE = ("(%s + 1 + %s + %s <= len(G.errlines) and forall(q, Int, implies(%s < q and q <= %s + %s + %s, decodable(G.errlines[q]))))"
            % (H, NFZ, NEZ, H, H, NFZ, NEZ))
DF = "(len(failures) - old(len(failures)))"
DE = "(len(errors) - old(len(errors)))"
ONE_ERROR = DF + " == 0 and " + DE + " == 1"

def kill_rule(E, st, node, args, kws, k):
    from pyvc.vals import VBool, NONE
    st.ghost['killed'] = VBool(z3.BoolVal(True))
    return k(st, NONE)
kill_rule.__name__ = 'child.kill(): the child is dead from here on (ghost G.killed)'
kill_rule.modifies = ['G.killed']

# the parent reaps a child only after it has killed it: the final wait can then not block on a child that keeps running with
# its pipes closed (a safety clause standing in for "the parent does not hang in the clean-up")
REAP_AFTER_KILL = ["G.killed"]

SPAWN = {
    'merge': True,
    'property': ['C07', 'C02', 'C03', 'C06', 'C12'],
    'params': {'result': 'Rec[SubResult]', 'script_parts': 'Opt[List[Str]]', 'options': 'Rec[Options]',
               'features': 'List[Feature]', 'layer_name': 'Str', 'layer': 'Layer', 'failures': LISTS, 'errors': LISTS,
               'skipped': LISTS, 'resume_number': 'int', 'cwd': 'Any'},
    'ghost': {'errlines': 'List[Line]', 'got_lines': 'bool', 'killed': 'bool', 'nspawn': 'int'},
    'locals': {'stderr_buf': 'List[Bytes]', 'new_failures': LISTS, 'new_errors': LISTS, 'args': 'List[Str]'},
    'requires': ["not G.got_lines", "len(options.original_testrunner_args) >= 1", "not G.killed", "G.nspawn == 0"],
    'modifies': ['result.num_ran', 'result.done', 'failures', 'errors', 'G.errlines', 'G.got_lines', 'G.killed', 'G.nspawn'],
    'ensures': [
        "result.done",                                                      # P3: on every path
        "G.nspawn <= 1",                                                    # C03: at most one child was asked for
        # P2 + "could not be started / died / delivered nothing": exactly one error for the layer, no names
        "implies(not G.got_lines, " + ONE_ERROR + ")",
        "implies(G.got_lines and " + H + " == -1, " + ONE_ERROR + ")",
        # P1: a report cut short anywhere (or undecodable) is never used partially
        "implies(G.got_lines and " + H + " >= 0 and not " + COMPLETE + ", " + ONE_ERROR + ")",
        # P4: a complete report is transferred exactly: count, failure names, error names, in order
        "implies(G.got_lines and " + H + " >= 0 and " + COMPLETE + ", " + DF + " == " + NFZ + " and " + DE + " == " + NEZ +
        " and result.num_ran == ran_of(G.errlines[" + H + "]))",
        "implies(G.got_lines and " + H + " >= 0 and " + COMPLETE + ", forall(q, Int, implies(0 <= q and q < " + NFZ + ","
        " failures[old(len(failures)) + q] == recorded(G.errlines[" + H + " + 1 + q]))))",
        "implies(G.got_lines and " + H + " >= 0 and " + COMPLETE + ", forall(q, Int, implies(0 <= q and q < " + NEZ + ","
        " errors[old(len(errors)) + q] == recorded(G.errlines[" + H + " + 1 + " + NFZ + " + q]))))",
        # what was in the lists before stays
        "forall(q, Int, implies(0 <= q and q < old(len(failures)), failures[q] == old(failures)[q]))",
        "forall(q, Int, implies(0 <= q and q < old(len(errors)), errors[q] == old(errors)[q]))",
    ],
    'raises': {},           # P2: runs as a thread target, nothing may escape
    'callsites': {
        # C03: the child is re-invoked with '--resume-layer <name> <n>', the parent's defaults and its original arguments
        'child.communicate': REAP_AFTER_KILL, 'child.wait': REAP_AFTER_KILL,
        'subprocess.Popen': [
            "G.nspawn == 0",            # C03: one child per layer -- a second one would run the layer's tests a second time
            "has_kw_cwd", "_kw_cwd == cwd",             # C03: started in the directory handed down from run_internal (startdir_c03)
            "args[0] == executable()",
            "args[len(args) - (len(options.original_testrunner_args) - 1) - 2 * len(options.testrunner_defaults) - 3] == '--resume-layer'",
            "args[len(args) - (len(options.original_testrunner_args) - 1) - 2 * len(options.testrunner_defaults) - 2] == layer_name",
            "forall(q, Int, implies(0 <= q and q < len(options.testrunner_defaults),"
            " args[len(args) - (len(options.original_testrunner_args) - 1) - 2 * len(options.testrunner_defaults) + 2 * q] == '--default'"
            " and args[len(args) - (len(options.original_testrunner_args) - 1) - 2 * len(options.testrunner_defaults) + 2 * q + 1]"
            " == options.testrunner_defaults[q]))",
            "forall(q, Int, implies(1 <= q and q < len(options.original_testrunner_args),"
            " args[len(args) - len(options.original_testrunner_args) + q] == options.original_testrunner_args[q]))",
        ],
    },
    'loops': {
        '#loop1': [     # --default loop
            "len(args) == pre(len(args), '#loop1') + 2 * _i",
            "forall(q, Int, implies(0 <= q and q < pre(len(args), '#loop1'), args[q] == pre(args, '#loop1')[q]))",
            "forall(q, Int, implies(0 <= q and q < _i, args[pre(len(args), '#loop1') + 2 * q] == '--default' and"
            " args[pre(len(args), '#loop1') + 2 * q + 1] == options.testrunner_defaults[q]))",
        ],
        '#loop2': [], '#loop3': [], '#loop4': [],      # features; the two stdout read loops (no termination claim)
        '#loop5': [     # header search: everything before the iterator position is not a header
            "forall(q, Int, implies(0 <= q and q < _i, not is_header(errlines[q])))",
            "nfail == 0 and nerr == 0",
            "len(failures) == old(len(failures)) and len(errors) == old(len(errors))",
        ],
        '#loop6': {'inv': [     # failure names ((len(errors) == old(len(errors))): a header was found at index _i5, no error recorded so far)
            "len(failures) == old(len(failures))",
            "len(errors) == old(len(errors)) or (len(errors) == old(len(errors)) + 1 and nfail == 0 and nerr == 0"
            " and forall(q, Int, implies(0 <= q and q < len(errlines), not is_header(errlines[q]))))",
            "len(new_errors) == 0",
            "implies((len(errors) == old(len(errors))), 0 <= _i5 and _i5 < len(errlines) and is_header(errlines[_i5]) and forall(q, Int, implies(0 <= q and q < _i5, not is_header(errlines[q]))))",
            "implies((len(errors) == old(len(errors))), len(new_failures) == ite(nfail_of(errlines[_i5]) > 0, nfail_of(errlines[_i5]), 0) - ite(nfail > 0, nfail, 0))",
            "pos(erriter) <= len(errlines)",
            "implies((len(errors) == old(len(errors))), forall(p, Int, implies(_i5 < p and p < pos(erriter), decodable(errlines[p]))))",
            "implies((len(errors) == old(len(errors))), pos(erriter) == _i5 + 1 + len(new_failures) and nerr == nerr_of(errlines[_i5]) and result.num_ran == ran_of(errlines[_i5]))",
            "implies((len(errors) == old(len(errors))), forall(q, Int, implies(0 <= q and q < len(new_failures), decodable(errlines[_i5 + 1 + q]) and"
            " new_failures[q] == recorded(errlines[_i5 + 1 + q]))))",
            "implies(not (len(errors) == old(len(errors))), len(new_failures) == 0)",
        ]},
        '#loop7': {'inv': [     # error names
            "len(failures) == old(len(failures))",
            "len(errors) == old(len(errors)) or (len(errors) == old(len(errors)) + 1 and nfail == 0 and nerr == 0"
            " and forall(q, Int, implies(0 <= q and q < len(errlines), not is_header(errlines[q]))))",
            "nfail <= 0",
            "implies((len(errors) == old(len(errors))), 0 <= _i5 and _i5 < len(errlines) and is_header(errlines[_i5]) and forall(q, Int, implies(0 <= q and q < _i5, not is_header(errlines[q]))))",
            "implies((len(errors) == old(len(errors))), len(new_failures) == ite(nfail_of(errlines[_i5]) > 0, nfail_of(errlines[_i5]), 0))",
            "implies((len(errors) == old(len(errors))), len(new_errors) == ite(nerr_of(errlines[_i5]) > 0, nerr_of(errlines[_i5]), 0) - ite(nerr > 0, nerr, 0))",
            "pos(erriter) <= len(errlines)",
            "implies((len(errors) == old(len(errors))), forall(p, Int, implies(_i5 < p and p < pos(erriter), decodable(errlines[p]))))",
            "implies((len(errors) == old(len(errors))), pos(erriter) == _i5 + 1 + len(new_failures) + len(new_errors) and result.num_ran == ran_of(errlines[_i5]))",
            "implies((len(errors) == old(len(errors))), forall(q, Int, implies(0 <= q and q < len(new_failures), decodable(errlines[_i5 + 1 + q]) and"
            " new_failures[q] == recorded(errlines[_i5 + 1 + q]))))",
            "implies((len(errors) == old(len(errors))), forall(q, Int, implies(0 <= q and q < len(new_errors), decodable(errlines[_i5 + 1 + len(new_failures) + q]) and"
            " new_errors[q] == recorded(errlines[_i5 + 1 + len(new_failures) + q]))))",
            "implies(not (len(errors) == old(len(errors))), len(new_failures) == 0 and len(new_errors) == 0)",
        ]},
    },
    'rules': {
        'zope.testrunner._script_parts': 'fresh:List[Str]',
        'sys.platform.startswith': lambda E, st, node, args, kws, k: k(st, VBool(False)),
        'feature.layer_setup': 'NOEFFECT',
        'subprocess.Popen': popen_rule,
        'threading.Thread': 'fresh:Any', 'stderr_thread.start': 'NOEFFECT', 'stderr_thread.join': join_rule,
        'store:Any.daemon': 'NOEFFECT',
        'child.stdout.readline': readline_rule, 'result.write': 'NOEFFECT',
        'stderr_buf[0].splitlines': splitlines_rule,
        'line.strip().split': lambda E, st, node, args, kws, k: k(st, st.lookup('line')),
        'map': map_int_rule,
        'next_fail.strip().decode': decode_rule, 'next_err.strip().decode': decode_rule,
        'line.decode': 'pure:Str',
        'child.kill': kill_rule, 'child.communicate': 'NOEFFECT', 'child.wait': 'NOEFFECT',
        "'\\n'.join": 'fresh:Str', "' '.join": 'fresh:Str',
    },
    'expr_rules': {'e.errno == errno.EINTR': 'fresh:bool', 'str(e)': 'fresh:Str', 'str(resume_number)': 'fresh:Str'},
}


def register(E):
    E.load_sidecar(os.path.join(HERE, 'common.py'))
    E.load_sidecar(os.path.join(HERE, 'vocab_layers.py'))
    E.records['Options'].update({'testrunner_defaults': 'List[Str]', 'original_testrunner_args': 'List[Str]'})
    E.records['SubResult'] = {'num_ran': 'int', 'done': 'bool'}
    E.axioms += first_hdr_axioms()
    E.globals['sys.executable'] = lambda eng, st: VObj('Str', z3.Const('sys_executable', Str))
    E.objattrs[('Child', 'stderr')] = 'Any'
    E.truthy_sorts['Bytes'] = 'pred'
    E.truthy_sorts['Child'] = 'always'
    E.specfuncs.update({
        'first_header': _first_hdr, 'is_header': _line_fn(hdr_ok), 'ran_of': _line_fn(hdr_ran), 'nfail_of': _line_fn(hdr_nf),
        'nerr_of': _line_fn(hdr_ne), 'decodable': _line_fn(dec_ok), 'recorded': _anyname,
        'executable': lambda eng, st: VObj('Str', z3.Const('sys_executable', Str)),
        'pos': lambda eng, st, it: st.heap[it.rid].fields['pos'],
    })
    E.assumptions += [
        "OS/pipes abstract: Popen returns a child or raises OSError; readline returns bytes or raises OSError; the reader "
        "thread has appended the child's whole stderr (or nothing) when join() returns; kill()/communicate() do not raise",
        "a stderr line is 'header-like' iff map(int, line.strip().split()) yields exactly three ints (atomic unpacking: "
        "nothing is assigned otherwise); line.strip().decode() yields the name or raises UnicodeDecodeError",
        "POSIX: sys.platform does not start with 'win'",
        "termination of the two stdout read loops is not claimed (liveness / OS)",
    ]
    E.add_contract('runner.spawn_layer_in_subprocess', SPAWN)
