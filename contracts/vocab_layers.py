"""Shared specification vocabulary for the layer graph (DESIGN.md section 4.1)."""
import z3
from pyvc.vals import VObj, VBool, VInt, VRef, HList, HDict, usort, fresh_name, sort_of, to_z3

Layer = usort('Layer')
OBJ = z3.Const('OBJ', Layer)
nb = z3.Function('nb', Layer, z3.IntSort())
bases_arr = z3.Function('bases_arr', Layer, z3.ArraySort(z3.IntSort(), Layer))
rank = z3.Function('rank', Layer, z3.IntSort())
isanc = z3.Function('isanc', Layer, Layer, z3.BoolSort())


def base(l, i):
    return z3.Select(bases_arr(l), i)


def layer_axioms():
    l, a = z3.Consts('l a', Layer)
    i = z3.Int('i')
    return [
        z3.ForAll([l], nb(l) >= 0),
        nb(OBJ) == 0,
        # one-step unfolding of the reflexive-transitive base relation (object excluded)
        z3.ForAll([a, l], isanc(a, l) == z3.And(l != OBJ, z3.Or(a == l, z3.Exists(
            [i], z3.And(0 <= i, i < nb(l), isanc(a, base(l, i))))))),
    ]


def wf_formula():
    l = z3.Const(fresh_name('l'), Layer)
    i = z3.Int(fresh_name('i'))
    return z3.And(
        z3.ForAll([l], rank(l) >= 0),
        z3.ForAll([l, i], z3.Implies(z3.And(0 <= i, i < nb(l)), rank(base(l, i)) < rank(l))))


WF_CONST = z3.Bool('WF_holds')     # abbreviation, defined by an axiom (keeps queries small)


def _wf(E, st):
    return VBool(WF_CONST)


def prove_lemmas(E):
    """well-founded induction on rank, one step VC each; the lemma is then an axiom under WF."""
    a0, b0, l0 = z3.Consts('a0 b0 l0', Layer)
    a, b, l = z3.Consts('a b l', Layer)
    wf = wf_formula()
    # L1: an ancestor never has a larger rank
    ih = z3.ForAll([a, l], z3.Implies(z3.And(rank(l) < rank(l0), isanc(a, l)), rank(a) <= rank(l)))
    E.prove_lemma('anc_rank(step)', z3.Implies(z3.And(wf, ih, isanc(a0, l0)), rank(a0) <= rank(l0)),
                  z3.Implies(WF_CONST, z3.ForAll([a, l], z3.Implies(isanc(a, l), rank(a) <= rank(l)))))
    # L2: isanc is transitive
    ih = z3.ForAll([a, b, l], z3.Implies(z3.And(rank(l) < rank(l0), isanc(a, b), isanc(b, l)), isanc(a, l)))
    E.prove_lemma('anc_trans(step)', z3.Implies(z3.And(wf, ih, isanc(a0, b0), isanc(b0, l0)), isanc(a0, l0)),
                  z3.Implies(WF_CONST, z3.ForAll([a, b, l], z3.Implies(z3.And(isanc(a, b), isanc(b, l)), isanc(a, l)))))


def prove_lemma_obj(E):
    l0 = z3.Const('l0', Layer)
    l = z3.Const('l', Layer)
    ih = z3.ForAll([l], z3.Implies(rank(l) < rank(l0), z3.Not(isanc(OBJ, l))))
    E.prove_lemma('object_is_no_ancestor(step)', z3.Implies(z3.And(wf_formula(), ih), z3.Not(isanc(OBJ, l0))),
                  z3.Implies(WF_CONST, z3.ForAll([l], z3.Not(isanc(OBJ, l)))))


def _isanc(E, st, a, l):
    return VBool(isanc(a.z, l.z))


def _panc(E, st, a, l):
    return VBool(z3.And(isanc(a.z, l.z), a.z != l.z))


def _rank(E, st, l):
    return VInt(rank(l.z))


def _mem(E, st, coll, x):
    """z3 membership of layer term x in a list / dict value."""
    h = st.heap[coll.rid]
    if isinstance(h, HDict):
        if h.kt is None:
            return z3.BoolVal(False)
        return z3.Select(h.mem, x)
    if h.et is None:
        return z3.BoolVal(False)
    i = z3.Int(fresh_name('i'))
    return z3.Exists([i], z3.And(0 <= i, i < h.n, z3.Select(h.arr, i) == x))


def _closed(E, st, coll):
    l, a = z3.Const(fresh_name('l'), Layer), z3.Const(fresh_name('a'), Layer)
    return VBool(z3.ForAll([l, a], z3.Implies(z3.And(_mem(E, st, coll, l), isanc(a, l)), _mem(E, st, coll, a))))


def _distinct(E, st, L):
    h = st.heap[L.rid]
    if h.et is None:
        return VBool(True)
    i, j = z3.Int(fresh_name('i')), z3.Int(fresh_name('j'))
    return VBool(z3.ForAll([i, j], z3.Implies(z3.And(0 <= i, i < j, j < h.n), z3.Select(h.arr, i) != z3.Select(h.arr, j))))


def _bases_first(E, st, L):
    """every proper ancestor (that occurs in L) of L[v] occurs before position v."""
    h = st.heap[L.rid]
    if h.et is None:
        return VBool(True)
    v, u, w = z3.Int(fresh_name('v')), z3.Int(fresh_name('u')), z3.Int(fresh_name('w'))
    return VBool(z3.ForAll([v, w], z3.Implies(
        z3.And(0 <= v, v < h.n, 0 <= w, w < h.n, isanc(z3.Select(h.arr, w), z3.Select(h.arr, v)), w != v,
               z3.Select(h.arr, w) != z3.Select(h.arr, v)),
        w < v)))


def _derived_first(E, st, L):
    h = st.heap[L.rid]
    if h.et is None:
        return VBool(True)
    v, w = z3.Int(fresh_name('v')), z3.Int(fresh_name('w'))
    return VBool(z3.ForAll([v, w], z3.Implies(
        z3.And(0 <= v, v < h.n, 0 <= w, w < h.n, isanc(z3.Select(h.arr, w), z3.Select(h.arr, v)),
               z3.Select(h.arr, w) != z3.Select(h.arr, v)),
        v < w)))


def _setof(E, st, L):
    """set abstraction of a list value: Array Elem Bool with a named index witness (no nested skolems)."""
    h = st.heap[L.rid]
    if isinstance(h, HDict):
        return L
    if h.et is None:
        from pyvc.state import empty_hdict
        return st.alloc(empty_hdict(('obj', 'Layer'), None))
    key = ('setof', h.arr.get_id(), h.n.get_id())
    if key in st.facts:
        return st.facts[key][1]
    S = sort_of(h.et)
    mem = z3.Const(fresh_name('setof'), z3.ArraySort(S, z3.BoolSort()))
    idx = z3.Function(fresh_name('setidx'), S, z3.IntSort())
    i = z3.Int(fresh_name('i'))
    x = z3.Const(fresh_name('x'), S)
    st.assume_closed(z3.ForAll([i], z3.Implies(z3.And(0 <= i, i < h.n), z3.Select(mem, z3.Select(h.arr, i)))), qf=False)
    st.assume_closed(z3.ForAll([x], z3.Implies(z3.Select(mem, x),
                                               z3.And(0 <= idx(x), idx(x) < h.n, z3.Select(h.arr, idx(x)) == x))), qf=False)
    ref = st.alloc(HDict(h.et, None, mem, None))
    st.facts[key] = ((h.arr, h.n), ref)
    return ref


def _bases_attr(E, st, obj):
    return st.alloc(HList(('obj', 'Layer'), bases_arr(obj.z), nb(obj.z)))


def _layer_of(E, st, name):
    t = ('opt', ('obj', 'Str'))
    f = z3.Function('layer_from_name', sort_of(t), Layer)
    return VObj('Layer', f(to_z3(name, t)))


def layer_from_name_rule(E, st, node, args, kws, k):
    return k(st, _layer_of(E, st, args[0]))
layer_from_name_rule.__name__ = 'layer_from_name(name): a pure function of the name; never returns object'


def register(E):
    if ('layers',) in E.added_axioms:
        return
    E.added_axioms.add(('layers',))
    lo = z3.Const('lo', sort_of(('opt', ('obj', 'Str'))))
    E.axioms.append(z3.ForAll([lo], z3.Function('layer_from_name', lo.sort(), Layer)(lo) != OBJ))
    E.global_rules['layer_from_name'] = layer_from_name_rule
    E.specfuncs['layer_of'] = _layer_of
    E.axioms += layer_axioms()
    E.axioms.append(WF_CONST == wf_formula())
    prove_lemmas(E)
    prove_lemma_obj(E)
    E.globals['object'] = lambda eng, st: VObj('Layer', OBJ)
    E.objattrs[('Layer', '__bases__')] = _bases_attr
    E.truthy_sorts['Layer'] = 'always'
    E.specfuncs.update({'WF': _wf, 'isanc': _isanc, 'panc': _panc, 'rank': _rank, 'closed': _closed,
                        'distinct': _distinct, 'setof': _setof, 'bases_first': _bases_first, 'derived_first': _derived_first})
    E.assumptions += [
        "A-IDENT: layers are compared and hashed by identity (no __eq__/__hash__ override)",
        "WF: the __bases__ relation of layers is acyclic (a rank function exists); object has no bases",
    ]
