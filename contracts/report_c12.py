"""C12: what the final reports are given -- Statistics.report (totals) and Filter.report (lists of failed / erroring tests)."""
import os

HERE = os.path.dirname(os.path.abspath(__file__))
LISTS = 'List[Tuple[Any,Any]]'
R = 'self.runner'

STAT_REPORT = {
    'property': ['C12'],
    'params': {},
    'self_fields': {'runner': 'Rec[ReportRunner12]', 'layers_run': 'int', 'total_time': 'real'},
    'requires': [], 'modifies': [], 'ensures': [], 'raises': {},
    'callsites': {
        # the totals are exactly the runner's own counters and list lengths (import errors count as errors)
        'self.runner.options.output.totals': [
            "_kw_n_tests == %s.ran" % R,
            "_kw_n_failures == len(%s.failures)" % R,
            "_kw_n_errors == len(%s.errors) + len(%s.import_errors)" % (R, R),
            "_kw_n_skipped == len(%s.skipped)" % R,
            "%s.do_run_tests" % R,
        ],
    },
}

FILTER_REPORT = {
    'property': ['C12'],
    'params': {},
    'self_fields': {'runner': 'Rec[ReportRunner12]'},
    'requires': [], 'modifies': [], 'ensures': [], 'raises': {},
    'callsites': {
        # the listed names are the runner's failure / error lists themselves (not copies, not per-layer lists)
        'self.runner.options.output.tests_with_errors': ["_arg0 == %s.errors" % R, "%s.do_run_tests" % R],
        'self.runner.options.output.tests_with_failures': ["_arg0 == %s.failures" % R, "%s.do_run_tests" % R],
    },
}


def register(E):
    E.load_sidecar(os.path.join(HERE, 'common.py'))
    E.records['ReportOptions12'] = {'output': 'Output', 'verbose': 'int', 'resume_layer': 'Opt[Str]'}
    E.records['ReportRunner12'] = {'ran': 'int', 'failures': LISTS, 'errors': LISTS, 'skipped': LISTS, 'import_errors': 'List[Any]',
                                   'do_run_tests': 'bool', 'options': 'Rec[ReportOptions12]'}
    E.records['statistics.Statistics'] = {}
    E.records['filter.Filter'] = {}
    E.add_contract('statistics.Statistics.report', STAT_REPORT)
    E.add_contract('filter.Filter.report', FILTER_REPORT)
