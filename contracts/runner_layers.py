"""Contracts for the layer set-up / tear-down family of runner.py (C01, C02, C04, C05, C10)."""
import os
import z3
from pyvc.vals import VObj, VBool, VInt, NONE

HERE = os.path.dirname(os.path.abspath(__file__))

N0 = "old(len(result))"
S0 = "(old(len(result)) + ite(layer != object, 1, 0))"

GATHER = {
    'property': ['C01', 'C05', 'C10'],
    'params': {'layer': 'Layer', 'result': 'List[Layer]'},
    'requires': ["WF()"],
    'modifies': ['result'],
    'decreases': "rank(layer)",
    'ensures': [
        # frame: what was in `result` before stays where it was
        "len(result) >= old(len(result))",
        "forall(i, Int, implies(0 <= i and i < old(len(result)), result[i] == old(result)[i]))",
        # set: the appended segment holds exactly the layer and its transitive bases (object excluded)
        "forall(i, Int, implies(old(len(result)) <= i and i < len(result), isanc(result[i], layer)))",
        "forall(x, Layer, implies(isanc(x, layer), exists(i, Int, old(len(result)) <= i and i < len(result) and result[i] == x)))",
        # order: inside the appended segment every proper base of an element occurs again later
        "forall(p, Int, a, Layer, implies(old(len(result)) <= p and p < len(result) and panc(a, result[p]),"
        " exists(q, Int, p < q and q < len(result) and result[q] == a)))",
        "implies(layer != object, len(result) > old(len(result)) and result[old(len(result))] == layer)",
    ],
    'loops': {
        '#loop1': [
            "len(result) >= " + S0,
            "forall(i, Int, implies(0 <= i and i < old(len(result)), result[i] == old(result)[i]))",
            "implies(layer != object, result[old(len(result))] == layer)",
            "forall(i, Int, implies(old(len(result)) <= i and i < len(result), isanc(result[i], layer)))",
            "forall(x, Layer, j, Int, implies(0 <= j and j < _i and isanc(x, layer.__bases__[j]),"
            " exists(i, Int, " + S0 + " <= i and i < len(result) and result[i] == x)))",
            "forall(p, Int, a, Layer, implies(" + S0 + " <= p and p < len(result) and panc(a, result[p]),"
            " exists(q, Int, p < q and q < len(result) and result[q] == a)))",
        ],
    },
}


ORDER = {
    'property': ['C01', 'C05', 'C10'],
    'params': {'layers': 'List[Layer]'},
    'returns': 'List[Layer]',
    'requires': ["WF()", "object not in layers"],
    'modifies': [],
    'locals': {'gathered': 'List[Layer]', 'seen': 'Dict[Layer,int]', 'result': 'List[Layer]'},
    'ensures': [
        "distinct(result)",                                                      # once each
        "forall(v, Int, implies(0 <= v and v < len(result), result[v] in old(layers)))",   # same set: nothing invented
        "bases_first(result)",                                                   # never before one of its bases
    ],
    # proved by the views runner.order_by_bases@unitfirst / @complete below (own, smaller invariants); callers may use them
    'assumed_ensures': ["implies(UnitTests in old(layers), result[0] == UnitTests)",
                        "forall(x, Layer, implies(x in old(layers), x in result))"],               # nothing lost
    'loops': {
        '#loop1': [
            "forall(p, Int, implies(0 <= p and p < len(gathered), exists(j, Int, 0 <= j and j < _i and isanc(gathered[p], layers[j]))))",
            "forall(j, Int, x, Layer, implies(0 <= j and j < _i and isanc(x, layers[j]), exists(p, Int, 0 <= p and p < len(gathered) and gathered[p] == x)))",
            "forall(p, Int, a, Layer, implies(0 <= p and p < len(gathered) and panc(a, gathered[p]),"
            " exists(q, Int, p < q and q < len(gathered) and gathered[q] == a)))",
            "object not in layers",
        ],
        '#loop2': [
            "forall(x, Layer, iff(x in seen, exists(u, Int, 0 <= u and u < _i and _it[u] == x)))",
            "forall(v, Int, implies(0 <= v and v < len(result), result[v] in setof(layers) and result[v] in seen))",
            "distinct(result)",
            "forall(u, Int, implies(0 <= u and u < _i and _it[u] in setof(layers),"
            " exists(v, Int, 0 <= v and v < len(result) and result[v] == _it[u])))",
            "bases_first(result)",
        ],
    },
}

ORDER_COMPLETE = {       # a third contract on the same function: nothing is lost (its own, minimal invariants)
    'property': ['C01', 'C03', 'C05', 'C10'],
    'params': {'layers': 'List[Layer]'},
    'returns': 'List[Layer]',
    'requires': ["WF()", "object not in layers"],
    'modifies': [],
    'locals': {'gathered': 'List[Layer]', 'seen': 'Dict[Layer,int]', 'result': 'List[Layer]'},
    'ensures': ["forall(x, Layer, implies(x in old(layers), x in result))"],
    'loops': {
        '#loop1': [
            "object not in layers",
            "forall(j, Int, x, Layer, implies(0 <= j and j < _i and isanc(x, layers[j]), exists(p, Int, 0 <= p and p < len(gathered) and gathered[p] == x)))",
            "forall(x, Layer, implies(x in old(layers), x in setof(layers)))",
        ],
        '#loop2': [
            "forall(x, Layer, iff(x in seen, exists(u, Int, 0 <= u and u < _i and _it[u] == x)))",
            "forall(u, Int, implies(0 <= u and u < _i and _it[u] in setof(layers),"
            " exists(v, Int, 0 <= v and v < len(result) and result[v] == _it[u])))",
            "forall(x, Layer, implies(x in setof(layers), exists(u, Int, 0 <= u and u < len(_it) and _it[u] == x)))",
            "forall(x, Layer, implies(x in old(layers), x in setof(layers)))",
        ],
    },
}

ORDER_UNITFIRST = {      # a second contract on the same function: C10 "the unit-test layer comes first"
    'property': ['C10'],
    'params': {'layers': 'List[Layer]'},
    'returns': 'List[Layer]',
    'requires': ["WF()", "object not in layers"],
    'modifies': [],
    'locals': {'gathered': 'List[Layer]', 'seen': 'Dict[Layer,int]', 'result': 'List[Layer]'},
    'ensures': ["implies(UnitTests in old(layers), result[0] == UnitTests)"],
    'loops': {
        '#loop1': [
            "object not in layers",
            # the last gathered element belongs to the last layer visited (the one with the least sort key)
            "implies(_i > 0, len(gathered) > 0 and isanc(gathered[len(gathered) - 1], layers[_i - 1]))",
        ],
        '#loop2': [
            "implies(_i == 0, len(result) == 0)",
            "implies(_i == 0, forall(x, Layer, x not in seen))",
            "implies(_i > 0 and _it[0] in setof(layers), len(result) > 0 and result[0] == _it[0])",
            # (whatever way the gathered list is walked backwards) the walk starts at the unit-test layer when it is there
            "implies(UnitTests in old(layers), len(_it) > 0 and _it[0] == UnitTests and UnitTests in setof(layers))",
        ],
    },
}

# ---- layer_sort_key: the sort key as an abstract ordered value (C10) ----------------------------------------------
# The callers (sorted(..., key=layer_sort_key)) see the key of layer x as lsk(x) : SortKey with a length klen and a
# last component klast; tuples are ordered lexicographically, of which only "() < any non-empty tuple" is used (T3).
KEY_FACTS = lambda L, K: [
    "iff(klen(%s) == 0, %s == UnitTests)" % (K, L),                              # K3: only the unit-test layer has the key ()
    "implies(%s != UnitTests, klast(%s) == name_from_layer(%s))" % (L, K, L),    # K2: a key ends with the layer's own name
]

SORT_KEY = {
    'property': ['C10'],
    'params': {'layer': 'Layer'},
    'returns': 'SortKey',
    'locals': {'seen': 'Set[Layer]', 'key': 'List[Layer]'},
    'requires': ["WF()", "layer != object"],
    'modifies': [],
    'ensures': KEY_FACTS('layer', 'result'),
    'raises': {},
    'loops': {
        # (the loop of the inlined top-level call of _gather) everything gathered so far is a proper base of `layer`
        '#loop1': ["forall(i, Int, implies(0 <= i and i < len(key), panc(key[i], layer)))",
                   "forall(x, Layer, implies(x in seen, x == layer or panc(x, layer)))"],
    },
    'rules': {"binding['_gather']": {'kind': 'contract', 'qual': 'runner.layer_sort_key._gather'}},
    'skip_stmts': {"binding['_gather'] = _gather": "self-reference of the closure through a dict; the call "
                   "binding['_gather'](base) is resolved to the nested function _gather by rule"},
    'key_model': ('lsk', 'SortKey'),
    'key_axioms': ["forall(x, Layer, implies(x != object, %s))" % f for f in KEY_FACTS('x', 'lsk(x)')],
}

GATHER_KEY = {        # the nested function _gather of layer_sort_key, verified as a unit of its own (recursion)
    'property': ['C10'],
    'params': {'layer': 'Layer'},
    'free': {'seen': 'Set[Layer]', 'key': 'List[Layer]'},
    'requires': ["WF()", "layer != object"],
    'modifies': ['seen', 'key'],
    'decreases': "rank(layer)",
    'ensures': [
        "len(key) >= old(len(key)) + 1",
        "key[len(key) - 1] == layer",                                             # the layer itself comes last
        "forall(i, Int, implies(0 <= i and i < old(len(key)), key[i] == old(key)[i]))",
        "forall(i, Int, implies(old(len(key)) <= i and i < len(key), isanc(key[i], layer)))",
        "forall(x, Layer, implies(x in seen, old(x in seen) or isanc(x, layer)))",
    ],
    'raises': {},
    'loops': {
        '#loop1': ["len(key) >= old(len(key))",
                   "forall(i, Int, implies(0 <= i and i < old(len(key)), key[i] == old(key)[i]))",
                   "forall(i, Int, implies(old(len(key)) <= i and i < len(key), panc(key[i], layer)))",
                   "forall(x, Layer, implies(x in seen, old(x in seen) or isanc(x, layer)))"],
    },
    'rules': {"binding['_gather']": {'kind': 'contract', 'qual': 'runner.layer_sort_key._gather'}},
}

HANDLE_FAILURE = {
    'property': ['C02', 'C04'],
    'params': {'failure_type': 'Any', 'output': 'Output', 'errors': 'List[Tuple[Any,Any]]'},
    'requires': [],
    'modifies': ['errors'],
    'ensures': ["len(errors) == old(len(errors)) + 1",
                "forall(i, Int, implies(0 <= i and i < old(len(errors)), errors[i] == old(errors)[i]))"],
    'raises': {},        # raises nothing (given the formatter does not)
}

# second contract on the same function, WITHOUT the assumption that the formatter never raises (a report that cannot be
# printed: encoding error of the terminal, broken pipe): the failure is then either recorded or the exception goes on --
# it is never swallowed into a normal return without an entry ("failed iff a bad outcome occurred")
PRINT_MAY_RAISE = {'kind': 'fresh', 'type': 'Any', 'raises': ['OtherException']}
HANDLE_FAILURE_UNPRINTABLE = dict(
    HANDLE_FAILURE, property=['C02'],
    ensures=["len(errors) == old(len(errors)) + 1"],
    raises={'OtherException': []},
    rules={'output.layer_failure': PRINT_MAY_RAISE, 'output.error': PRINT_MAY_RAISE, 'output.*': PRINT_MAY_RAISE,
           'traceback.print_exc': PRINT_MAY_RAISE, 'f.getvalue': 'fresh:Str'})

# a layer whose tearDown has been attempted is forgotten at once: no second attempt for the same set-up (C01)
# ... and the registry is exact: a layer is recorded in setup_layers iff its setUp has returned and no tearDown has been
# attempted since (ghost G.up, maintained by the assumed contracts of the two hooks) -- nothing set up is ever forgotten
INV_ATT = ("(forall(l, Layer, implies(l in G.attempted, l not in setup_layers)) and"
           " forall(l, Layer, iff(l in G.up, l in setup_layers)))")

SET_POSTS_EXC = [
    INV_ATT,
    "forall(l, Layer, implies(old(l in setup_layers), l in setup_layers))",
    "forall(l, Layer, implies(l in setup_layers, old(l in setup_layers) or panc(l, layer)))",
    "closed(setup_layers)",
    "object not in setup_layers",
    "G.ntd == old(G.ntd)",
]

SETUP = {
    'property': ['C01', 'C04'],
    'params': {'options': 'Rec[Options]', 'layer': 'Layer', 'setup_layers': 'Dict[Layer,int]'},
    'ghost': {'bad': 'int', 'ntd': 'bool', 'attempted': 'Set[Layer]', 'up': 'Set[Layer]'},
    'requires': ["WF()", "closed(setup_layers)", "object not in setup_layers", "layer != object", "not G.ntd", INV_ATT],
    'modifies': ['setup_layers', 'G.bad', 'G.attempted', 'G.up'],
    'ghost_code': {'setup_layers[layer] = 1': ['G.attempted.discard(layer)'],   # a new set-up: a new tearDown is due
                   # the layer is set up once its setUp hook has returned (or when it has none)
                   "if hasattr(layer, 'setUp'):": ['G.up.add(layer)']},
    'decreases': "rank(layer)",
    'ensures': [
        "forall(l, Layer, iff(l in setup_layers, old(l in setup_layers) or isanc(l, layer)))",
        "closed(setup_layers)",
        "object not in setup_layers",
        "G.bad == old(G.bad)",
        "G.ntd == old(G.ntd)",
        INV_ATT,
    ],
    'raises': {
        # a raising setUp leaves the layer itself unmarked; what was set up before stays set up
        'Exception': SET_POSTS_EXC + ["G.bad == old(G.bad) + 1"],
        'EndRun': SET_POSTS_EXC + ["G.bad == old(G.bad) + 1", "options.post_mortem"],
        'MemoryError': SET_POSTS_EXC,
        'OtherBase': SET_POSTS_EXC,
    },
    'callsites': {
        'layer.setUp()': [
            "layer not in setup_layers",                                         # only while not set up
            "forall(i, Int, implies(0 <= i and i < len(layer.__bases__) and layer.__bases__[i] != object,"
            " layer.__bases__[i] in setup_layers))",                            # ... and all its bases are
            "not G.ntd",                                                         # never after a refused tearDown
        ],
    },
    'loops': {
        '#loop1': [
            "forall(l, Layer, iff(l in setup_layers, old(l in setup_layers) or"
            " exists(j, Int, 0 <= j and j < _i and isanc(l, layer.__bases__[j]))))",
            "closed(setup_layers)",
            "object not in setup_layers",
            "G.bad == old(G.bad)",
            "G.ntd == old(G.ntd)",
            INV_ATT,
        ],
    },
    'rules': {
        'zope.testrunner.debug.post_mortem': {'kind': 'noeffect', 'raises': ['EndRun'], 'never_returns': True},
    },
}

TEARDOWN = {
    'property': ['C01', 'C02', 'C04'],
    'params': {'options': 'Rec[Options]', 'needed': 'Dict[Layer,int]', 'setup_layers': 'Dict[Layer,int]',
               'errors': 'List[Tuple[Any,Any]]', 'optional': 'bool'},
    'ghost': {'bad': 'int', 'ntd': 'bool', 'attempted': 'Set[Layer]', 'up': 'Set[Layer]'},
    'requires': ["WF()", "closed(setup_layers)", "closed(needed)", "object not in setup_layers", INV_ATT],
    'modifies': ['setup_layers', 'errors', 'G.bad', 'G.ntd', 'G.attempted', 'G.up'],
    'locals': {'unneeded': 'List[Layer]'},
    'ghost_code': {"if hasattr(layer, 'tearDown'):": ['G.up.discard(layer)']},    # a layer without the hook is simply dropped
    'ensures': [
        "forall(l, Layer, iff(l in setup_layers, old(l in setup_layers) and l in needed))",   # exactly the unneeded ones went
        "G.bad - old(G.bad) == len(errors) - old(len(errors))",                             # C02: one error per failed tearDown
        "implies(not optional, G.ntd == old(G.ntd))",
        "closed(setup_layers)",
        "object not in setup_layers",
        "len(errors) >= old(len(errors))",
        INV_ATT,
    ],
    'raises': {
        'CanNotTearDown': [INV_ATT, "not optional", "G.ntd", "closed(setup_layers)", "object not in setup_layers",
                           "forall(l, Layer, implies(l in setup_layers, old(l in setup_layers)))",
                           "G.bad - old(G.bad) == len(errors) - old(len(errors))",
                           "len(errors) >= old(len(errors))"],
        'MemoryError': [],
        'OtherBase': [],
    },
    'callsites': {
        'layer.tearDown()': [
            "layer in setup_layers",                                             # only while it is set up
            "layer not in G.attempted",                                          # one attempt per set-up
            "forall(d, Layer, implies(d in setup_layers and d != layer, not isanc(layer, d)))",  # everything derived is gone
        ],
    },
    'loops': {
        '#loop1': [
            "forall(l, Layer, iff(l in setup_layers, old(l in setup_layers) and"
            " not exists(j, Int, 0 <= j and j < _i and unneeded[j] == l)))",
            "derived_first(unneeded)",
            "distinct(unneeded)",
            "forall(u, Int, implies(0 <= u and u < len(unneeded), unneeded[u] in old(setup_layers) and unneeded[u] not in needed))",
            "forall(l, Layer, implies(old(l in setup_layers) and l not in needed,"
            " exists(u, Int, 0 <= u and u < len(unneeded) and unneeded[u] == l)))",
            "G.bad - old(G.bad) == len(errors) - old(len(errors))",
            "implies(not optional, G.ntd == old(G.ntd))",
            "len(errors) >= old(len(errors))",
            INV_ATT,
        ],
    },
    'rules': {
        'TearDownLayerFailure': 'fresh:Any',
        'CanNotTearDown': None,
    },
}


BADSUM = "G.bad - old(G.bad) == (len(failures) - old(len(failures))) + (len(errors) - old(len(errors)))"
TEST_GHOST = {'bad': 'int', 'ntd': 'bool', 'attempted': 'Set[Layer]', 'up': 'Set[Layer]', 'ran': 'int', 'stdout': 'Stream', 'stderr': 'Stream', 'tsu': 'bool', 'hookexc': 'bool',
              'cap_out': 'Opt[Str]', 'cap_err': 'Opt[Str]'}
STREAMS_SAME = "G.stdout == old(G.stdout) and G.stderr == old(G.stderr)"
BETWEEN_TESTS = ["not G.tsu", "not G.hookexc"]      # no per-test layer hook pending, none has raised

# The function run_tests (test loop of one layer).  Used as a callee contract by run_layer; its body is verified
# in the C12/C16 checks (sidecar runner_result.py, which adds the TestResult contracts and the unittest protocol).
RUN_TESTS_FN = {
    'merge': True,          # join paths after each statement (many independent reporting branches)
    'property': ['C02', 'C03', 'C04', 'C12', 'C13', 'C16'],
    'trusted': True,
    'params': {'options': 'Rec[Options]', 'tests': 'Suite', 'name': 'Str', 'failures': 'List[Tuple[Any,Any]]',
               'errors': 'List[Tuple[Any,Any]]', 'skipped': 'List[Tuple[Any,Any]]', 'import_errors': 'List[Any]'},
    'returns': 'int',
    'ghost': TEST_GHOST,
    'locals': {},
    'requires': ["WF()"] + BETWEEN_TESTS,
    'modifies': ['failures', 'errors', 'skipped', 'G.bad', 'G.stdout', 'G.stderr', 'G.tsu', 'G.hookexc', 'G.cap_out',
                 'G.cap_err', 'G.ran'],
    'ghost_exit': {'ran': 'G.ran + _ret'},      # G.ran: number of tests run, as reported by the test loops (C12)
    'ensures': ["G.ran == old(G.ran) + result", BADSUM, "result >= 0", "len(failures) >= old(len(failures))", "len(errors) >= old(len(errors))",
                STREAMS_SAME] + BETWEEN_TESTS,           # C13/C18: after the tests the std streams are what they were
    'raises': {
        # C05: whatever ends the loop early -- the debugger session of --post-mortem (EndRun out of addError), ^C -- the
        # test that had started got its stopTest: the per-test layer hooks are balanced (not G.tsu) when the exception leaves
        'EndRun': ["options.post_mortem", STREAMS_SAME, "G.hookexc or not G.tsu"],
        # KeyboardInterrupt & co.: propagate by design, but the std streams are restored (C13/C18)
        'OtherBase': [STREAMS_SAME, "G.hookexc or not G.tsu"], 'KeyboardInterrupt': [STREAMS_SAME, "G.hookexc or not G.tsu"],
        # an exception of a per-test layer hook aborts the run by design; nothing else escapes (C04)
        'Exception': ["G.hookexc", STREAMS_SAME],
    },
    'callsites': {
        'test': [
            # C16: under --stop-on-error no test starts once this call has recorded a bad outcome (also across --repeat)
            "implies(options.stop_on_error and not options.post_mortem, G.bad == old(G.bad))",
            # C03: the tests of the suite, in order, one call each per iteration
            "test == suite_item(tests, _i)",
        ],
        'result.startTest': ["test == suite_item(tests, _i)"],     # --post-mortem: tests are debugged one by one
        # C12: the per-layer summary is computed from this iteration's result
        'output.summary': ["n_failures == len(result.failures) + len(result.unexpectedSuccesses)"],
    },
    'loops': {
        '#loop1': [BADSUM, "len(failures) >= old(len(failures))", "len(errors) >= old(len(errors))", STREAMS_SAME,
                   "ran >= 0", "implies(options.stop_on_error and not options.post_mortem, G.bad == old(G.bad))"]
                  + BETWEEN_TESTS,
        '#loop2': "PER_TEST", '#loop3': "PER_TEST",
    },
}

RUN_LAYER = {
    'property': ['C01', 'C02', 'C04'],
    'params': {'options': 'Rec[Options]', 'layer_name': 'Str', 'layer': 'Layer', 'tests': 'Suite',
               'setup_layers': 'Dict[Layer,int]', 'failures': 'List[Tuple[Any,Any]]',
               'errors': 'List[Tuple[Any,Any]]', 'skipped': 'List[Tuple[Any,Any]]', 'import_errors': 'List[Any]'},
    'returns': 'int',
    'ghost': TEST_GHOST,
    'locals': {'gathered': 'List[Layer]'},
    'requires': ["WF()", "closed(setup_layers)", "object not in setup_layers", "not G.ntd", "layer != object", INV_ATT]
                + BETWEEN_TESTS,
    'modifies': ['setup_layers', 'failures', 'errors', 'skipped', 'G.bad', 'G.ntd', 'G.attempted', 'G.up', 'G.ran', 'G.stdout', 'G.stderr', 'G.tsu',
                 'G.hookexc', 'G.cap_out', 'G.cap_err'],
    'ensures': ["closed(setup_layers)", "object not in setup_layers", "not G.ntd", BADSUM, "result >= 0", INV_ATT,
                "G.ran == old(G.ran) + result",                       # C12: the count handed to the caller is what ran
                "len(failures) >= old(len(failures))", "len(errors) >= old(len(errors))", STREAMS_SAME] + BETWEEN_TESTS,
    'raises': {
        # containment (C04): for hooks raising Exception subclasses nothing but these leaves run_layer
        'EndRun': ["closed(setup_layers)", "object not in setup_layers", "options.post_mortem", STREAMS_SAME, INV_ATT],
        'CanNotTearDown': [INV_ATT, "G.ran == old(G.ran)", "G.ntd", "closed(setup_layers)", "object not in setup_layers", BADSUM,
                           "len(failures) >= old(len(failures))", "len(errors) >= old(len(errors))", STREAMS_SAME]
                          + BETWEEN_TESTS,
        'MemoryError': [STREAMS_SAME],
        'OtherBase': [STREAMS_SAME], 'KeyboardInterrupt': [STREAMS_SAME],
        'Exception': ["G.hookexc", STREAMS_SAME],            # only a raising per-test layer hook (C04)
    },
    'callsites': {
        # the only place a test of this layer executes: exactly the layer and its transitive bases are set up
        'run_tests': ["forall(l, Layer, iff(l in setup_layers, isanc(l, layer)))", "not G.ntd"],
    },
    'rules': {'SetUpLayerFailure': 'fresh:Any'},
}


def hook(name, raises, effect=None):
    """assumed contract of a user-supplied layer hook: returns, or raises one of `raises` (DESIGN 4.2)."""
    def handler(E, st, node, args, kws, k):
        out = []
        for exc in raises:
            s2 = st.copy()
            s2.path.append('%s!%s@%s' % (name, exc, node.lineno))
            if effect is not None:
                effect(E, s2, exc)
            out.append((s2, 'raise', __import__('pyvc.vals', fromlist=['VExc']).VExc(exc)))
        st.path.append('%s:returns' % name)
        if effect is not None:
            effect(E, st, None)
        return out + k(st, NONE)
    handler.__name__ = 'HOOK_%s(returns | raises %s)' % (name, '/'.join(raises))
    handler.modifies = ['G.bad', 'G.ntd', 'G.attempted', 'G.up']
    return handler


def _gset(st, name, z, val):
    from pyvc.vals import HDict
    if name in st.ghost:
        g = st.ghost[name]
        h = st.heap[g.rid]
        st.heap[g.rid] = HDict(h.kt, h.vt, z3.Store(h.mem, z, z3.BoolVal(val)), h.vals)


def teardown_effect(E, st, exc):
    _gset(st, 'up', st.lookup('layer').z, False)          # whatever the outcome: the tearDown of this set-up was attempted
    if 'attempted' in st.ghost:
        layer = st.lookup('layer')
        g = st.ghost['attempted']
        h = st.heap[g.rid]
        from pyvc.vals import HDict
        st.heap[g.rid] = HDict(h.kt, h.vt, z3.Store(h.mem, layer.z, z3.BoolVal(True)), h.vals)
    if 'ntd' in st.ghost and exc == 'NotImplementedError':
        st.ghost['ntd'] = VBool(True)
    if 'bad' in st.ghost and exc in ('OtherException',):
        st.ghost['bad'] = VInt(st.ghost['bad'].z + 1)


def setup_effect(E, st, exc):
    if 'bad' in st.ghost and exc in ('OtherException', 'NotImplementedError'):
        st.ghost['bad'] = VInt(st.ghost['bad'].z + 1)


HOOK_RAISES = ['NotImplementedError', 'OtherException', 'MemoryError', 'OtherBase']


def key_abstraction(E, st, res):
    """the concrete key (a tuple of names) seen as an abstract SortKey: same length, same last component"""
    from pyvc.vals import usort, fresh_name
    h = st.heap[res.rid]
    SK, Str = usort('SortKey'), usort('Str')
    klen = z3.Function('klen', SK, z3.IntSort())
    klast = z3.Function('klast', SK, Str)
    kz = z3.Const(fresh_name('key'), SK)
    st.assume(klen(kz) == h.n)
    if h.et is not None:
        st.assume(z3.Implies(h.n > 0, klast(kz) == z3.Select(h.arr, h.n - 1)))
    return VObj('SortKey', kz)


def register_sort_key(E):
    from pyvc.vals import usort
    if ('sortkey',) in E.added_axioms:
        return
    E.added_axioms.add(('sortkey',))
    SK, Str, Layer = usort('SortKey'), usort('Str'), usort('Layer')
    klen = z3.Function('klen', SK, z3.IntSort())
    klast = z3.Function('klast', SK, Str)
    lsk = z3.Function('lsk', Layer, SK)
    UT = z3.Const('UnitTestsLayerObj', Layer)
    OBJ = z3.Const('OBJ', Layer)
    bases_arr = z3.Function('bases_arr', Layer, z3.ArraySort(z3.IntSort(), Layer))
    nb = z3.Function('nb', Layer, z3.IntSort())
    E.need_order('SortKey')
    lt = z3.Function('lt_SortKey', SK, SK, z3.BoolSort())
    a, b = z3.Consts('ka kb', SK)
    i = z3.Int('i')
    E.axioms += [
        z3.ForAll([a], klen(a) >= 0),
        # T3 (Python tuple comparison): the empty tuple is smaller than every non-empty tuple
        z3.ForAll([a, b], z3.Implies(z3.And(klen(a) == 0, klen(b) > 0), lt(a, b))),
        UT != OBJ,
    ]
    # `class UnitTests:` in layer.py declares no base class (decided on the real source): its only base is object
    tree = E.module('layer')[0]
    cls = [n for n in tree.body if isinstance(n, __import__('ast').ClassDef) and n.name == 'UnitTests']
    plain = bool(cls) and not cls[0].bases and not any(
        isinstance(n, __import__('ast').Assign) and any(getattr(t, 'id', None) == '__bases__' for t in n.targets)
        for n in cls[0].body)
    E.syntactic_obligation("layer.UnitTests declares no base class (its only base is object)", plain,
                           props=('C10',))
    if plain:
        E.axioms.append(z3.ForAll([i], z3.Implies(z3.And(0 <= i, i < nb(UT)), z3.Select(bases_arr(UT), i) == OBJ)))
    E.globals['runner.UnitTests'] = E.globals['UnitTests'] = lambda eng, st: VObj('Layer', UT)
    E.specfuncs.update({
        'klen': lambda eng, st, kk: VInt(klen(kk.z)),
        'klast': lambda eng, st, kk: VObj('Str', klast(kk.z)),
        'lsk': lambda eng, st, l: VObj('SortKey', lsk(l.z)),
        'name_from_layer': lambda eng, st, l: eng.uf('fn_name_from_layer', [l], ('obj', 'Str')),
    })
    SORT_KEY['result_abs'] = key_abstraction
    E.assumptions += [
        "T3: tuples compare lexicographically; used: () < every non-empty tuple (sort keys as an abstract ordered sort)",
        "T4: sorted(xs, key=f, reverse=True) returns a permutation of xs in non-increasing key order; layer_sort_key is a "
        "pure function of the layer (reads only __bases__ and name_from_layer), so its proved postconditions hold for the "
        "key of every element",
    ]


def register(E):
    E.load_sidecar(os.path.join(HERE, 'common.py'))
    E.load_sidecar(os.path.join(HERE, 'vocab_layers.py'))
    E.global_rules['layer.setUp'] = hook('setUp', HOOK_RAISES, setup_effect)
    E.global_rules['layer.tearDown'] = hook('tearDown', HOOK_RAISES, teardown_effect)
    E.assumptions.append("A-HOOKS: layer.setUp()/tearDown() return or raise NotImplementedError, another Exception "
                         "subclass (representative OtherException), MemoryError or a non-Exception BaseException; "
                         "they do not raise the runner's own EndRun/CanNotTearDown and cannot reach setup_layers "
                         "(A-HOOKFRAME)")
    del TEARDOWN['rules']['CanNotTearDown']
    register_sort_key(E)
    from contracts.runner_order import purity
    purity(E)
    E.add_contract('runner.layer_sort_key', SORT_KEY)
    E.add_contract('runner.layer_sort_key._gather', GATHER_KEY)
    E.add_contract('runner.gather_layers', GATHER)
    E.add_contract('runner.order_by_bases', ORDER)
    E.add_contract('runner.order_by_bases@unitfirst', ORDER_UNITFIRST)
    E.add_contract('runner.order_by_bases@complete', ORDER_COMPLETE)
    E.add_contract('runner.handle_layer_failure', HANDLE_FAILURE)
    E.add_contract('runner.handle_layer_failure@unprintable', HANDLE_FAILURE_UNPRINTABLE)
    E.add_contract('runner.setup_layer', SETUP)
    E.add_contract('runner.tear_down_unneeded', TEARDOWN)
    E.add_contract('runner.run_tests', RUN_TESTS_FN)
    E.add_contract('runner.run_layer', RUN_LAYER)
