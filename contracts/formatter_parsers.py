"""C17 (names): the name parsers XMLOutputFormattingWrapper._record tries before parse_unittest -- for doc-file cases,
doctest cases, manuel cases and start-up failures.  _record's own contract only assumes "a parser returns a name triple
or (None, None, None) and raises nothing"; here that assumption is discharged on the real bodies: each parser either does
not apply (all three None) or returns three strings, and raises nothing -- for every file location a doc file can have
relative to the current directory (below it, directly in it, elsewhere, in the file-system root)."""
import os
import z3
from pyvc.vals import VObj, VBool, VInt, VOpt, VNone, VTup, VRef, HList, HRec, NONE, usort, fresh_name
from pyvc.state import fresh_val, fresh_hlist

HERE = os.path.dirname(os.path.abspath(__file__))


def parts_rule(label):
    def rule(E, st, node, args, kws, k):
        L = st.alloc(fresh_hlist(('obj', 'Str'), label, st))
        st.assume(st.heap[L.rid].n >= 1)
        st.ghost[label] = L
        return k(st, L)
    rule.__name__ = ('%s: the components of a path that names a file (Path(f).parts) / of the current directory '
                     '(Path.cwd().parts): a tuple of strings with at least one element' % label)
    rule.modifies = ['G.' + label]
    return rule


FILENAME_PARTS = {
    'property': ['C17'],
    'params': {'filename': 'Str'},
    'returns': 'Opt[List[Str]]',
    'ghost': {'fparts': 'List[Str]', 'cparts': 'List[Str]'},
    'requires': [],
    'modifies': ['G.fparts', 'G.cparts'],
    'ensures': [
        "result is not None",                                  # callers join the result: None is a TypeError there
        "implies(result is not None, len(result) >= 1)",
        "implies(result is not None, result[len(result) - 1] == G.fparts[len(G.fparts) - 1])",      # "don't lose the filename"
    ],
    'raises': {},
    'locals': {'suiteNameParts': 'List[Str]'},
    'loops': {
        '#loop1': {'inv': ["0 <= _i and _i <= longest", "longest <= len(filenameParts)", "longest <= len(cwdParts)", "longest >= 1"]},
        '#loop2': {'inv': ["len(suiteNameParts) == _i"]},
    },
    'expr_rules': {
        'Path(filename).parts': parts_rule('fparts'),
        'Path.cwd().parts': parts_rule('cparts'),
    },
}


def applies_rule(E, st, node, args, kws, k):
    v = fresh_val(('bool',), 'applies', st)
    st.ghost['applies'] = v
    return k(st, v)
applies_rule.__name__ = 'isinstance(test, <case class of this parser>): either answer (ghost G.applies)'
applies_rule.modifies = ['G.applies']

ALL_OR_NONE = [
    # the parser does not apply: no name at all; it applies: a complete name (suite = report file, test name, class name)
    "iff(result[0] is None, not G.applies)", "iff(result[1] is None, not G.applies)", "iff(result[2] is None, not G.applies)",
]


def parser_contract(applies_expr, expr_rules):
    rules = {applies_expr: applies_rule}
    rules.update(expr_rules)
    return {
        'property': ['C17'],
        'params': {'test': 'Any'},
        'returns': 'Tuple[Opt[Str],Opt[Str],Opt[Str]]',
        'ghost': {'applies': 'bool'},
        'requires': [],
        'modifies': ['G.applies'],
        'ensures': list(ALL_OR_NONE),
        'raises': {},                     # _record calls the parsers outside any try: whatever they raise aborts the run
        'expr_rules': rules,
    }


PARSE_DOC_FILE = parser_contract('isinstance(test, doctest.DocFileCase)',
                                 {'test._dt_test.filename': 'fresh:Str', 'test._dt_test.name': 'fresh:Str'})
PARSE_DOC_TEST = parser_contract('isinstance(test, doctest.DocTestCase)', {'test._dt_test.name': 'fresh:Str'})
PARSE_DOC_TEST['rules'] = {'get_test_class_name': 'pure:Str'}
PARSE_MANUEL = parser_contract('HAVE_MANUEL and isinstance(test, manuel.testing.TestCase)', {'test.regions.location': 'fresh:Str'})
PARSE_STARTUP = parser_contract('isinstance(test, StartUpFailure)', {'test.module': 'fresh:Str'})


def register(E):
    E.load_sidecar(os.path.join(HERE, 'common.py'))
    E.add_contract('formatter.filename_to_suite_name_parts', FILENAME_PARTS)
    E.add_contract('formatter.parse_doc_file_case', PARSE_DOC_FILE)
    E.add_contract('formatter.parse_doc_test_case', PARSE_DOC_TEST)
    E.add_contract('formatter.parse_manuel', PARSE_MANUEL)
    E.add_contract('formatter.parse_startup_failure', PARSE_STARTUP)
