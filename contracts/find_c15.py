"""C15: remove_stale_bytecode deletes only orphaned .pyc/.pyo files lying directly in a searched directory."""
import os
import z3
from pyvc.vals import VObj, VBool, VInt, VTup, VRef, HList, HDict, NONE, usort, fresh_name, to_z3
from pyvc.strlemma import pyslice

HERE = os.path.dirname(os.path.abspath(__file__))
Str = usort('Str')
Walk = usort('WalkEntry')
w_dirname = z3.Function('walk_dirname', Walk, Str)
w_dirs = z3.Function('walk_dirs', Walk, z3.ArraySort(z3.IntSort(), Str))
w_ndirs = z3.Function('walk_ndirs', Walk, z3.IntSort())
w_files = z3.Function('walk_files', Walk, z3.ArraySort(z3.IntSort(), Str))
w_nfiles = z3.Function('walk_nfiles', Walk, z3.IntSort())
walk_arr = z3.Function('walk_entries', Str, z3.ArraySort(z3.IntSort(), Walk))
walk_len = z3.Function('walk_nentries', Str, z3.IntSort())
join_f = z3.Function('os_path_join', Str, Str, Str)


def walk_rule(E, st, node, args, kws, k):
    """walk_with_symlinks(options, p): an arbitrary finite sequence of (dirname, dirs, files) triples (assumed)."""
    p = args[1]
    return k(st, st.alloc(HList(('obj', 'WalkEntry'), walk_arr(p.z), walk_len(p.z))))
walk_rule.__name__ = 'walk_with_symlinks: assumed generator of (dirname, dirs, files); pruning by the consumer is honoured by os.walk'


def unpack_walk(E, st, e):
    dirs = st.alloc(HList(('obj', 'Str'), w_dirs(e.z), w_ndirs(e.z)))
    files = st.alloc(HList(('obj', 'Str'), w_files(e.z), w_nfiles(e.z)))
    return VTup([VObj('Str', w_dirname(e.z)), dirs, files])


def unlink_rule(E, st, node, args, kws, k):
    g = st.ghost['unlinked']
    h = st.heap[g.rid]
    st.heap[g.rid] = HDict(h.kt, h.vt, z3.Store(h.mem, args[0].z, z3.BoolVal(True)), h.vals)
    return k(st, NONE)
unlink_rule.__name__ = 'os.unlink(path): removes exactly that path (ghost G.unlinked += {path})'
unlink_rule.modifies = ['G.unlinked']


def _join(E, st, a, b):
    return VObj('Str', join_f(a.z, b.z))


def _endswith(E, st, s, suf):
    return E.uf('str_endswith', [s, suf], ('bool',))


def _pyname(E, st, s):
    """name of the same-named source file: 'x.pyc' -> 'x.py' (the code computes it as file[:-1])"""
    return E.uf('str_slice_N_cm1_N', [s], ('obj', 'Str'))


ORPHAN = "((endswith(%s, '.pyc') or endswith(%s, '.pyo')) and pyname(%s) not in files)"

REMOVE = {
    'property': ['C15'],
    'params': {'options': 'Rec[Options]'},
    'ghost': {'unlinked': 'Dict[Str,int]'},
    'requires': [],
    'modifies': ['G.unlinked'],
    'ensures': [
        "implies(options.keepbytecode, forall(x, Str, iff(x in G.unlinked, old(x in G.unlinked))))",   # -k: nothing deleted
        "forall(x, Str, implies(old(x in G.unlinked), x in G.unlinked))",
    ],
    'raises': {},
    'callsites': {
        'os.unlink': [
            "file == files[_i]",                                             # a file lying directly in the visited directory
            "endswith(file, '.pyc') or endswith(file, '.pyo')",              # ... whose name ends with .pyc / .pyo
            "pyname(file) not in files",                                     # ... with no same-named .py beside it
            "fullname == join(dirname, file)",                               # and exactly that file is removed
            "not options.keepbytecode",
        ],
    },
    'loops': {
        '#loop1': ["forall(x, Str, implies(old(x in G.unlinked), x in G.unlinked))", "not options.keepbytecode"],
        '#loop2': ["forall(x, Str, implies(old(x in G.unlinked), x in G.unlinked))", "not options.keepbytecode"],
        '#loop3': [
            "forall(x, Str, implies(old(x in G.unlinked), x in G.unlinked))", "not options.keepbytecode",
            # completeness: every orphan among the files seen so far has been unlinked
            "forall(j, Int, implies(0 <= j and j < _i and " + (ORPHAN % (("files[j]",) * 3)) +
            ", join(dirname, files[j]) in G.unlinked))",
            # soundness over the whole directory: only orphans of this directory were added
            "forall(x, Str, implies(x in G.unlinked and not pre(x in G.unlinked, '#loop3'),"
            " exists(j, Int, 0 <= j and j < _i and x == join(dirname, files[j]) and " + (ORPHAN % (("files[j]",) * 3)) + ")))",
        ],
    },
    'rules': {'walk_with_symlinks': walk_rule, 'os.unlink': unlink_rule,
              'os.path.join': lambda E, st, node, args, kws, k: k(st, VObj('Str', join_f(args[0].z, args[1].z)))},
}

# the one place where the clean-up prunes the walk: only __pycache__ is taken out of `dirs` (every other directory the
# walk offers -- the walk itself has dropped the ignored ones -- is searched: "it deletes every such orphan")
PRUNE = {
    'property': ['C15'],
    'fragment': {'find': "if '__pycache__' in dirs:", 'count': 1, 'heads': ["if '__pycache__' in dirs:"]},
    'params': {'dirs': 'List[Str]'},
    'requires': ["distinct_names(dirs)"],              # a directory listing: no name twice
    'modifies': ['dirs'],
    'ensures': [
        "forall(x, Str, iff(x in dirs, old(x in dirs) and x != '__pycache__'))",
    ],
    'raises': {},
}

TAIL = {
    'property': ['C15', 'C09'],
    'fragment': {'start': 'if options.all:', 'end': 'if options.quiet:'},
    'params': {'options': 'Rec[OptionsTail]'},
    'requires': [],
    'modifies': ['options.at_level', 'options.unit', 'options.non_unit', 'options.layer', 'options.keepbytecode'],
    'ensures': [
        "implies(old(options.usecompiled), options.keepbytecode)",                     # C15: --usecompiled implies --keepbytecode
        "implies(old(options.keepbytecode), options.keepbytecode)",                    # C15: an explicit -k is never switched off
        "implies(old(options.unit) and old(options.non_unit), not options.unit and not options.non_unit)",   # C09: -u -f cancel
        "implies(old(options.unit) != old(options.non_unit), options.unit == old(options.unit) and options.non_unit == old(options.non_unit))",
        "implies(old(options.all), options.at_level == maxsize())",                    # C09: --all
        "implies(not old(options.all), options.at_level == old(options.at_level))",
    ],
    'raises': {},
    'expr_rules': {'options.layer and {layer: 1 for layer in options.layer}': 'fresh:Any'},
}

OT, OP = "old(options.test_path)", "old(options.path)"
NT = "ite(%s is None, 0, len(%s))" % (OT, OT)
NP = "ite(%s is None, 0, len(%s))" % (OP, OP)
# the search directories: --test-path entries first, then --path entries, each in the order given, none dropped, none
# merged -- discovery order (hence default execution order, hence what a seeded shuffle permutes) is a function of the
# command line alone, never of string hashing or set iteration
PATHS = {
    'property': ['C11', 'C14', 'C15'],
    'fragment': {'start': 'options.path = options.path or []', 'end': "options.test_path = [(path, '')"},
    'params': {'options': 'Rec[OptionsPaths]'},
    'requires': [],
    'modifies': ['options.path', 'options.test_path'],
    'ensures': [
        "options.test_path is not None",
        "len(options.test_path) == %s + %s" % (NT, NP),
        "forall(q, Int, implies(%s is not None and 0 <= q and q < len(%s), options.test_path[q] == %s[q]))" % (OT, OT, OT),
        "forall(q, Int, implies(%s is not None and 0 <= q and q < len(%s), options.test_path[%s + q] == %s[q]))" % (OP, OP, NT, OP),
    ],
    'raises': {},
}


def prune_frame(E):
    """frame of the pruning (decided on the source): inside remove_stale_bytecode the list `dirs` handed over by the walk is
    changed by the __pycache__ statement (contract @prune) and by nothing else -- no other statement assigns to it, deletes
    from it, calls a method on it or passes it on.  With @prune: every directory the walk offers, except __pycache__, is
    searched."""
    import ast
    f, _, src = E.find_def('find.remove_stale_bytecode')
    allowed = None
    for n in ast.walk(f):
        if isinstance(n, ast.If) and ast.unparse(n.test) == "'__pycache__' in dirs" and not n.orelse:
            allowed = n
    inside = set(map(id, ast.walk(allowed))) if allowed is not None else set()
    bad = []
    for n in ast.walk(f):
        if id(n) in inside:
            continue
        if isinstance(n, ast.Name) and n.id == 'dirs':
            par = [p for p in ast.walk(f) if any(c is n for c in ast.iter_child_nodes(p))][0]
            ok = (isinstance(par, ast.Tuple) and isinstance(par.ctx, ast.Store)          # the loop target that binds it
                  or isinstance(par, ast.Compare) and par.left is not n)                 # `x in dirs`
            if not ok:
                bad.append('line %d: %s' % (n.lineno, ast.unparse(par)[:60]))
    E.syntactic_obligation("remove_stale_bytecode changes the walk's `dirs` only in the __pycache__ statement (nothing else is "
                           "pruned from the clean-up: every other directory the walk offers is searched)",
                           allowed is not None and not bad,
                           detail='; '.join(bad) or ('' if allowed is not None else 'the __pycache__ statement was not found'),
                           props=('C15',))


def register(E):
    E.load_sidecar(os.path.join(HERE, 'common.py'))
    E.records['Options'].update({'keepbytecode': 'bool', 'test_path': 'List[Tuple[Str,Str]]'})
    E.records['OptionsTail'] = {'all': 'bool', 'at_level': 'int', 'unit': 'bool', 'non_unit': 'bool', 'layer': 'Any',
                                'usecompiled': 'bool', 'keepbytecode': 'bool'}
    E.unpack_sorts['WalkEntry'] = unpack_walk
    def _distinct_names(eng, st, L):
        h = st.heap[L.rid]
        i, j = z3.Int(fresh_name('i')), z3.Int(fresh_name('j'))
        return VBool(z3.ForAll([i, j], z3.Implies(z3.And(0 <= i, i < j, j < h.n), z3.Select(h.arr, i) != z3.Select(h.arr, j))))
    E.specfuncs['distinct_names'] = _distinct_names
    E.specfuncs.update({'join': _join, 'endswith': _endswith, 'pyname': _pyname,
                        'maxsize': lambda eng, st: VInt(z3.Int('sys_maxsize'))})
    E.globals['sys.maxsize'] = lambda eng, st: VInt(z3.Int('sys_maxsize'))
    s = z3.Const('s', Str)
    for ext in ('.pyc', '.pyo'):
        lit = E.strlit(ext).z
        sl4 = z3.Function('str_slice_cm4_N_N__Str', Str, Str)
        ends = z3.Function('str_endswith__Str_Str', Str, Str, z3.BoolSort())
        S = z3.String('S')
        E.prove_string_lemma("file[-4:] == '%s'  <=>  file ends with '%s'" % (ext, ext),
                             (pyslice(S, -4, None) == z3.StringVal(ext)) == z3.SuffixOf(z3.StringVal(ext), S),
                             z3.ForAll([s], (sl4(s) == lit) == ends(s, lit)), props=('C15',))
        E.prove_string_lemma("file ends with '%s'  =>  file[:-1] == stem + '.py'" % ext,
                             z3.Implies(z3.SuffixOf(z3.StringVal(ext), S),
                                        pyslice(S, None, -1) == z3.Concat(z3.SubString(S, 0, z3.Length(S) - 4),
                                                                           z3.StringVal('.py'))),
                             z3.BoolVal(True), props=('C15',))
    E.assumptions += [
        "T4: walk_with_symlinks/os.walk yield the directories below each search path, honouring in-place pruning of `dirs` "
        "(__pycache__, ignored directories); os.unlink removes exactly its argument; os.path.join is a pure function",
        "reading of the statement: 'a .pyc or .pyo file' = a name that ends with '.pyc' / '.pyo'",
    ]
    if ('walk_syntactic',) not in E.added_axioms:          # the shape of the assumed walk (shared with C14)
        E.added_axioms.add(('walk_syntactic',))
        from contracts.find_c14 import walk_syntactic
        walk_syntactic(E)
    E.add_contract('find.remove_stale_bytecode', REMOVE)
    E.add_contract('find.remove_stale_bytecode@prune', PRUNE)
    prune_frame(E)
    E.add_contract('options.get_options', TAIL)
    E.records['OptionsPaths'] = {'path': 'Opt[List[Str]]', 'test_path': 'Opt[List[Str]]'}
    E.add_contract('options.get_options@paths', PATHS)
