"""Contract for Runner.run_tests (the layer loop): C01 (nothing left set up, nothing after a refused tearDown),
C02 (verdict), C16 (no layer after a bad outcome under --stop-on-error)."""
import os

HERE = os.path.dirname(os.path.abspath(__file__))
TEST_GHOST = {'bad': 'int', 'ntd': 'bool', 'attempted': 'Set[Layer]', 'up': 'Set[Layer]', 'ran': 'int', 'stdout': 'Stream', 'stderr': 'Stream', 'tsu': 'bool', 'hookexc': 'bool',
              'cap_out': 'Opt[Str]', 'cap_err': 'Opt[Str]'}
STREAMS_SAME = "G.stdout == old(G.stdout) and G.stderr == old(G.stderr)"

LISTS = 'List[Tuple[Any,Any]]'
SELF_FIELDS = {
    'options': 'Rec[Options]', 'ran': 'int', 'failures': LISTS, 'errors': LISTS, 'skipped': LISTS,
    'import_errors': 'List[Any]', 'features': 'List[Feature]', 'failed': 'bool', 'script_parts': 'Any', 'cwd': 'Any',
}

SBAD = ("G.bad - old(G.bad) == (len(self.failures) - old(len(self.failures)))"
        " + (len(self.errors) - old(len(self.errors)))")

ORDERED_LAYERS = {          # assumed here; proved for C10/C03 in their own checks
    'property': ['C01', 'C03', 'C10'],
    'trusted': True,
    'params': {},
    'self_fields': SELF_FIELDS,
    'returns': 'List[Tuple[Str,Layer,Suite]]',
    'requires': [],
    'modifies': [],
    'ensures': [
        "forall(i, Int, implies(0 <= i and i < len(result), result[i][1] != object))",
        # in a child process Filter.global_setup has reduced the registered layers to the resumed one
        "implies(bool(self.options.resume_layer), len(result) <= 1)",
    ],
}

RESUME_TESTS = {            # assumed here; body under contract in the C06 check
    'property': ['C02', 'C06', 'C12'],
    'trusted': True,
    'params': {'script_parts': 'Any', 'options': 'Rec[Options]', 'features': 'List[Feature]',
               'layers': 'List[Tuple[Str,Layer,Suite]]', 'failures': LISTS, 'errors': LISTS, 'skipped': LISTS,
               'cwd': 'Any'},
    'returns': 'int',
    'ghost': TEST_GHOST,
    'requires': ["len(layers) >= 1"],
    'modifies': ['failures', 'errors', 'skipped', 'G.bad', 'G.ran'],
    'ensures': ["G.bad - old(G.bad) == (len(failures) - old(len(failures))) + (len(errors) - old(len(errors)))",
                "G.ran == old(G.ran) + result", "result >= 0", "len(failures) >= old(len(failures))", "len(errors) >= old(len(errors))"],
    'raises': {'OtherBase': []},
}

# C03: in the parent, the layers still to run are always the tail of the ordered list behind the ones whose tests were
# run in this process -- so what is handed to resume_tests is exactly every layer that was not run here
HANDOVER = ("implies(not bool(self.options.resume_layer), G.nrun >= 0 and"
            " G.nrun + len(layers_to_run) == pre(len(layers_to_run), '#loop1') and"
            " forall(i, Int, implies(0 <= i and i < len(layers_to_run),"
            " layers_to_run[i] == pre(layers_to_run, '#loop1')[G.nrun + i])))")
RUN_LAYER_STMT = ("self.ran += run_layer(self.options, layer_name, layer, tests, setup_layers, self.failures, self.errors, "
                  "self.skipped, self.import_errors)")

RUNNER_RUN_TESTS = {
    'property': ['C01', 'C02', 'C16'],
    'params': {},
    'self_fields': SELF_FIELDS,
    'ghost': dict(TEST_GHOST, nrun='int'),
    'ghost_code': {RUN_LAYER_STMT: ['G.nrun = G.nrun + 1']},        # run_layer returned: this layer's tests were run here
    'locals': {'setup_layers': 'Dict[Layer,int]'},
    'requires': ["WF()", "not G.ntd", "not G.tsu", "not G.hookexc", "G.nrun == 0", "forall(l, Layer, l not in G.up)"],
    'modifies': ['G.nrun', 'G.up', 'G.attempted', 'G.ran', 'self.ran', 'self.failures', 'self.errors', 'self.skipped', 'self.failed', 'G.bad', 'G.ntd',
                 'G.stdout', 'G.stderr', 'G.tsu', 'G.hookexc', 'G.cap_out', 'G.cap_err'],
    'ensures': [
        "forall(l, Layer, l not in setup_layers)",                                       # C01: every set-up layer was torn down
        "forall(l, Layer, l not in G.up)",                          # ... really every one: nothing set up was ever forgotten
        "self.failed == (len(self.import_errors) + len(self.failures) + len(self.errors) > 0)",   # C02: verdict
        "implies(not self.options.post_mortem, " + SBAD + ")",                            # C02: one entry per bad outcome
        STREAMS_SAME,                                                                     # C13/C18
        # C12: Runner.ran grows by exactly what the in-process layers and the subprocesses report
        "implies(not self.options.post_mortem, self.ran - old(self.ran) == G.ran - old(G.ran))",
        # C03/C04: unless the run is stopped on purpose (--stop-on-error, post-mortem EndRun, hand-over to subprocesses)
        # every selected layer has been run
        "implies(not self.options.stop_on_error and not self.options.post_mortem and not should_resume,"
        " len(layers_to_run) == 0)",
    ],
    # C04: apart from KeyboardInterrupt & co. and MemoryError only an exception of a per-test layer hook escapes
    'raises': {'OtherBase': [STREAMS_SAME], 'KeyboardInterrupt': [STREAMS_SAME], 'MemoryError': [STREAMS_SAME],
               'Exception': ["G.hookexc", STREAMS_SAME]},
    'props': {HANDOVER: ['C03', 'C01']},
    'callsites': {
        'resume_tests': [HANDOVER, "_arg7 == self.cwd"],       # C03: children get the start directory (startdir_c03)
        'run_layer': [
            "not G.ntd",                                                                  # C01: nothing after a refused tearDown
            # C16: under --stop-on-error no further layer once a failure or an error has been recorded by this loop
            "implies(self.options.stop_on_error, len(self.failures) == pre(len(self.failures), '#loop1')"
            " and len(self.errors) == pre(len(self.errors), '#loop1'))",
        ],
    },
    'loops': {
        '#loop1': [
            "closed(setup_layers)", "object not in setup_layers",
            "forall(l, Layer, implies(l in G.attempted, l not in setup_layers))",
            "forall(l, Layer, iff(l in G.up, l in setup_layers))",
            "not G.ntd or len(layers_to_run) == 0",
            "implies(bool(self.options.resume_layer), len(layers_to_run) <= 1)",
            "forall(i, Int, implies(0 <= i and i < len(layers_to_run), layers_to_run[i][1] != object))",
            SBAD,
            "len(self.failures) >= old(len(self.failures))", "len(self.errors) >= old(len(self.errors))",
            "implies(self.options.stop_on_error, len(self.failures) == pre(len(self.failures), '#loop1')"
            " and len(self.errors) == pre(len(self.errors), '#loop1'))",
            "self.ran - old(self.ran) == G.ran - old(G.ran)",
            "not should_resume", "not G.tsu", "not G.hookexc", STREAMS_SAME, HANDOVER,
        ],
        '#loop2': [],
    },
    'rules': {'feature.layer_setup': 'NOEFFECT'},
}


def register(E):
    E.load_sidecar(os.path.join(HERE, 'runner_layers.py'))
    E.records.setdefault('runner.Runner', {})
    E.truthy_sorts['Suite'] = 'always'
    E.add_contract('runner.Runner.ordered_layers', ORDERED_LAYERS)
    E.add_contract('runner.resume_tests', RESUME_TESTS)
    E.add_contract('runner.Runner.run_tests', RUNNER_RUN_TESTS)
