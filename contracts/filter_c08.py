"""C08: build_filtering_func against the predicate of the property statement."""
import os
import z3
from pyvc.vals import VObj, VBool, usort, fresh_name

HERE = os.path.dirname(os.path.abspath(__file__))
Str, Pat, Search = usort('Str'), usort('Pat'), usort('Search')
re_compile = z3.Function('re_compile', Str, Pat)
pat_search = z3.Function('pat_search', Pat, Search)
re_search = z3.Function('re_search', Search, Str, z3.BoolSort())      # M(p, v): a pure predicate (T4)
acc = z3.Function('accepts', usort('Accept'), Str, z3.BoolSort())


def _compile(E, st, node, args, kws, k):
    return k(st, VObj('Pat', re_compile(args[0].z)))
_compile.__name__ = 're.compile(p) = pure function of the pattern text'


def _unopt(x):
    return x.inner if x.__class__.__name__ == 'VOpt' else x      # specs are read on the paths where the value exists


def _matches(E, st, p, v):
    p, v = _unopt(p), _unopt(v)
    return VBool(re_search(pat_search(re_compile(p.z)), v.z))


def _searcher(E, st, p):
    p = _unopt(p)
    return VObj('Search', pat_search(re_compile(p.z)))


SPEC = ("((exists(j, Int, 0 <= j and j < len(patterns) and not patterns[j].startswith('!') and matches(patterns[j], v))"
        " or (len(patterns) > 0 and forall(j, Int, implies(0 <= j and j < len(patterns), patterns[j].startswith('!')))))"
        " and not exists(j, Int, 0 <= j and j < len(patterns) and patterns[j].startswith('!') and matches(patterns[j][1:], v)))")

BUILD = {
    'property': ['C08'],
    'params': {'patterns': 'List[Str]'},
    'returns': 'Accept',
    'requires': [],
    'modifies': [],
    'locals': {'selected': 'List[Search]', 'unselected': 'List[Search]'},
    'ensures': [
        # names contain at least one non-newline character (type invariant of test ids, module and layer names)
        "forall(v, Str, implies(matches('.', v), iff(result(v), " + SPEC + ")))",
    ],
    'loops': {
        '#loop1': [
            "forall(s, Int, implies(0 <= s and s < len(selected), exists(j, Int, 0 <= j and j < _i and"
            " not patterns[j].startswith('!') and selected[s] == searcher(patterns[j]))))",
            "forall(j, Int, implies(0 <= j and j < _i and not patterns[j].startswith('!'),"
            " exists(s, Int, 0 <= s and s < len(selected) and selected[s] == searcher(patterns[j]))))",
            "forall(s, Int, implies(0 <= s and s < len(unselected), exists(j, Int, 0 <= j and j < _i and"
            " patterns[j].startswith('!') and unselected[s] == searcher(patterns[j][1:]))))",
            "forall(j, Int, implies(0 <= j and j < _i and patterns[j].startswith('!'),"
            " exists(s, Int, 0 <= s and s < len(unselected) and unselected[s] == searcher(patterns[j][1:]))))",
        ],
    },
}


def register(E):
    E.load_sidecar(os.path.join(HERE, 'common.py'))
    E.global_rules['re.compile'] = _compile
    E.objattrs[('Pat', 'search')] = lambda eng, st, o: VObj('Search', pat_search(o.z))
    E.callable_sorts['Search'] = lambda eng, st, f, args: VBool(re_search(f.z, args[0].z))
    E.callable_sorts['Accept'] = lambda eng, st, f, args: VBool(acc(f.z, args[0].z))
    E.specfuncs['matches'] = _matches
    E.specfuncs['searcher'] = _searcher
    E.assumptions.append("T4: re.compile(p).search(v) is a pure, total predicate M(p, v) of pattern text and value "
                         "(invalid regular expressions raise at compile time, before any selection happens)")
    E.add_contract('filter.build_filtering_func', BUILD)
