"""C17 (counting part): XMLOutputFormattingWrapper._record keeps, per suite, errors / failures equal to the number of
recorded test cases carrying an error / a failure, and records exactly one case per call."""
import ast
import os
import z3
from pyvc.vals import VObj, VBool, VInt, VOpt, VNone, VTup, VRef, HList, HRec, NONE, usort, fresh_name
from pyvc.state import fresh_val, fresh_hlist

HERE = os.path.dirname(os.path.abspath(__file__))
Case = usort('CaseInfo')
I, Bo = z3.IntSort(), z3.BoolSort()
CARR = z3.ArraySort(I, Case)
has_err = z3.Function('case_has_error', Case, Bo)
has_fail = z3.Function('case_has_failure', Case, Bo)
cnt_err = z3.Function('count_errors', CARR, I, I)
cnt_fail = z3.Function('count_failures', CARR, I, I)


def count_axioms():
    a, b = z3.Consts('a b', CARR)
    n, i = z3.Ints('n i')
    ax = []
    for cnt, pred in ((cnt_err, has_err), (cnt_fail, has_fail)):
        ax += [
            z3.ForAll([a], cnt(a, 0) == 0),
            z3.ForAll([a, n], z3.Implies(n >= 0, cnt(a, n + 1) == cnt(a, n) + z3.If(pred(z3.Select(a, n)), 1, 0)),
                      patterns=[cnt(a, n + 1)]),
            # the count of the first n cases does not depend on what is stored at position n
            z3.ForAll([a, n, z3.Const('c', Case)], cnt(z3.Store(a, n, z3.Const('c', Case)), n) == cnt(a, n)),
        ]
    return ax


def parser_rule(E, st, node, args, kws, k):
    """parser(test): a (suite, name, class) triple or (None, None, None)"""
    out = []
    s2 = st.copy()
    s2.path.append('parser:none')
    out += k(s2, VTup([NONE, NONE, NONE]))
    st.path.append('parser:triple')
    return out + k(st, VTup([fresh_val(('obj', 'Str'), 'suite', st), fresh_val(('obj', 'Str'), 'name', st),
                             fresh_val(('obj', 'Str'), 'cls', st)]))
parser_rule.__name__ = 'parser(test): a name triple, or (None, None, None) when the parser does not apply'


def setdefault_rule(E, st, node, args, kws, k):
    """self._testSuites.setdefault(name, TestSuiteInfo()): the info object of that suite -- an arbitrary one that
    satisfies the counting invariant (the only mutation site is the function under contract) -- or a new empty one."""
    cases = st.alloc(fresh_hlist(('obj', 'CaseInfo'), 'cases', st))
    h = st.heap[cases.rid]
    rec = st.alloc(HRec('formatter.TestSuiteInfo', {'testCases': cases, 'errors': VInt(cnt_err(h.arr, h.n)),
                                                    'failures': VInt(cnt_fail(h.arr, h.n)),
                                                    'time': fresh_val(('real',), 'time', st)}))
    st.ghost['suite_before'] = VInt(h.n)
    return k(st, rec)
setdefault_rule.__name__ = 'self._testSuites.setdefault(...): a suite info satisfying the invariant errors == #error cases, failures == #failure cases'
setdefault_rule.modifies = ['G.suite_before']


def caseinfo_rule(E, st, node, args, kws, k):
    c = z3.Const(fresh_name('case'), Case)
    failure, error = args[4], args[5]

    def notnone(v):
        return z3.Not(v.isnone) if isinstance(v, VOpt) else z3.BoolVal(not isinstance(v, VNone))
    st.assume(has_fail(c) == notnone(failure))
    st.assume(has_err(c) == notnone(error))
    return k(st, VObj('CaseInfo', c))
caseinfo_rule.__name__ = 'TestCaseInfo(test, seconds, cls, name, failure, error): a case carrying a failure / an error iff given'


def _cnt(f):
    def g(E, st, L):
        h = st.heap[L.rid]
        return VInt(f(h.arr, h.n))
    return g


RECORD = {
    'property': ['C17'],
    'params': {'test': 'Any', 'seconds': 'real', 'failure': 'Opt[Any]', 'error': 'Opt[Any]'},
    'self_fields': {'_testSuites': 'Any'},
    'ghost': {'suite_before': 'int'},
    'requires': [],
    'modifies': ['G.suite_before'],
    'ensures': [
        "len(suite.testCases) == G.suite_before + 1",                               # exactly one test case per recorded result
        "suite.errors == count_errors(suite.testCases)",                             # attributes == element counts
        "suite.failures == count_failures(suite.testCases)",
        "has_failure(suite.testCases[G.suite_before]) == (failure is not None)",
        "has_error(suite.testCases[G.suite_before]) == (error is not None)",
    ],
    'raises': {'TypeError': []},          # unknown test type
    'unroll': ['#loop1'],
    'rules': {'parser': parser_rule, 'self._testSuites.setdefault': setdefault_rule, 'TestCaseInfo': caseinfo_rule,
              'TestSuiteInfo': 'fresh:Any'},
}


def syntactic(E):
    w, _, src = E.find_def('formatter.XMLOutputFormattingWrapper.writeXMLReports')
    E.syntactic_obligation("writeXMLReports takes tests/errors/failures attributes from the suite info and writes one testcase per recorded case",
                           all(t in src for t in ("testSuiteNode.set('tests', str(suite.tests))", "testSuiteNode.set('errors', str(suite.errors))",
                                                  "testSuiteNode.set('failures', str(suite.failures))", "for testCase in suite.testCases:")),
                           props=('C17',))
    E.syntactic_obligation("writeXMLReports replaces characters XML cannot represent in every attribute and text (xml_safe over the whole tree)",
                           'for node in testSuiteNode.iter():' in src and 'xml_safe(v)' in src and 'xml_safe(node.text)' in src,
                           props=('C17',))
    for m in ('test_success', 'test_failure', 'test_error'):
        f, _, s2 = E.find_def('formatter.XMLOutputFormattingWrapper.' + m)
        E.syntactic_obligation("XMLOutputFormattingWrapper.%s records the result exactly once" % m, s2.count('self._record(') == 1,
                               props=('C17',))
    S = z3.String('S')
    # leaf lemma on the regular expression of xml_safe is left to the bounded oracle (character classes)


def register(E):
    E.load_sidecar(os.path.join(HERE, 'common.py'))
    E.records['formatter.XMLOutputFormattingWrapper'] = {}
    E.axioms += count_axioms()
    E.specfuncs.update({'count_errors': _cnt(cnt_err), 'count_failures': _cnt(cnt_fail),
                        'has_failure': lambda eng, st, c: VBool(has_fail(c.z)),
                        'has_error': lambda eng, st, c: VBool(has_err(c.z))})
    for name in ('parse_doc_file_case', 'parse_doc_test_case', 'parse_manuel', 'parse_startup_failure', 'parse_unittest'):
        E.globals['formatter.' + name] = lambda eng, st, n=name: VObj('Any', z3.Const('parser_' + n, usort('Any')))
    E.assumptions += [
        "every suite info stored in _testSuites satisfies the counting invariant when _record starts (the function under "
        "contract is its only mutation site: induction over the call history)",
        "well-formedness: ElementTree escapes & < > \" and xml_safe removes what XML cannot represent (regular expression "
        "checked by the bounded oracle over hostile strings)",
    ]
    syntactic(E)
    E.add_contract('formatter.XMLOutputFormattingWrapper._record', RECORD)
