"""C17 (counting part): XMLOutputFormattingWrapper._record keeps, per suite, errors / failures equal to the number of
recorded test cases carrying an error / a failure, and records exactly one case per call."""
import ast
import os
import z3
from pyvc.vals import VObj, VBool, VInt, VOpt, VNone, VTup, VRef, HList, HRec, NONE, usort, fresh_name
from pyvc.state import fresh_val, fresh_hlist

HERE = os.path.dirname(os.path.abspath(__file__))
Case = usort('CaseInfo')
I, Bo = z3.IntSort(), z3.BoolSort()
CARR = z3.ArraySort(I, Case)
has_err = z3.Function('case_has_error', Case, Bo)
has_fail = z3.Function('case_has_failure', Case, Bo)
cnt_err = z3.Function('count_errors', CARR, I, I)
cnt_fail = z3.Function('count_failures', CARR, I, I)


def count_axioms():
    a, b = z3.Consts('a b', CARR)
    n, i = z3.Ints('n i')
    ax = []
    for cnt, pred in ((cnt_err, has_err), (cnt_fail, has_fail)):
        ax += [
            z3.ForAll([a], cnt(a, 0) == 0),
            z3.ForAll([a, n], z3.Implies(n >= 0, cnt(a, n + 1) == cnt(a, n) + z3.If(pred(z3.Select(a, n)), 1, 0)),
                      patterns=[cnt(a, n + 1)]),
            # the count of the first n cases does not depend on what is stored at position n
            z3.ForAll([a, n, z3.Const('c', Case)], cnt(z3.Store(a, n, z3.Const('c', Case)), n) == cnt(a, n)),
        ]
    return ax


def parser_rule(E, st, node, args, kws, k):
    """parser(test): a (suite, name, class) triple or (None, None, None)"""
    out = []
    s2 = st.copy()
    s2.path.append('parser:none')
    out += k(s2, VTup([NONE, NONE, NONE]))
    st.path.append('parser:triple')
    return out + k(st, VTup([fresh_val(('obj', 'Str'), 'suite', st), fresh_val(('obj', 'Str'), 'name', st),
                             fresh_val(('obj', 'Str'), 'cls', st)]))
parser_rule.__name__ = 'parser(test): a name triple, or (None, None, None) when the parser does not apply'


def setdefault_rule(E, st, node, args, kws, k):
    """self._testSuites.setdefault(name, TestSuiteInfo()): the info object of that suite -- an arbitrary one that
    satisfies the counting invariant (the only mutation site is the function under contract) -- or a new empty one."""
    cases = st.alloc(fresh_hlist(('obj', 'CaseInfo'), 'cases', st))
    h = st.heap[cases.rid]
    rec = st.alloc(HRec('formatter.TestSuiteInfo', {'testCases': cases, 'errors': VInt(cnt_err(h.arr, h.n)),
                                                    'failures': VInt(cnt_fail(h.arr, h.n)),
                                                    'time': fresh_val(('real',), 'time', st)}))
    st.ghost['suite_before'] = VInt(h.n)
    return k(st, rec)
setdefault_rule.__name__ = 'self._testSuites.setdefault(...): a suite info satisfying the invariant errors == #error cases, failures == #failure cases'
setdefault_rule.modifies = ['G.suite_before']


def caseinfo_rule(E, st, node, args, kws, k):
    c = z3.Const(fresh_name('case'), Case)
    failure, error = args[4], args[5]

    def notnone(v):
        return z3.Not(v.isnone) if isinstance(v, VOpt) else z3.BoolVal(not isinstance(v, VNone))
    st.assume(has_fail(c) == notnone(failure))
    st.assume(has_err(c) == notnone(error))
    return k(st, VObj('CaseInfo', c))
caseinfo_rule.__name__ = 'TestCaseInfo(test, seconds, cls, name, failure, error): a case carrying a failure / an error iff given'


def _cnt(f):
    def g(E, st, L):
        h = st.heap[L.rid]
        return VInt(f(h.arr, h.n))
    return g


RECORD = {
    'property': ['C17'],
    'params': {'test': 'Any', 'seconds': 'real', 'failure': 'Opt[Any]', 'error': 'Opt[Any]'},
    'self_fields': {'_testSuites': 'Any'},
    'ghost': {'suite_before': 'int'},
    'requires': [],
    'modifies': ['G.suite_before'],
    'ensures': [
        "len(suite.testCases) == G.suite_before + 1",                               # exactly one test case per recorded result
        "suite.errors == count_errors(suite.testCases)",                             # attributes == element counts
        "suite.failures == count_failures(suite.testCases)",
        "has_failure(suite.testCases[G.suite_before]) == (failure is not None)",
        "has_error(suite.testCases[G.suite_before]) == (error is not None)",
    ],
    'raises': {'TypeError': []},          # unknown test type
    'unroll': ['#loop1'],
    'rules': {'parser': parser_rule, 'self._testSuites.setdefault': setdefault_rule, 'TestCaseInfo': caseinfo_rule,
              'TestSuiteInfo': 'fresh:Any'},
}


def id_rule(E, st, node, args, kws, k):
    v = fresh_val(('opt', ('obj', 'Str')), 'test_id', st)
    st.ghost['tid'] = v
    return k(st, v)
id_rule.__name__ = 'test.id(): the test id, or None (ghost G.tid)'
id_rule.modifies = ['G.tid']


def clsname_rule(E, st, node, args, kws, k):
    v = fresh_val(('obj', 'Str'), 'class_name', st)
    st.ghost['cls'] = v
    return k(st, v)
clsname_rule.__name__ = 'get_test_class_name(case): module.qualname of the test (or of the test a sub-test belongs to) (ghost G.cls)'
clsname_rule.modifies = ['G.cls']


PARSE_UNITTEST = {
    'property': ['C17'],
    'params': {'test': 'Any'},
    'returns': 'Tuple[Opt[Str],Opt[Str],Opt[Str]]',
    'ghost': {'tid': 'Opt[Str]', 'cls': 'Str'},
    'requires': [],
    'modifies': ['G.tid', 'G.cls'],
    'ensures': [
        "iff(result[0] is None, G.tid is None)", "iff(result[1] is None, G.tid is None)", "iff(result[2] is None, G.tid is None)",
        # the suite (= report file) and the classname attribute are the test's own class
        "implies(G.tid is not None, result[0] == G.cls and result[2] == G.cls)",
        # classname + '.' + name is the test id (unittest: id() == strclass(cls) + '.' + method [+ sub-test description])
        "implies(G.tid is not None and G.tid.startswith(G.cls + '.'), dotted(G.cls, result[1]) == G.tid)",
    ],
    'raises': {},
    'rules': {'test.id': id_rule, 'get_test_class_name': clsname_rule},
    'expr_rules': {"getattr(test, 'test_case', test)": 'fresh:Any'},
}


# ---- the test-case loop of writeXMLReports (fragment): what is appended to the tree ---------------------------------
XNode = usort('XNode')
xtag = z3.Function('xml_tag', XNode, usort('Str'))


def element_rule(E, st, node, args, kws, k):
    n = z3.Const(fresh_name('xnode'), XNode)
    st.assume(xtag(n) == args[0].z)
    return k(st, VObj('XNode', n))
element_rule.__name__ = "ElementTree.Element(tag): a new element with that tag"


def append_suite(E, st, node, args, kws, k):
    st.ghost['ncase'] = VInt(st.ghost['ncase'].z + 1)
    return k(st, NONE)
append_suite.__name__ = 'testSuiteNode.append(child): one more child of the testsuite element (ghost G.ncase)'
append_suite.modifies = ['G.ncase']


def append_case(E, st, node, args, kws, k):
    t = xtag(args[0].z)
    st.ghost['nerr'] = VInt(st.ghost['nerr'].z + z3.If(t == E.strlit('error').z, 1, 0))
    st.ghost['nfail'] = VInt(st.ghost['nfail'].z + z3.If(t == E.strlit('failure').z, 1, 0))
    return k(st, NONE)
append_case.__name__ = 'testCaseNode.append(child): an error / failure child of this testcase (ghosts G.nerr, G.nfail)'
append_case.modifies = ['G.nerr', 'G.nfail']


def _raw_noeffect(E, st, node, k):
    return k(st, NONE)
_raw_noeffect.raw = True
_raw_noeffect.__name__ = 'attribute / text of an element: not part of the counting claim (arguments not evaluated)'

# the strings put into attributes and text are not part of the counting claim, but computing them must not raise
# (an exception here loses the report of this suite and of every later one): the statements are executed, with
# str(exc) an arbitrary string -- possibly EMPTY -- and str.split(sep) a list with at least one element
TEXT_STMTS = {t: 'text of the element: a string, not part of the counting claim' for t in (
    "text = errorMessage + '\\n\\n' + stackTrace", "text = f'{errorMessage}\\n\\n{stackTrace}'",
    'errorNode.text = text', 'failureNode.text = text', 'del tb')}


def unpack_excinfo(E, st, e):
    return VTup([fresh_val(('obj', 'Any'), 'exc_type', st), fresh_val(('obj', 'Any'), 'exc_value', st),
                 fresh_val(('obj', 'Any'), 'exc_tb', st)])


def split_rule(E, st, node, args, kws, k):
    L = st.alloc(fresh_hlist(('obj', 'Str'), 'parts', st))
    st.assume(st.heap[L.rid].n >= 1)
    return k(st, L)
split_rule.__name__ = "str.split(sep): a list of strings with at least one element (the only part, possibly '', when sep does not occur)"


def splitlines_rule(E, st, node, args, kws, k):
    return k(st, st.alloc(fresh_hlist(('obj', 'Str'), 'lines', st)))
splitlines_rule.__name__ = "str.splitlines(): a list of strings, EMPTY for the empty string"

CASE_LOOP = {
    'property': ['C17'],
    'fragment': {'find': 'for testCase in suite.testCases:', 'count': 1},
    'params': {'suite': 'Rec[formatter.TestSuiteInfo]', 'testSuiteNode': 'XNode'},
    'self_fields': {},
    'ghost': {'ncase': 'int', 'nerr': 'int', 'nfail': 'int'},
    'requires': [], 'modifies': ['G.ncase', 'G.nerr', 'G.nfail'],
    'ensures': [
        # attributes == element counts: _record keeps suite.tests / errors / failures equal to the numbers on the right
        "G.ncase == old(G.ncase) + len(suite.testCases)",                       # one testcase element per recorded case
        "G.nerr == old(G.nerr) + count_errors(suite.testCases)",                # an error child exactly for the cases with an error
        "G.nfail == old(G.nfail) + count_failures(suite.testCases)",            # a failure child exactly for the cases with a failure
    ],
    'raises': {},
    'callsites': {'testSuiteNode.append': ["tag_of(_arg0) == 'testcase'"],
                  'testCaseNode.append': ["tag_of(_arg0) == 'error' or tag_of(_arg0) == 'failure'"]},
    'loop_anchors': {'#loop3': 'for testCase in suite.testCases:'},      # the label follows the loop, not its ordinal
    'loops': {'#loop3': ["G.ncase == old(G.ncase) + _i", "G.nerr == old(G.nerr) + count_errors_upto(suite.testCases, _i)",
                         "G.nfail == old(G.nfail) + count_failures_upto(suite.testCases, _i)"]},
    'skip_stmts': TEXT_STMTS,
    'rules': {'ElementTree.Element': element_rule, 'testSuiteNode.append': append_suite, 'testCaseNode.append': append_case,
              '*Node.set': 'NOEFFECT', 'str': 'fresh:Str', 'traceback.format_tb': 'fresh:Any', "''.join": 'fresh:Str',
              '*.split': split_rule, '*.splitlines': splitlines_rule},
}


SUITE_TESTS = {        # the `tests` attribute written to the report: one per recorded test case (= testcase element)
    'property': ['C17'],
    'params': {},
    'self_fields': {'testCases': 'List[CaseInfo]', 'errors': 'int', 'failures': 'int'},
    'returns': 'int',
    'requires': [], 'modifies': [],
    'ensures': ["result == len(self.testCases)"],
    'raises': {},
}


# ---- the recording entry points: each reported result is recorded exactly once, with its own failure / error ---------
def record_rule(E, st, node, args, kws, k):
    """self._record(...): one more recorded result (ghost G.nrec); TypeError for an unknown test type (contract of _record)"""
    st.ghost['nrec'] = VInt(st.ghost['nrec'].z + 1)
    s2 = st.copy()
    s2.path.append('_record!TypeError@%s' % node.lineno)
    return E.raise_(s2, 'TypeError') + k(st, NONE)
record_rule.__name__ = 'self._record(test, seconds, failure=, error=): records one result (ghost G.nrec += 1) or raises TypeError (unknown test type) -- the contract proved on _record'
record_rule.modifies = ['G.nrec']

_WRAP = {
    'property': ['C17'],
    'self_fields': {'delegate': 'Output'},
    'ghost': {'nrec': 'int'},
    'requires': [], 'modifies': ['G.nrec'],
    'ensures': ["G.nrec == old(G.nrec) + 1"],                  # recorded exactly once, whatever stdout / stderr are
    'raises': {'TypeError': []},
    'rules': {'self._record': record_rule, 'self.delegate.*': 'NOEFFECT'},
}
WRAP_FAILURE = dict(_WRAP, params={'test': 'Any', 'seconds': 'real', 'exc_info': 'ExcInfo', 'stdout': 'Opt[Str]', 'stderr': 'Opt[Str]'},
                    callsites={'self._record': ["G.nrec == old(G.nrec)", "_arg0 == test", "_arg1 == seconds",
                                                "_kw_failure == exc_info", "not has_kw_error"]})
WRAP_ERROR = dict(_WRAP, params={'test': 'Any', 'seconds': 'real', 'exc_info': 'ExcInfo', 'stdout': 'Opt[Str]', 'stderr': 'Opt[Str]'},
                  callsites={'self._record': ["G.nrec == old(G.nrec)", "_arg0 == test", "_arg1 == seconds",
                                              "_kw_error == exc_info", "not has_kw_failure"]})
WRAP_SUCCESS = dict(_WRAP, params={'test': 'Any', 'seconds': 'real'},
                    callsites={'self._record': ["G.nrec == old(G.nrec)", "_arg0 == test", "_arg1 == seconds",
                                                "not has_kw_failure", "not has_kw_error"]})
WRAP_IMPORT_ERRORS = dict(_WRAP, params={'import_errors': 'List[StartUpFailure]'},
                          ensures=["G.nrec == old(G.nrec) + len(import_errors)"],      # one Startup case per import error
                          callsites={'self._record': ["_arg0 == import_errors[_i]", "_kw_error == exc_info_of(_arg0)",
                                                      "not has_kw_failure"]},
                          loops={'#loop1': ["G.nrec == old(G.nrec) + _i"]})


def syntactic(E):
    w, _, src = E.find_def('formatter.XMLOutputFormattingWrapper.writeXMLReports')
    E.syntactic_obligation("writeXMLReports takes tests/errors/failures attributes from the suite info and writes one testcase per recorded case",
                           all(t in src for t in ("testSuiteNode.set('tests', str(suite.tests))", "testSuiteNode.set('errors', str(suite.errors))",
                                                  "testSuiteNode.set('failures', str(suite.failures))", "for testCase in suite.testCases:")),
                           props=('C17',))
    E.syntactic_obligation("writeXMLReports replaces characters XML cannot represent in every attribute and text (xml_safe over the whole tree)",
                           'for node in testSuiteNode.iter():' in src and 'xml_safe(v)' in src and 'xml_safe(node.text)' in src,
                           props=('C17',))
    calls = [n for n in ast.walk(w) if isinstance(n, ast.Call)]
    tostr = [c for c in calls if ast.unparse(c.func) == 'ElementTree.tostring']
    ascii_only = bool(tostr) and all(not [k for k in c.keywords if k.arg == 'encoding'] for c in tostr)
    opens = [c for c in calls if ast.unparse(c.func) == 'open' or ast.unparse(c.func).endswith('.open')]
    explicit = bool(opens) and all(any(k.arg == 'encoding' for k in c.keywords) for c in opens)
    E.syntactic_obligation("the report text can be written under every locale: it is serialised ASCII-only (ElementTree.tostring "
                           "default, character references) or the file is opened with an explicit encoding",
                           ascii_only or explicit, props=('C17',))
    # frame: the report directory is shared by every process of a run (children started with --resume-layer write the
    # reports of their own tests there): writing the reports removes or renames nothing
    destructive = {'unlink', 'remove', 'rmtree', 'rmdir', 'removedirs', 'rename', 'renames', 'replace', 'move', 'truncate'}
    bad = sorted({ast.unparse(c.func) for c in calls
                  if (isinstance(c.func, ast.Attribute) and c.func.attr in destructive and not
                      (c.func.attr == 'replace' and isinstance(c.func.value, (ast.Constant, ast.Name)) and len(c.args) == 2
                       and all(isinstance(a, ast.Constant) and isinstance(a.value, str) for a in c.args)))
                  or (isinstance(c.func, ast.Name) and c.func.id in destructive)})
    E.syntactic_obligation("writeXMLReports deletes, renames or truncates nothing in the report directory (reports written earlier in "
                           "the same run, by this or by a child process, stay)", not bad, props=('C17',))
    # one report file per suite: the file name is the suite's own name (the key of _testSuites) plus constant text, an
    # injective function of the key -- two suites can never be written to the same file (the later would replace the earlier)
    ok, why = False, 'no loop over self._testSuites.items() with an open(<file name>) in it'
    for loop in [n for n in ast.walk(w) if isinstance(n, ast.For) and ast.unparse(n.iter) == 'self._testSuites.items()'
                 and isinstance(n.target, ast.Tuple) and isinstance(n.target.elts[0], ast.Name)]:
        key = loop.target.elts[0].id
        opened = [c.args[0] for c in ast.walk(loop) if isinstance(c, ast.Call) and c.args
                  and (ast.unparse(c.func) == 'open' or ast.unparse(c.func).endswith('.open'))]
        for arg in opened:
            expr = arg
            if isinstance(arg, ast.Name):
                defs = [a.value for a in ast.walk(loop) if isinstance(a, ast.Assign)
                        and any(isinstance(t, ast.Name) and t.id == arg.id for t in a.targets)]
                expr = defs[0] if len(defs) == 1 else None
            ok, why = _injective_in(expr, key)
            if not ok:
                break
    E.syntactic_obligation("writeXMLReports writes every suite to a file of its own: the file name is the suite name itself plus "
                           "constant text (no two suites share a report file)", ok, detail=why, props=('C17',))
    xml_char_class_lemma(E)


def _injective_in(expr, key):
    """expr is  <dir> / f'<const>{key}<const>'  or  <dir> / (key + '<const>')  (or os.path.join(<dir>, the same))"""
    if expr is None:
        return False, 'the file name is assigned more than once or not in the loop'
    if isinstance(expr, ast.BinOp) and isinstance(expr.op, ast.Div):
        name = expr.right
    elif isinstance(expr, ast.Call) and ast.unparse(expr.func) == 'os.path.join' and len(expr.args) == 2:
        name = expr.args[1]
    else:
        return False, 'file name expression %s is not <directory> / <name>' % ast.unparse(expr)[:60]
    if isinstance(name, ast.JoinedStr):
        fv = [v for v in name.values if isinstance(v, ast.FormattedValue)]
        if len(fv) == 1 and isinstance(fv[0].value, ast.Name) and fv[0].value.id == key and fv[0].conversion == -1 \
                and fv[0].format_spec is None:
            return True, ''
    if isinstance(name, ast.BinOp) and isinstance(name.op, ast.Add) and isinstance(name.left, ast.Name) and name.left.id == key \
            and isinstance(name.right, ast.Constant):
        return True, ''
    return False, 'the file name %s is not the suite name itself plus constant text' % ast.unparse(name)[:60]


def is_xml_char(c):
    """XML 1.0 production [2] Char"""
    return c in (0x9, 0xA, 0xD) or 0x20 <= c <= 0xD7FF or 0xE000 <= c <= 0xFFFD or 0x10000 <= c <= 0x10FFFF


def xml_char_class_lemma(E):
    """Leaf lemma by COMPLETE enumeration of a finite domain (all 1 114 112 code points), on the real pattern text:
    the character class of xml_safe matches exactly the code points that are not XML Chars.  Together with two facts
    decided on the source -- the pattern is one character class without quantifier, the replacement is ASCII text built
    with '\\x%02x' -- every character of xml_safe(s) is an XML Char, for every string s (re.sub replaces each match and
    copies everything else: T4)."""
    import re
    import time
    t0 = time.time()
    tree = E.module('formatter')[0]
    pat = None
    for n in tree.body:
        if isinstance(n, ast.Assign) and any(getattr(t, 'id', None) == '_illegal_xml_chars' for t in n.targets):
            c = n.value
            if isinstance(c, ast.Call) and ast.unparse(c.func) == 're.compile' and len(c.args) == 1 and not c.keywords \
                    and isinstance(c.args[0], ast.Constant) and isinstance(c.args[0].value, str):
                pat = c.args[0].value
    ok, detail = False, 'pattern of _illegal_xml_chars not found as a literal re.compile(...) argument'
    if pat is not None:
        single_class = pat.startswith('[') and pat.endswith(']') and pat.count('[') == 1 and pat.count(']') == 1
        try:
            rx = re.compile(pat)
            bad = [c for c in range(0x110000) if bool(rx.fullmatch(chr(c))) == is_xml_char(c)]
        except re.error as e:
            single_class, bad = False, ['re.error: %s' % e]
        ok = single_class and not bad
        detail = 'single character class: %s; code points on which the class disagrees with "not an XML Char": %s%s' % (
            single_class, [hex(c) if isinstance(c, int) else c for c in bad[:8]], ' ...' if len(bad) > 8 else '')
    fdef, _, src = E.find_def('formatter.xml_safe')
    repl_ok = "_illegal_xml_chars.sub(lambda match: '\\\\x%02x' % ord(match.group()), text)" in ast.unparse(fdef)
    from pyvc.state import Obligation
    ob = Obligation('lemma/xml_safe leaves only XML Chars (character class == complement of Char, all code points enumerated)',
                    'lemma(formatter_c17)', 'lemma', 'xml_safe character class', [], z3.BoolVal(True), '', None, ('C17',))
    ob.status = 'proved' if (ok and repl_ok) else 'failed'
    ob.backend, ob.time = 'enum(1114112 code points)', time.time() - t0
    ob.detail = detail + ('' if repl_ok else '; xml_safe no longer substitutes with the ASCII escape')
    E.lemma_obligations.append(ob)


def register(E):
    E.load_sidecar(os.path.join(HERE, 'common.py'))
    E.records['formatter.XMLOutputFormattingWrapper'] = {}
    E.axioms += count_axioms()
    E.specfuncs.update({'count_errors': _cnt(cnt_err), 'count_failures': _cnt(cnt_fail),
                        'has_failure': lambda eng, st, c: VBool(has_fail(c.z)),
                        'has_error': lambda eng, st, c: VBool(has_err(c.z))})
    for name in ('parse_doc_file_case', 'parse_doc_test_case', 'parse_manuel', 'parse_startup_failure', 'parse_unittest'):
        E.globals['formatter.' + name] = lambda eng, st, n=name: VObj('Any', z3.Const('parser_' + n, usort('Any')))
    E.assumptions += [
        "every suite info stored in _testSuites satisfies the counting invariant when _record starts (the function under "
        "contract is its only mutation site: induction over the call history)",
        "well-formedness: ElementTree escapes & < > \" and xml_safe removes what XML cannot represent (regular expression "
        "checked by the bounded oracle over hostile strings)",
    ]
    syntactic(E)
    from pyvc.strlemma import pyslice
    Str = usort('Str')
    S_, C_ = z3.String('S'), z3.String('C')
    s_, c_ = z3.Consts('s c', Str)
    cat = z3.Function('str_concat__Str_Str', Str, Str, Str)
    sl = z3.Function('str_slice_v_N_N__Str_Int', Str, I, Str)
    ln = z3.Function('str_len__Str', Str, I)
    sw = z3.Function('str_startswith__Str_Str', Str, Str, Bo)
    dot = E.strlit('.').z
    E.prove_string_lemma("s.startswith(c + '.')  =>  c + '.' + s[len(c) + 1:] == s",
                         z3.Implies(z3.PrefixOf(z3.Concat(C_, z3.StringVal('.')), S_),
                                    z3.Concat(z3.Concat(C_, z3.StringVal('.')),
                                              z3.SubString(S_, z3.Length(C_) + 1, z3.Length(S_))) == S_),
                         z3.ForAll([s_, c_], z3.Implies(sw(s_, cat(c_, dot)), cat(cat(c_, dot), sl(s_, ln(c_) + 1)) == s_)),
                         props=('C17',))
    def _dotted(eng, st, c, n):
        n = n.inner if isinstance(n, VOpt) else n
        if isinstance(n, VNone):
            return VObj('Str', z3.Const('undefined_str', Str))       # only on paths where the clause is vacuous
        return VObj('Str', cat(cat(c.z, dot), n.z))
    E.specfuncs['dotted'] = _dotted
    E.records['formatter.TestSuiteInfo'] = {'testCases': 'List[CaseInfo]', 'errors': 'int', 'failures': 'int'}
    ExcInfo = usort('ExcInfo')
    E.truthy_sorts['ExcInfo'] = 'always'          # an exc_info triple is a non-empty tuple
    ei = z3.Function('case_exc_info', Case, ExcInfo)
    E.objattrs[('CaseInfo', 'error')] = lambda eng, st, c: VOpt(z3.Not(has_err(c.z)), VObj('ExcInfo', ei(c.z)))
    E.objattrs[('CaseInfo', 'failure')] = lambda eng, st, c: VOpt(z3.Not(has_fail(c.z)), VObj('ExcInfo', ei(c.z)))
    E.unpack_sorts['ExcInfo'] = unpack_excinfo
    E.objattrs[('CaseInfo', 'testClassName')] = 'Str'
    E.objattrs[('CaseInfo', 'testName')] = 'Str'
    E.objattrs[('CaseInfo', 'time')] = 'real'
    E.specfuncs.update({
        'tag_of': lambda eng, st, n: VObj('Str', xtag(n.z)),
        'count_errors_upto': lambda eng, st, L, i: VInt(cnt_err(st.heap[L.rid].arr, i.z)),
        'count_failures_upto': lambda eng, st, L, i: VInt(cnt_fail(st.heap[L.rid].arr, i.z))})
    E.assumptions.append("writeXMLReports (test-case loop): a recorded error / failure is an exc_info triple, hence truthy; the "
                         "strings put into attributes and text are outside this contract (sanitised afterwards, see the xml_safe lemma)")
    E.add_contract('formatter.XMLOutputFormattingWrapper.writeXMLReports', CASE_LOOP)
    E.add_contract('formatter.TestSuiteInfo.tests', SUITE_TESTS)
    E.add_contract('formatter.parse_unittest', PARSE_UNITTEST)
    E.add_contract('formatter.XMLOutputFormattingWrapper._record', RECORD)
    sfx = z3.Function('startup_failure_exc_info', usort('StartUpFailure'), ExcInfo)
    E.objattrs[('StartUpFailure', 'exc_info')] = lambda eng, st, t: VObj('ExcInfo', sfx(t.z))
    E.specfuncs['exc_info_of'] = lambda eng, st, t: VObj('ExcInfo', sfx(t.z))
    W = 'formatter.XMLOutputFormattingWrapper.'
    E.add_contract(W + 'test_failure', WRAP_FAILURE)
    E.add_contract(W + 'test_error', WRAP_ERROR)
    E.add_contract(W + 'test_success', WRAP_SUCCESS)
    E.add_contract(W + 'import_errors', WRAP_IMPORT_ERRORS)
