"""C03 / C09: which tests are selected -- Filter.global_setup, find_tests, Listing (tests_from_suite is in find_c09.py)."""
import ast
import os
import z3
from pyvc.vals import VObj, VBool, VInt, VTup, VRef, HList, HDict, NONE, usort, fresh_name, sort_of, to_z3

HERE = os.path.dirname(os.path.abspath(__file__))

# the predicate of C08 over an arbitrary pattern list P and name v (text of filter_c08.SPEC with the list substituted)
ACCEPTED = lambda P, v: (
    "((exists(j, Int, 0 <= j and j < len({P}) and not {P}[j].startswith('!') and matches({P}[j], {v}))"
    " or (len({P}) > 0 and forall(j, Int, implies(0 <= j and j < len({P}), {P}[j].startswith('!')))))"
    " and not exists(j, Int, 0 <= j and j < len({P}) and {P}[j].startswith('!') and matches({P}[j][1:], {v})))"
).format(P=P, v=v)

T = "self.runner.tests_by_layer_name"
O = "self.runner.options"
UNIT = "'zope.testrunner.layer.UnitTests'"
LAYERPAT = O + ".layer"
# the statement of C09: -f drops the unit layer; --layer patterns apply to it like to any other layer name
KEPT = lambda n: ("(old({n} in {T}) and implies({n} == {U}, not {O}.non_unit)"
                  " and implies(len({L}) > 0, {A}))").format(n=n, T=T, U=UNIT, O=O, L=LAYERPAT, A=ACCEPTED(LAYERPAT, n))
KEPT_CHILD = lambda n: ("(old({n} in {T}) and {n} == {O}.resume_layer and implies({n} == {U}, not {O}.non_unit"
                        " and implies(len({L}) > 0, {A})))").format(n=n, T=T, U=UNIT, O=O, L=LAYERPAT,
                                                                     A=ACCEPTED(LAYERPAT, n))
VALUES_SAME = "forall(n, Str, implies(n in {T}, {T}[n] == old({T})[n]))".format(T=T)

FILTER_SETUP = {
    'property': ['C03', 'C09', 'C02'],
    'params': {},
    'self_fields': {'runner': 'Rec[FilterRunner]'},
    'locals': {'layers': 'Dict[Str,Suite]'},
    'requires': [
        # names contain a non-newline character (type invariant of layer names; see C08)
        "forall(n, Str, implies(n in %s, matches('.', n)))" % T, "matches('.', %s)" % UNIT,
    ],
    'modifies': [T, 'self.runner.errors'],
    'ensures': [
        # parent process: a layer stays registered iff the unit switch and the --layer patterns select it
        "implies(%s.resume_layer is None, forall(n, Str, iff(n in %s, %s)))" % (O, T, KEPT('n')),
        # child process: only the resumed layer stays
        "implies(%s.resume_layer is not None, forall(n, Str, iff(n in %s, %s)))" % (O, T, KEPT_CHILD('n')),
        VALUES_SAME,                                                   # the suites themselves are not touched
        # C02: a child whose layer is not there records exactly one error
        "len(self.runner.errors) == old(len(self.runner.errors)) + ite(%s.resume_layer is not None and"
        " forall(n, Str, n not in %s), 1, 0)" % (O, T),
    ],
    'raises': {},
    'callsites': {
        # a registered layer is dropped only for one of the three reasons the statement knows
        'layers.pop': ["(_arg0 == %s and (%s.non_unit or (len(%s) > 0 and not %s)))"
                       " or (%s.resume_layer is not None and _arg0 != %s.resume_layer)"
                       " or (%s.resume_layer is None and len(%s) > 0 and not %s)"
                       % (UNIT, O, LAYERPAT, ACCEPTED(LAYERPAT, UNIT), O, O, O, LAYERPAT, ACCEPTED(LAYERPAT, '_arg0'))],
    },
    'loops': {
        '#loop1': [      # child: the names visited so far are gone unless they are the resumed layer
            "forall(n, Str, iff(n in %s, pre(n in %s, '#loop1') and"
            " implies(exists(j, Int, 0 <= j and j < _i and _it[j] == n), n == %s.resume_layer)))" % (T, T, O),
            VALUES_SAME, "len(self.runner.errors) == old(len(self.runner.errors))",
            "forall(j, Int, implies(0 <= j and j < len(_it), pre(_it[j] in %s, '#loop1')))" % T,
        ],
        '#loop2': [      # parent with --layer: the names visited so far are gone unless accepted
            "forall(n, Str, iff(n in %s, pre(n in %s, '#loop2') and"
            " implies(exists(j, Int, 0 <= j and j < _i and _it[j] == n), %s)))" % (T, T, ACCEPTED(LAYERPAT, 'n')),
            VALUES_SAME, "len(self.runner.errors) == old(len(self.runner.errors))",
            "forall(n, Str, implies(n in %s, matches('.', n)))" % T,
            "forall(j, Int, implies(0 <= j and j < len(_it), pre(_it[j] in %s, '#loop2')))" % T,
        ],
    },
}


# ---- find_tests: every selected (test, layer) pair, in discovery order, goes into the suite of its own layer ----------
I, Bo = z3.IntSort(), z3.BoolSort()


def allpre_axioms(c9):
    """ALL(found, k, P) = FLAT(found[0]) ++ ... ++ FLAT(found[k-1]), each from the defaults (level 1, unit-test layer)"""
    Node, PAIR = c9.Node, c9.PAIR
    ARR = z3.ArraySort(I, Node)
    PS = [I, Bo, I, c9.OACC]
    all_len = z3.Function('ALL_len', ARR, I, *(PS + [I]))
    all_arr = z3.Function('ALL_arr', ARR, I, *(PS + [z3.ArraySort(I, PAIR)]))
    f = z3.Const('f', ARR)
    k, i, at, ov = z3.Ints('k i at ov')
    on = z3.Bool('on')
    acc = z3.Const('acc', c9.OACC)
    P = [at, on, ov, acc]
    UT = z3.Const('UnitTestsLayer', c9.LRef)
    prev = [z3.Select(f, k - 1), z3.IntVal(1), UT] + P
    ax = [
        z3.ForAll([f, k] + P, all_len(f, k, *P) >= 0),
        z3.ForAll([f] + P, all_len(f, 0, *P) == 0),
        z3.ForAll([f, k] + P, z3.Implies(k >= 1, all_len(f, k, *P) == all_len(f, k - 1, *P) + c9.flat_len(*prev)),
                  patterns=[all_len(f, k, *P)]),
        z3.ForAll([f, k, i] + P, z3.Implies(z3.And(k >= 1, 0 <= i, i < all_len(f, k, *P)),
                                            z3.Select(all_arr(f, k, *P), i) ==
                                            z3.If(i < all_len(f, k - 1, *P), z3.Select(all_arr(f, k - 1, *P), i),
                                                  z3.Select(c9.flat_arr(*prev), i - all_len(f, k - 1, *P)))),
                  patterns=[z3.Select(all_arr(f, k, *P), i)]),
    ]
    return ax, all_len, all_arr


def make_ALL(c9, all_len, all_arr):
    def _ALL(E, st, found, k, options, accept):
        h = st.heap[found.rid]
        A = [h.arr, k.z] + c9._params(E, st, options, accept)
        return st.alloc(HList(c9.PAIR_T, all_arr(*A), all_len(*A)))
    return _ALL


def new_suite_rule(E, st, node, args, kws, k):
    """unittest.TestSuite(): a new object, different from every suite created before (allocation counter)"""
    TS = usort('TSuite')
    sid = z3.Function('suite_id', TS, I)
    s_ = z3.Const(fresh_name('newsuite'), TS)
    n = st.ghost['nalloc']
    st.assume(sid(s_) == n.z)
    st.ghost['nalloc'] = VInt(n.z + 1)
    return k(st, VObj('TSuite', s_))
new_suite_rule.__name__ = 'unittest.TestSuite(): a fresh object (ghost allocation counter G.nalloc)'
new_suite_rule.modifies = ['G.nalloc']


def add_test_rule(E, st, node, args, kws, k):
    """suite.addTest(test): ghost log of placements G.placed += [(suite, test, layer_name)]"""
    E.list_append(st.ghost['placed'], VTup([st.lookup('suite'), args[0], st.lookup('layer_name')]), st)
    return k(st, NONE)
add_test_rule.__name__ = 'suite.addTest(test): appends the test to that suite (ghost log G.placed)'
add_test_rule.modifies = ['G.placed']

ALLK = lambda k: "ALL(found_suites, %s, options, test_accept)" % k
PLACED_OK = ("forall(i, Int, implies(0 <= i and i < len(G.placed), G.placed[i][2] in suites and"
             " suites[G.placed[i][2]] == G.placed[i][0]))")
# no empty suite: every registered name has a placement (explicit witness: the index of its first placement, ghost G.widx)
KEYS_USED = ("forall(n, Opt[LayerRef], implies(n in suites, n in G.widx and 0 <= G.widx[n] and G.widx[n] < len(G.placed) and"
             " G.placed[G.widx[n]][2] == n))")
FRESH = "forall(n, Opt[LayerRef], implies(n in suites, suite_id(suites[n]) < G.nalloc))"
INJ = "forall(n, Opt[LayerRef], m, Opt[LayerRef], implies(n in suites and m in suites and n != m, suites[n] != suites[m]))"
NODUPES = "forall(x, Str, x not in dupe_ids)"

FT_COMMON = {
    'property': ['C03'],
    'params': {'options': 'Rec[FindOptions]', 'found_suites': 'Opt[List[Node]]'},
    'returns': 'Dict[Opt[LayerRef],TSuite]',
    'ghost': {'placed': 'List[Tuple[TSuite,Node,Opt[LayerRef]]]', 'nalloc': 'int', 'widx': 'Dict[Opt[LayerRef],int]'},
    'ghost_code': {'suite = suites[layer_name] = unittest.TestSuite()': ['G.widx[layer_name] = len(G.placed)']},
    'locals': {'suites': 'Dict[Opt[LayerRef],TSuite]', 'dupe_ids': 'Set[Str]'},
    'requires': ["len(G.placed) == 0"],
    'modifies': ['G.placed', 'G.nalloc', 'G.widx'],
    'raises': {'DuplicateTestIDError': []},
    'rules': {
        'remove_stale_bytecode': 'NOEFFECT',          # under contract in the C15 check
        'unittest.TestSuite': new_suite_rule, 'suite.addTest': add_test_rule,
        'find_suites': 'fresh:List[Node]',            # discovery: under contract in the C14 check; any list of suites here
        'sorted': 'fresh:List[Str]', "'\\n  '.join": 'fresh:Str',
    },
    'expr_rules': {"['Duplicate test IDs found:'] + sorted(dupe_ids)": 'fresh:List[Str]'},
}
FLAT_IT = ["_it2 == FLAT(found_suites[_i1], 1, UnitTestsRef(), options, test_accept)", "0 <= _i1 and _i1 < len(found_suites)"]

# two contracts on the same function (views), each with the invariants its own claims need: small queries stay fast
FIND_TESTS = dict(FT_COMMON, **{       # where the tests go: the suite registered under the test's own layer name
    'ensures': [PLACED_OK.replace('suites', 'result'), INJ.replace('suites', 'result'),
                "forall(n, Opt[LayerRef], implies(n in result, exists(i, Int, 0 <= i and i < len(G.placed) and G.placed[i][2] == n)))"],
    'callsites': {'suite.addTest': ["layer_name in suites", "suites[layer_name] == suite"]},
    'loops': {'#loop1': [PLACED_OK, INJ, KEYS_USED, FRESH],
              '#loop2': {'scratch': ['suite'], 'inv': [PLACED_OK, INJ, KEYS_USED, FRESH]}},
})
FIND_TESTS_ORDER = dict(FT_COMMON, **{  # which tests, how often, in which order: exactly FLAT(s1) ++ ... ++ FLAT(sk)
    'ensures': [
        "len(G.placed) == len(%s)" % ALLK('len(found_suites)'),
        "forall(i, Int, implies(0 <= i and i < len(G.placed), G.placed[i][1] == %s[i][0] and G.placed[i][2] == %s[i][1]))"
        % (ALLK('len(found_suites)'), ALLK('len(found_suites)')),
    ],
    'loops': {
        '#loop1': [
            "implies(%s, len(G.placed) == len(%s))" % (NODUPES, ALLK('_i')),
            "implies(%s, forall(i, Int, implies(0 <= i and i < len(G.placed), G.placed[i][1] == %s[i][0] and"
            " G.placed[i][2] == %s[i][1])))" % (NODUPES, ALLK('_i'), ALLK('_i')),
        ],
        '#loop2': {'scratch': ['suite'], 'inv': [
            "implies(%s, len(G.placed) == len(%s) + _i2)" % (NODUPES, ALLK('_i1')),
            "implies(%s, forall(i, Int, implies(0 <= i and i < len(G.placed), G.placed[i][1] == %s[i][0] and"
            " G.placed[i][2] == %s[i][1])))" % (NODUPES, ALLK('_i1 + 1'), ALLK('_i1 + 1')),
        ] + FLAT_IT},
    },
})


LISTING_SETUP = {
    'property': ['C03'],
    'params': {},
    'self_fields': {'runner': 'Rec[FilterRunner]'},
    'requires': [],
    'modifies': ['self.runner.do_run_tests', 'self.runner.failed'],
    'ensures': ["not self.runner.do_run_tests",          # Runner.run calls run_tests only under do_run_tests
                "not self.runner.failed"],
    'raises': {},
}

LISTING_REPORT = {
    'property': ['C03', 'C10'],
    'params': {},
    'self_fields': {'runner': 'Rec[runner.Runner]'},
    'requires': ["WF()"] ,
    'modifies': [],
    'ensures': [],
    'raises': {},
    'callsites': {
        # the listing shows the groups of ordered_layers() -- the very generator the run loop iterates -- one by one, in order
        'self.runner.options.output.list_of_tests': ["tests == _it[_i][2]", "layer_name == _it[_i][0]"],
    },
    'loops': {'#loop1': []},
}


def register(E):
    E.load_sidecar(os.path.join(HERE, 'common.py'))
    E.load_sidecar(os.path.join(HERE, 'filter_c08.py'))
    c9 = E.load_sidecar(os.path.join(HERE, 'find_c09.py'))
    ax, all_len, all_arr = allpre_axioms(c9)
    E.axioms += ax
    TS = usort('TSuite')
    sid = z3.Function('suite_id', TS, I)
    E.specfuncs.update({'ALL': make_ALL(c9, all_len, all_arr),
                        'suite_id': lambda eng, st, s_: VInt(sid(s_.z)),
                        'UnitTestsRef': lambda eng, st: VObj('LayerRef', z3.Const('UnitTestsLayer', c9.LRef))})
    E.truthy_sorts['TSuite'] = 'always'
    from pyvc.vals import VFunc
    E.globals['find.build_filtering_func'] = lambda eng, st: VFunc('def', qual='filter.build_filtering_func')
    E.records['FindOptions'].update({'test': 'List[Str]', 'module': 'List[Str]'})
    tfs = E.contracts['find.tests_from_suite']
    E.assumptions.append("find_tests: the generator tests_from_suite is consumed as its completed result list; sound for the "
                         "claims on normal return because duplicated ids only grow and a non-empty set ends in "
                         "DuplicateTestIDError")
    E.add_contract('find.find_tests', FIND_TESTS)
    E.add_contract('find.find_tests@order', FIND_TESTS_ORDER)
    ro = E.load_sidecar(os.path.join(HERE, 'runner_order.py'))
    E.contracts['runner.Runner.ordered_layers'].trusted = True      # verified in this check under the runner_order sidecar
    E.contracts['runner.Runner.ordered_layers'].requires = ["WF()"]  # (the name-injectivity assumption is recorded there)
    E.records['runner.Runner'].update({'options': 'Rec[Options]', 'tests_by_layer_name': 'Dict[Str,Suite]'})
    E.records['listing.Listing'] = {}
    E.add_contract('listing.Listing.global_setup', LISTING_SETUP)
    E.add_contract('listing.Listing.report', LISTING_REPORT)
    E.records['FilterOptions'] = {'non_unit': 'bool', 'layer': 'List[Str]', 'resume_layer': 'Opt[Str]', 'verbose': 'int',
                                  'all': 'bool', 'only_level': 'Opt[int]', 'at_level': 'int', 'output': 'Output'}
    E.records['FilterRunner'] = {'tests_by_layer_name': 'Dict[Str,Suite]', 'options': 'Rec[FilterOptions]',
                                 'errors': 'List[Tuple[Any,Any]]', 'failures': 'List[Tuple[Any,Any]]', 'do_run_tests': 'bool', 'failed': 'bool'}
    E.records['filter.Filter'] = {}
    E.truthy_sorts['Suite'] = 'always'
    E.assumptions += [
        "options.layer is modelled as a list of patterns (get_options turns it into a dict whose keys are the patterns; "
        "None and the empty list are both 'no --layer option')",
    ]
    E.add_contract('filter.Filter.global_setup', FILTER_SETUP)
