"""Contracts for runner.TestResult (typestate of DESIGN.md 4.5) and the unittest call protocol harness (4.4).

Carries C04 (no add*/startTest/stopTest raises under the protocol), C05 (per-test layer hooks bracket every test),
C13 (std streams), C16 (shouldStop), C12 (counters), C19 (thread report)."""
import os
import z3
from pyvc.vals import VObj, VBool, VInt, VOpt, VRef, VNone, NONE, HList, HRec, usort, fresh_name, VExc
from pyvc.state import fresh_val, fresh_hlist

HERE = os.path.dirname(os.path.abspath(__file__))
Stream = usort('Stream')
isbuf_f = z3.Function('isbuf', Stream, z3.BoolSort())
Test = usort('Test')
count_f = z3.Function('countTestCases', Test, z3.IntSort())

LISTS = 'List[Tuple[Any,Any]]'
SELF = {
    'options': 'Rec[Options]', 'layers': 'List[Layer]', 'count': 'int', 'testsRun': 'int', 'shouldStop': 'bool',
    'failures': LISTS, 'errors': LISTS, 'skipped': LISTS, 'unexpectedSuccesses': 'List[Any]',
    'expectedFailures': LISTS,
    '_stdout_buffer': 'Opt[Stream]', '_stderr_buffer': 'Opt[Stream]',
    '_original_stdout': 'Stream', '_original_stderr': 'Stream',
    '_test_state': 'Any', '_threads': 'List[Thread]', '_start_time': 'real',
}
DYNAMIC = ('_test_state', '_threads', '_start_time')
GHOST = {'stdout': 'Stream', 'stderr': 'Stream', 'tsu': 'bool', 'bad': 'int', 'cap_out': 'Opt[Str]', 'cap_err': 'Opt[Str]',
         'hookexc': 'bool',      # hookexc: a per-test layer hook has raised (then the run is aborted by design)
         # C19: nsnap counts the thread snapshots taken (calls of threadsupport.enumerate()), thr_last is the latest one,
         # nthr counts the "left new threads behind" reports
         'nsnap': 'int', 'thr_last': 'List[Thread]', 'nthr': 'int'}
SNAP_NOW = "G.nsnap == old(G.nsnap) + 1 and same_threads(self._threads, G.thr_last)"      # the snapshot is taken in this call

B = "self.options.buffer"
BUF = ("(self._stdout_buffer is not None and self._stderr_buffer is not None and"
       " G.stdout == self._stdout_buffer and G.stderr == self._stderr_buffer)")
ORIG = "(G.stdout == self._original_stdout and G.stderr == self._original_stderr)"
# class invariant: the capture buffers, once made, are buffer objects different from the original streams;
# the layer list is duplicate free and bases first (established by __init__)
CI = [
    "implies(self._stdout_buffer is not None, isbuf(self._stdout_buffer) and self._stdout_buffer != self._original_stdout)",
    "implies(self._stderr_buffer is not None, isbuf(self._stderr_buffer) and self._stderr_buffer != self._original_stderr)",
    "distinct(self.layers)", "bases_first(self.layers)",
]
SOK = "(" + ORIG + " or (" + B + " and " + BUF + "))"       # the std streams are the originals, or (--buffer) the capture buffers
FRAME_STREAMS = ["self._original_stdout == old(self._original_stdout)", "self._original_stderr == old(self._original_stderr)"]


def method(d):
    d = dict(d)
    d.setdefault('self_fields', SELF)
    d.setdefault('dynamic', DYNAMIC)
    d.setdefault('ghost', GHOST)
    d['requires'] = CI + d.get('requires', [])
    d['ensures'] = CI + FRAME_STREAMS + d.get('ensures', [])
    return d


MAKE_STREAM = {     # assumed (io.TextIOWrapper over BytesIO): a fresh object with getvalue()
    'property': ['C13'], 'trusted': True, 'params': {}, 'self_fields': SELF, 'dynamic': DYNAMIC, 'ghost': GHOST,
    'returns': 'Stream',
    'requires': [], 'modifies': [],
    'ensures': ["isbuf(result)", "result != self._original_stdout", "result != self._original_stderr",
                "result != G.stdout", "result != G.stderr"],
}

SETUP_STREAMS = method({
    'property': ['C13', 'C18'], 'params': {},
    'modifies': ['self._stdout_buffer', 'self._stderr_buffer', 'G.stdout', 'G.stderr'],
    'ensures': ["implies(" + B + ", " + BUF + ")",
                "implies(not " + B + ", G.stdout == old(G.stdout) and G.stderr == old(G.stderr))"],
    'raises': {},
})

def syntactic_streams(E):
    """decided on the real source (the capture stream class is built inside _makeBufferedStdStream; its io behaviour is
    an assumed contract, these are the two facts of that contract the properties lean on)"""
    import ast
    fdef, _, src = E.find_def('runner.TestResult._makeBufferedStdStream')
    ok = False
    for n in ast.walk(fdef):
        if isinstance(n, ast.Call) and isinstance(n.func, ast.Attribute) and n.func.attr == 'decode':
            kw = {k.arg: k.value for k in n.keywords}
            e = kw.get('errors')
            # 'surrogateescape' / 'surrogatepass' never raise while decoding either, but they smuggle lone surrogates into the
            # text, and the formatter then writes that text to the real (strict) stdout: UnicodeEncodeError aborts the run
            ok = isinstance(e, ast.Constant) and e.value in ('backslashreplace', 'replace', 'ignore')
    E.syntactic_obligation("the capture stream's getvalue() decodes with an error handler that never raises and yields text every "
                           "text stream can encode again (undecodable bytes written by a test must not abort the run)", ok,
                           props=('C13', 'C04'))
    # the captured text is complete: every write reaches the underlying BytesIO at once (write_through) or getvalue() flushes
    cls = [n for n in ast.walk(fdef) if isinstance(n, ast.ClassDef)]
    names = {c.name for c in cls}
    ctor = [n for n in ast.walk(fdef) if isinstance(n, ast.Call) and isinstance(n.func, ast.Name) and n.func.id in names]
    wt = bool(ctor) and all(any(k.arg == 'write_through' and isinstance(k.value, ast.Constant) and k.value.value is True
                                for k in c.keywords) for c in ctor)
    flushes = False
    for c in cls:
        for m in c.body:
            if isinstance(m, ast.FunctionDef) and m.name == 'getvalue':
                calls = [ast.unparse(x.func) for x in ast.walk(m) if isinstance(x, ast.Call)]
                flushes = 'self.flush' in calls and calls.index('self.flush') < min(
                    [i for i, t in enumerate(calls) if t.endswith('getvalue')] or [10 ** 6])
    E.syntactic_obligation("the capture stream hands out everything written so far: it is created write-through, or its getvalue() "
                           "flushes first (text without a trailing newline must not stay in the wrapper)", wt or flushes,
                           props=('C13',))
    tree = E.module('threadsupport')[0]
    cls = [n for n in ast.walk(tree) if isinstance(n, ast.ClassDef) and n.name == 'ThreadProxy']
    eq_ok = hash_ok = False
    if cls:
        meths = {m.name: m for m in cls[0].body if isinstance(m, ast.FunctionDef)}
        eq = meths.get('__eq__')
        eq_ok = eq is not None and ast.unparse(eq.body[-1]).replace(' ', '') == 'returnself.thread.ident==other.thread.ident'
        h = meths.get('__hash__')
        hash_ok = h is None or ast.unparse(h.body[-1]).replace(' ', '') == 'returnhash(self.thread.ident)'
    E.syntactic_obligation("ThreadProxy compares by ident and defines no hash that disagrees with it (snapshots are "
                           "compared by ident whatever container holds them)", eq_ok and hash_ok, props=('C19',))


def _set_put(st, g, z, val):
    from pyvc.vals import HDict
    ref = st.ghost[g]
    h = st.heap[ref.rid]
    st.heap[ref.rid] = HDict(h.kt, h.vt, z3.Store(h.mem, z, z3.BoolVal(val) if isinstance(val, bool) else val), h.vals)


def _set_has(st, g, z):
    return z3.Select(st.heap[st.ghost[g].rid].mem, z)


def stream_getvalue(E, st, recv, node, args, kws, k):
    """stream.getvalue(): AttributeError unless the stream is a capture buffer; whatever the test wrote is in it -- the
    buffer is in use (dirty, not rewound)"""
    def after(s2):
        if 'dirty' in s2.ghost:
            _set_put(s2, 'dirty', recv.z, True)
            _set_put(s2, 'rewound', recv.z, False)
        return k(s2, fresh_val(('obj', 'Str'), 'captured', s2))
    return E.guard(st, _isbuf(E, st, recv).z, 'AttributeError', 'getvalue', node, after)
stream_getvalue.__name__ = 'stream.getvalue(): AttributeError unless a capture buffer; marks it as written to (ghost G.dirty)'
stream_getvalue.modifies = ['G.dirty', 'G.rewound']


def stream_seek(E, st, recv, node, args, kws, k):
    if E.const_int(args[0]) != 0:
        raise Exception("seek to a non-zero offset is not modelled")
    if 'rewound' in st.ghost:
        _set_put(st, 'rewound', recv.z, True)
    return k(st, NONE)
stream_seek.__name__ = 'buffer.seek(0): position := 0 (ghost G.rewound)'
stream_seek.modifies = ['G.rewound']


def stream_truncate(E, st, recv, node, args, kws, k):
    if E.const_int(args[0]) != 0:
        raise Exception("truncate to a non-zero size is not modelled")
    # io semantics: truncate(0) empties the buffer but leaves the position where it was; the buffer is clean (empty
    # and positioned at 0, so the next capture starts with exactly what is written) only if it was rewound before
    if 'dirty' in st.ghost:
        _set_put(st, 'dirty', recv.z, z3.And(_set_has(st, 'dirty', recv.z), z3.Not(_set_has(st, 'rewound', recv.z))))
    return k(st, NONE)
stream_truncate.__name__ = 'buffer.truncate(0): size := 0, position unchanged; clean iff rewound before (ghost G.dirty)'
stream_truncate.modifies = ['G.dirty']


RESTORE_STREAMS = method({
    'property': ['C04', 'C13', 'C18'], 'params': {},
    'returns': 'Tuple[Opt[Str],Opt[Str]]',
    'requires': [],                  # callable in every state: a second result event of one test finds the originals installed
    'modifies': ['G.stdout', 'G.stderr', 'G.cap_out', 'G.cap_err', 'G.dirty', 'G.rewound'],
    'ghost': dict(GHOST, dirty='Set[Stream]', rewound='Set[Stream]'),
    'ghost_exit': {'cap_out': '_ret[0]', 'cap_err': '_ret[1]'},
    'ensures': ["implies(old(" + SOK + "), " + ORIG + ")",
                # C13: a capture buffer that is taken out of service is left empty AND rewound, so that the next test's
                # captured text is exactly what that test writes (io: truncate() alone keeps the old position)
                "implies(G.stdout != old(G.stdout), old(G.stdout) not in G.dirty)",
                "implies(G.stderr != old(G.stderr), old(G.stderr) not in G.dirty)",
                "implies(not " + B + ", G.stdout == old(G.stdout) and G.stderr == old(G.stderr))",
                "result[0] == G.cap_out and result[1] == G.cap_err",
                "self._stdout_buffer == old(self._stdout_buffer) and self._stderr_buffer == old(self._stderr_buffer)"],
    'raises': {},
})

TEST_SETUP = method({
    'property': ['C05'], 'params': {},
    'requires': ["not G.tsu"],
    'modifies': ['G.tsu', 'G.hookexc'],
    'ghost_exit': {'tsu': 'True'}, 'ghost_exit_on_raise': True,      # G.tsu: the testSetUp phase was entered
    'ensures': ["G.tsu", "G.stdout == old(G.stdout) and G.stderr == old(G.stderr)", "G.hookexc == old(G.hookexc)"],
    # a raising per-test hook aborts the run by design (C18's subject)
    'raises': {'Exception': ["G.tsu", "G.hookexc", "G.stdout == old(G.stdout) and G.stderr == old(G.stderr)"],
               'OtherBase': ["G.tsu", "G.hookexc", "G.stdout == old(G.stdout) and G.stderr == old(G.stderr)"]},
    'callsites': {'layer.testSetUp()': ["layer == self.layers[_i]"]},       # list order == bases first (CI)
    'loops': {'#loop1': ["G.stdout == old(G.stdout) and G.stderr == old(G.stderr)", "G.hookexc == old(G.hookexc)"]},
})

TEST_TEARDOWN = method({
    'property': ['C05'], 'params': {},
    # balance: testTearDown only after the matching testSetUp of the same test
    'requires': ["G.tsu"],
    'modifies': ['G.tsu', 'G.hookexc'],
    'ghost_exit': {'tsu': 'False'}, 'ghost_exit_on_raise': True,
    'ensures': ["not G.tsu", "G.stdout == old(G.stdout) and G.stderr == old(G.stderr)", "G.hookexc == old(G.hookexc)"],
    'raises': {'Exception': ["not G.tsu", "G.hookexc", "G.stdout == old(G.stdout) and G.stderr == old(G.stderr)"],
               'OtherBase': ["not G.tsu", "G.hookexc", "G.stdout == old(G.stdout) and G.stderr == old(G.stderr)"]},
    # exact reverse of the testSetUp order
    'callsites': {'layer.testTearDown()': ["layer == self.layers[len(self.layers) - 1 - _i]"]},
    'loops': {'#loop1': ["G.stdout == old(G.stdout) and G.stderr == old(G.stderr)", "G.hookexc == old(G.hookexc)"]},
})

STARTED = "hasattr(self, '_test_state')"
TIMED = "hasattr(self, '_start_time')"
LISTS_SAME = ("len(self.failures) == old(len(self.failures)) and len(self.errors) == old(len(self.errors)) and"
              " len(self.unexpectedSuccesses) == old(len(self.unexpectedSuccesses)) and G.bad == old(G.bad)")

START_TEST = method({
    'property': ['C05', 'C12', 'C13', 'C19'], 'params': {'test': 'Test'},
    'requires': ["not G.tsu", ORIG],
    'modifies': ['self._test_state', 'self.testsRun', 'self._threads', 'self._start_time', 'self._stdout_buffer',
                 'self._stderr_buffer', 'G.stdout', 'G.stderr', 'G.tsu', 'G.hookexc', 'G.nsnap', 'G.thr_last'],
    'ensures': [STARTED, TIMED, "hasattr(self, '_threads')", "G.tsu", "G.hookexc == old(G.hookexc)",
                SNAP_NOW,                     # C19: the threads that exist when the test starts are recorded now, afresh
                "implies(" + B + ", " + BUF + ")", "implies(not " + B + ", " + ORIG + ")",
                "self.testsRun == old(self.testsRun) + count(test)",          # C12: testsRun adjusted by countTestCases
                LISTS_SAME, "self.shouldStop == old(self.shouldStop)"],
    # only from per-test layer hooks; the streams have not been swapped yet
    'raises': {'Exception': [STARTED, "G.tsu", "G.hookexc", ORIG, LISTS_SAME] + CI,
               'OtherBase': [STARTED, "G.tsu", "G.hookexc", ORIG, LISTS_SAME] + CI},
})

BAD_EVENT_POST = [
    ORIG,
    "G.bad == old(G.bad) + 1",
    "len(self.failures) + len(self.errors) + len(self.unexpectedSuccesses) =="
    " old(len(self.failures) + len(self.errors) + len(self.unexpectedSuccesses)) + 1",
    # C16: a recorded bad outcome requests the stop
    "implies(self.options.stop_on_error and not self.options.post_mortem, self.shouldStop)",
    "implies(old(self.shouldStop), self.shouldStop)",
    "self.testsRun == old(self.testsRun)", "G.tsu == old(G.tsu)", STARTED + " == old(" + STARTED + ")", TIMED,
]
EVENT_REQ = [SOK, TIMED]
EVENT_MOD = ['self.failures', 'self.errors', 'self.unexpectedSuccesses', 'self.shouldStop', 'G.stdout', 'G.stderr',
             'G.cap_out', 'G.cap_err', 'G.bad']
REPORT_SITE = ["stdout == G.cap_out and stderr == G.cap_err"]      # C13: the captured text goes to this test's report
PM_RAISES = {'EndRun': ["self.options.post_mortem", ORIG, "G.bad == old(G.bad) + 1", "G.tsu == old(G.tsu)",
                        STARTED + " == old(" + STARTED + ")", TIMED, "G.hookexc == old(G.hookexc)",
                        "hasattr(self, '_threads') == old(hasattr(self, '_threads'))"] + CI + FRAME_STREAMS}

ADD_ERROR = method({
    'property': ['C04', 'C12', 'C13', 'C16'], 'params': {'test': 'Test', 'exc_info': 'Any'},
    'requires': EVENT_REQ, 'modifies': EVENT_MOD, 'ensures': BAD_EVENT_POST + ["len(self.errors) == old(len(self.errors)) + 1"],
    'raises': PM_RAISES,
    'callsites': {'self.options.output.test_error': REPORT_SITE},
})
ADD_FAILURE = method({
    'property': ['C04', 'C12', 'C13', 'C16'], 'params': {'test': 'Test', 'exc_info': 'Any'},
    'requires': EVENT_REQ, 'modifies': EVENT_MOD, 'ensures': BAD_EVENT_POST + ["len(self.failures) == old(len(self.failures)) + 1"],
    'raises': PM_RAISES,
    'callsites': {'self.options.output.test_failure': REPORT_SITE},
})
ADD_UNEXPECTED = method({
    'property': ['C04', 'C12', 'C13', 'C16'], 'params': {'test': 'Test'},
    # only unittest's TestCase.run calls this; under --post-mortem the runner uses test.debug() instead (run_tests),
    # where the call `post_mortem(exc_info)` with its undefined name would raise NameError
    'requires': EVENT_REQ + ["not self.options.post_mortem"], 'modifies': EVENT_MOD,
    'ensures': BAD_EVENT_POST + ["len(self.unexpectedSuccesses) == old(len(self.unexpectedSuccesses)) + 1"],
    'raises': PM_RAISES,
    'callsites': {'self.options.output.test_error': REPORT_SITE},
})
ADD_SUBTEST = method({
    'property': ['C04', 'C12', 'C13', 'C16'], 'params': {'test': 'Test', 'subtest': 'Test', 'exc_info': 'Opt[Any]'},
    'requires': [SOK, TIMED],
    'modifies': EVENT_MOD,
    'ensures': ["implies(exc_info is not None, " + " and ".join("(%s)" % e for e in BAD_EVENT_POST) + ")",
                "implies(exc_info is None, G.stdout == old(G.stdout) and G.stderr == old(G.stderr) and " + LISTS_SAME +
                " and self.shouldStop == old(self.shouldStop) and self.testsRun == old(self.testsRun) and G.tsu == old(G.tsu)"
                " and " + STARTED + " == old(" + STARTED + ") and " + TIMED + ")"],
    'raises': PM_RAISES,
    'callsites': {'report': REPORT_SITE},
    'expr_rules': {'issubclass(exc_info[0], test.failureException)': 'fresh:bool'},
})
GOOD_EVENT_POST = [
    ORIG,
    LISTS_SAME, "self.shouldStop == old(self.shouldStop)", "self.testsRun == old(self.testsRun)", "G.tsu == old(G.tsu)",
    STARTED + " == old(" + STARTED + ")", TIMED,
]
GOOD_MOD = ['self.expectedFailures', 'G.stdout', 'G.stderr', 'G.cap_out', 'G.cap_err']
ADD_SUCCESS = method({
    'property': ['C04', 'C13'], 'params': {'test': 'Test'},
    'requires': EVENT_REQ, 'modifies': GOOD_MOD, 'ensures': GOOD_EVENT_POST, 'raises': {},
})
ADD_EXPECTED = method({
    'property': ['C04', 'C13'], 'params': {'test': 'Test', 'exc_info': 'Any'},
    'requires': EVENT_REQ, 'modifies': GOOD_MOD, 'ensures': GOOD_EVENT_POST, 'raises': {},
})
ADD_SKIP = method({
    'property': ['C04', 'C05', 'C12', 'C13', 'C19'], 'params': {'test': 'Test', 'reason': 'Str'},
    # started: like any other event.  not started (decorator skip, unittest >= 3.12.1): the fallback prepares the per-test state
    'requires': [SOK, "implies(" + STARTED + ", " + TIMED + " and hasattr(self, '_threads'))",
                 "implies(not " + STARTED + ", not G.tsu)"],
    'modifies': ['self._test_state', 'self.testsRun', 'self._threads', 'self._start_time', 'self.skipped',
                 'G.stdout', 'G.stderr', 'G.cap_out', 'G.cap_err', 'G.tsu', 'G.hookexc', 'G.nsnap', 'G.thr_last'],
    'ensures': [STARTED, TIMED, "hasattr(self, '_threads')", "G.hookexc == old(G.hookexc)",
                # C19: a skip that arrives without startTest starts the test: its snapshot is taken now, afresh (never one left
                # over from an earlier test); a skip inside a started test leaves the snapshot alone
                "implies(not old(" + STARTED + "), " + SNAP_NOW + ")",
                "implies(old(" + STARTED + "), G.nsnap == old(G.nsnap) and same_threads(self._threads, old(self._threads)))",
                "implies(old(" + STARTED + "), " + ORIG + " and self.testsRun == old(self.testsRun) and G.tsu == old(G.tsu))",
                "implies(not old(" + STARTED + "), G.stdout == old(G.stdout) and G.stderr == old(G.stderr))",
                "implies(not old(" + STARTED + "), self.testsRun == old(self.testsRun) + count(test))",
                "implies(not old(" + STARTED + "), G.tsu)",            # C05: stopTest's testTearDown will have its testSetUp
                "len(self.skipped) == old(len(self.skipped)) + 1",
                LISTS_SAME, "self.shouldStop == old(self.shouldStop)"],
    # only from per-test layer hooks (fallback path)
    'raises': {'Exception': ["not old(" + STARTED + ")", STARTED, TIMED, "hasattr(self, '_threads')", "G.tsu", "G.hookexc", LISTS_SAME,
                             "G.stdout == old(G.stdout) and G.stderr == old(G.stderr)"] + CI,
               'OtherBase': ["not old(" + STARTED + ")", STARTED, TIMED, "hasattr(self, '_threads')", "G.tsu", "G.hookexc", LISTS_SAME,
                             "G.stdout == old(G.stdout) and G.stderr == old(G.stderr)"] + CI},
})

STOP_TEST = method({
    'property': ['C04', 'C05', 'C13', 'C18', 'C19'], 'params': {'test': 'Test'},
    'requires': [STARTED, SOK, "G.tsu"],
    'modifies': ['self._test_state', 'G.tsu', 'G.stdout', 'G.stderr', 'G.cap_out', 'G.cap_err', 'G.hookexc', 'G.nsnap', 'G.thr_last',
                 'G.nthr'],
    'locals': {'new_threads': 'List[Thread]'},
    'ensures': ["not " + STARTED, "not G.tsu", "G.hookexc == old(G.hookexc)",
                # C19, completeness: the end snapshot is taken in this call, and the report is made exactly when it holds a
                # thread that is alive, was not in the start snapshot and matches no ignore pattern (and then once)
                "G.nsnap == old(G.nsnap) + 1",
                "G.nthr == old(G.nthr) + ite(exists(x, Thread, x in G.thr_last and is_alive(x) and x not in self._threads"
                " and not ignored(self, x)), 1, 0)",
                ORIG,                                            # C13/C18: between tests the std streams are the originals
                LISTS_SAME, "self.shouldStop == old(self.shouldStop)", "self.testsRun == old(self.testsRun)"],
    # only from per-test layer hooks: the streams are restored before the hooks run (C18)
    'raises': {'Exception': [ORIG, "not G.tsu", "G.hookexc", LISTS_SAME] + CI, 'OtherBase': [ORIG, "not G.tsu", "G.hookexc", LISTS_SAME] + CI,
               # the thread snapshot is missing only when startTest was aborted by a raising testSetUp hook
               'AttributeError': [ORIG, "not G.tsu", "not old(hasattr(self, '_threads'))", "G.hookexc == old(G.hookexc)",
                                  LISTS_SAME] + CI},
    'callsites': {
        # C19: reported iff non-empty, and exactly: alive, not in the start snapshot, matching no ignore pattern
        'self.options.output.test_threads': [
            "_arg0 == test", "same_threads(_arg1, new_threads)", "same_threads(_it2, G.thr_last)",
            "len(new_threads) > 0",
            "forall(x, Thread, iff(x in new_threads, x in _it2 and is_alive(x) and x not in self._threads and not ignored(self, x)))",
        ],
    },
    'loops': {
        '#loop1': [],
        '#loop2': [
            "forall(x, Thread, iff(x in new_threads, exists(j, Int, 0 <= j and j < _i and _it[j] == x) and"
            " is_alive(x) and x not in self._threads and not ignored(self, x)))",
        ],
    },
    'expr_rules': {'[[repr_lines(o) for o in c] for c in g.sccs()]': 'fresh:List[Any]'},
})


INIT = {
    'property': ['C05', 'C13'],
    'params': {'options': 'Rec[Options]', 'tests': 'Suite', 'layer_name': 'Opt[Str]'},
    'self_fields': SELF, 'dynamic': DYNAMIC, 'ghost': GHOST,
    'locals': {'layers': 'List[Layer]'},
    'requires': ["WF()", "not hasattr(self, '_test_state')"],
    'assigns': {'self.options': 'options'},
    'modifies': [ 'self.layers', 'self.count', 'self.testsRun', 'self.shouldStop', 'self.failures',
                 'self.errors', 'self.skipped', 'self.unexpectedSuccesses', 'self.expectedFailures',
                 'self._stdout_buffer', 'self._stderr_buffer', 'self._original_stdout', 'self._original_stderr'],
    'ensures': CI + [
        # C05: the per-test hook list is exactly the test layer and its transitive bases, bases first, once each
        "forall(x, Layer, implies(x in self.layers, isanc(x, layer_of(layer_name))))",
                "forall(x, Layer, implies(isanc(x, layer_of(layer_name)), x in self.layers))",
        "self._stdout_buffer is None and self._stderr_buffer is None",
        ORIG, "G.stdout == old(G.stdout) and G.stderr == old(G.stderr)",          # C13: __init__ does not touch the streams
        "self.testsRun == 0 and not self.shouldStop and len(self.failures) == 0 and len(self.errors) == 0"
        " and len(self.skipped) == 0 and len(self.unexpectedSuccesses) == 0",
        "not hasattr(self, '_test_state')",
        "self.count >= 0", "self.options == options",
    ],
    'raises': {},
    'loops': {'#loop1': ["count >= 0"]},
}


# ------------------------------------------------------------------ the unittest call protocol (assumed, DESIGN 4.4)
# Operational contract of unittest.TestCase.run(result) as read from CPython 3.12.1 unittest/case.py: the sequence of
# result-method calls it can make.  It is executed by pyvc against the contracts of the TestResult methods above, so
# "for every history the protocol allows" becomes "for every path of this program" (loops cut at the typestate invariant).
PROTOCOL_SRC = """
def case_run(result, test):
    try:
        if nondet():                                    # class or method skipped by decorator: no startTest (>= 3.12.1)
            result.addSkip(test, any_str())
            return None
        result.startTest(test)
        expecting_failure = nondet()
        success = True
        expected_failure = False
        # ---- setUp
        if nondet():
            if nondet():
                raise KeyboardInterrupt()
            success = False
            if nondet():
                result.addSkip(test, any_str())
            elif nondet():
                result.addFailure(test, any_exc())
            else:
                result.addError(test, any_exc())
        if success:
            # ---- the test method: sub-tests finishing inside the body, then the body's own outcome
            while nondet():
                if nondet():
                    raise KeyboardInterrupt()
                if nondet():
                    result.addSubTest(test, any_test(), None)
                elif nondet():
                    success = False
                    result.addSkip(any_test(), any_str())
                elif expecting_failure:
                    expected_failure = True
                else:
                    success = False
                    result.addSubTest(test, any_test(), any_exc())
            if nondet():
                if nondet():
                    raise KeyboardInterrupt()
                if nondet():
                    success = False
                    result.addSkip(test, any_str())
                elif expecting_failure:
                    expected_failure = True
                else:
                    success = False
                    if nondet():
                        result.addFailure(test, any_exc())
                    else:
                        result.addError(test, any_exc())
            # ---- tearDown
            if nondet():
                if nondet():
                    raise KeyboardInterrupt()
                success = False
                if nondet():
                    result.addSkip(test, any_str())
                elif nondet():
                    result.addFailure(test, any_exc())
                else:
                    result.addError(test, any_exc())
        # ---- cleanups: any number, each may raise
        while nondet():
            if nondet():
                raise KeyboardInterrupt()
            success = False
            if nondet():
                result.addSkip(test, any_str())
            elif nondet():
                result.addFailure(test, any_exc())
            else:
                result.addError(test, any_exc())
        if success:
            if expecting_failure:
                if expected_failure:
                    result.addExpectedFailure(test, any_exc())
                else:
                    result.addUnexpectedSuccess(test)
            else:
                result.addSuccess(test)
        return None
    finally:
        result.stopTest(test)
"""

def R(s):
    return s.replace('self.', 'result.').replace('(self,', '(result,')


BADSUM_R = ("G.bad - old(G.bad) == (len(result.failures) + len(result.errors) + len(result.unexpectedSuccesses))"
            " - old(len(result.failures) + len(result.errors) + len(result.unexpectedSuccesses))")
IDLE = [R("not " + STARTED), "not G.tsu", R(ORIG)]
MID = [R(STARTED), R(TIMED), "hasattr(result, '_threads')", "G.tsu", "not G.hookexc", R(SOK), BADSUM_R, "G.bad >= old(G.bad)",
       "implies(result.options.stop_on_error and not result.options.post_mortem and G.bad > old(G.bad), result.shouldStop)",
       "implies(old(result.shouldStop), result.shouldStop)",
       "result.testsRun == old(result.testsRun) + count(test)",
       "result._original_stdout == old(result._original_stdout) and result._original_stderr == old(result._original_stderr)"]
CASE_RUN = {
    'merge': True,
    'property': ['C04', 'C05', 'C12', 'C13', 'C16', 'C18'],
    'params': {'result': 'Rec[runner.TestResult]', 'test': 'Test'},
    'ghost': GHOST,
    # between tests: no per-test state, hooks balanced, std streams are the originals; unittest only calls
    # test(result) outside --post-mortem mode (run_tests uses test.debug() there)
    'requires': [R(c) for c in CI] + IDLE + ["not result.options.post_mortem", "not G.hookexc"],
    'modifies': ['result.testsRun', 'result.failures', 'result.errors', 'result.skipped', 'result.unexpectedSuccesses',
                 'result.expectedFailures', 'result.shouldStop', 'result._stdout_buffer', 'result._stderr_buffer',
                 'result._test_state', 'result._threads', 'result._start_time',
                 'G.stdout', 'G.stderr', 'G.tsu', 'G.bad', 'G.cap_out', 'G.cap_err', 'G.hookexc', 'G.nsnap', 'G.thr_last', 'G.nthr'],
    'ensures': [R(c) for c in CI] + IDLE + [
        "not G.hookexc",
        BADSUM_R, "G.bad >= old(G.bad)",
        "implies(result.options.stop_on_error and G.bad > old(G.bad), result.shouldStop)",      # C16
        "implies(old(result.shouldStop), result.shouldStop)",
        "result.testsRun == old(result.testsRun) + count(test)",                                # C12
        "result._original_stdout == old(result._original_stdout) and result._original_stderr == old(result._original_stderr)",
    ],
    'raises': {
        # C04: nothing but a KeyboardInterrupt (or an exception of a per-test layer hook, by design) leaves test(result);
        # C13/C18: even then the std streams are the originals again
        # C05: ... and the per-test hooks are balanced (stopTest ran in the outer finally), unless a hook itself raised
        'OtherBase': [R(ORIG), "G.hookexc or not G.tsu"] + [R(c) for c in CI],
        'KeyboardInterrupt': [R(ORIG), "G.hookexc or not G.tsu"] + [R(c) for c in CI],
        'Exception': [R(ORIG), "G.hookexc"] + [R(c) for c in CI],        # only after a per-test layer hook raised
    },
    'loops': {'#loop1': MID + [R(c) for c in CI], '#loop2': MID + [R(c) for c in CI]},
    'rules': {'nondet': 'fresh:bool', 'any_str': 'fresh:Str', 'any_exc': 'fresh:Any', 'any_test': 'fresh:Test'},
}


def per_test(label):
    """invariant of the two per-test loops of run_tests (between two tests)."""
    return ([R(c) for c in CI] + IDLE + [
        "not G.hookexc", "result.options == options",
        "G.bad - pre(G.bad, '%s') == len(result.failures) + len(result.errors) + len(result.unexpectedSuccesses)" % label,
        "G.bad >= pre(G.bad, '%s')" % label,
        "implies(options.stop_on_error and not options.post_mortem and G.bad > old(G.bad), result.shouldStop)",
        "result.testsRun >= 0",
        "G.stdout == old(G.stdout) and G.stderr == old(G.stderr)",
        "result._original_stdout == old(G.stdout) and result._original_stderr == old(G.stderr)",
    ])


def debug_rule(E, st, node, args, kws, k):
    out = []
    for exc in ('KeyboardInterrupt', 'SkipTest', 'OtherException', 'OtherBase'):
        s2 = st.copy()
        s2.path.append('test.debug!%s' % exc)
        out.append((s2, 'raise', VExc(exc)))
    return out + k(st, NONE)
debug_rule.__name__ = 'test.debug(): returns or raises anything; no result-method calls'


def call_protocol(E, st, node, args, kws, k):
    return E.call_contract('unittest_protocol.case_run', None, [args[0], st.lookup('test')], {}, st, node, k)
call_protocol.__name__ = 'test(result) = the unittest call protocol (contract of unittest_protocol.case_run)'
call_protocol.modifies = [m for m in CASE_RUN['modifies']]


def enumerate_rule(E, st, node, args, kws, k):
    L = st.alloc(fresh_hlist(('obj', 'Thread'), 'threads_now', st))
    st.ghost['thr_last'] = L
    st.ghost['nsnap'] = VInt(st.ghost['nsnap'].z + 1)
    return k(st, L)
enumerate_rule.__name__ = 'threadsupport.enumerate(): the threads running now -- any list (ghosts G.thr_last, G.nsnap += 1); its own contract: C19 sidecar'
enumerate_rule.modifies = ['G.thr_last', 'G.nsnap']


def test_threads_rule(E, st, node, args, kws, k):
    st.ghost['nthr'] = VInt(st.ghost['nthr'].z + 1)
    return k(st, NONE)
test_threads_rule.__name__ = 'output.test_threads(test, threads): the "left new threads behind" report (ghost G.nthr += 1)'
test_threads_rule.modifies = ['G.nthr']


def _same_threads(E, st, a, b):
    """two thread lists with the same length and the same elements, position by position"""
    ha, hb = st.heap[a.rid], st.heap[b.rid]
    i = z3.Int(fresh_name('q'))
    return VBool(z3.And(ha.n == hb.n, z3.ForAll([i], z3.Implies(z3.And(0 <= i, i < ha.n), z3.Select(ha.arr, i) == z3.Select(hb.arr, i)))))


def _suite_item(E, st, s, i):
    return VObj('Test', z3.Select(suite_arr(s.z), i.z))


# ------------------------------------------------------------------ rule handlers (assumed behaviour of dependencies)
def _stream_of(st, which):
    return st.ghost[which]


def _isbuf(E, st, x):
    if isinstance(x, VOpt):
        return VBool(z3.And(z3.Not(x.isnone), isbuf_f(x.inner.z)))
    if isinstance(x, VNone):
        return VBool(False)
    return VBool(isbuf_f(x.z))


def getvalue(which):
    def h(E, st, node, args, kws, k):
        s = st.ghost[which]
        ok = _isbuf(E, st, s).z
        return E.guard(st, ok, 'AttributeError', 'getvalue', node, lambda s2: k(s2, fresh_val(('obj', 'Str'), 'captured', s2)))
    h.__name__ = 'sys.%s.getvalue(): AttributeError unless the stream is a capture buffer' % which
    return h


def store_stream(which):
    def h(E, st, target, v, node):
        st.ghost[which] = v
        return E.ok(st)
    h.__name__ = 'sys.%s := value (ghost G.%s)' % (which, which)
    return h


def base_add(listname, bad):
    def h(E, st, node, args, kws, k):
        me = args[0]
        rec = st.heap[me.rid]
        lst = rec.fields[listname]
        hl = st.heap[lst.rid]
        item = fresh_val(hl.et, 'entry', st)
        E.list_append(lst, item, st)
        if bad and 'bad' in st.ghost:
            st.ghost['bad'] = VInt(st.ghost['bad'].z + 1)
        return k(st, NONE)
    h.__name__ = 'unittest.TestResult base method: appends one entry to self.%s' % listname
    h.modifies = ['G.bad']
    return h


def base_addsubtest(E, st, node, args, kws, k):
    """unittest.TestResult.addSubTest with exc_info not None: one entry to failures or errors."""
    me = args[0]
    rec = st.heap[me.rid]
    out = []
    for name in ('failures', 'errors'):
        s2 = st.copy()
        s2.path.append('base.addSubTest->' + name)
        lst = s2.heap[me.rid].fields[name]
        item = fresh_val(s2.heap[lst.rid].et, 'entry', s2)
        E.list_append(lst, item, s2)
        s2.ghost['bad'] = VInt(s2.ghost['bad'].z + 1)
        out += k(s2, NONE)
    return out
base_addsubtest.__name__ = 'unittest.TestResult.addSubTest(exc): appends one entry to self.failures or self.errors'


def base_starttest(E, st, node, args, kws, k):
    me = args[0]
    rec = st.heap[me.rid]
    f = dict(rec.fields)
    f['testsRun'] = VInt(f['testsRun'].z + 1)
    st.heap[me.rid] = HRec(rec.cls, f, rec.present)
    return k(st, NONE)
base_starttest.__name__ = 'unittest.TestResult.startTest: testsRun += 1'


def do_stop(E, st, node, args, kws, k):
    me = st.lookup('self')
    rec = st.heap[me.rid]
    f = dict(rec.fields)
    f['shouldStop'] = VBool(True)
    st.heap[me.rid] = HRec(rec.cls, f, rec.present)
    return k(st, NONE)
do_stop.__name__ = 'unittest.TestResult.stop: shouldStop = True'


def test_hook(name):
    def h(E, st, node, args, kws, k):
        out = []
        for exc in ('OtherException', 'OtherBase'):
            s2 = st.copy()
            s2.path.append('%s!%s' % (name, exc))
            s2.ghost['hookexc'] = VBool(True)
            out.append((s2, 'raise', VExc(exc)))
        return out + k(st, NONE)
    h.modifies = ['G.hookexc']
    h.__name__ = 'HOOK_%s(returns | raises anything); does not touch sys.stdout/sys.stderr' % name
    return h




from contracts.vocab_layers import _layer_of, layer_from_name_rule  # noqa: E402  (moved to vocab_layers.py)


def base_init(E, st, node, args, kws, k):
    me = args[0]
    rec = st.heap[me.rid]
    f = dict(rec.fields)
    f['testsRun'] = VInt(0)
    f['shouldStop'] = VBool(False)
    for name in ('failures', 'errors', 'skipped', 'unexpectedSuccesses', 'expectedFailures'):
        hl = st.heap[f[name].rid]
        f[name] = E.new_list(st, hl.et, [])
    st.heap[me.rid] = HRec(rec.cls, f, rec.present)
    return k(st, NONE)
base_init.__name__ = 'unittest.TestResult.__init__: testsRun = 0, shouldStop = False, all result lists empty'


def _count(E, st, t):
    return VInt(count_f(t.z))


def count_rule(E, st, node, args, kws, k):
    v = st.lookup('test')
    return k(st, VInt(count_f(v.z)))
count_rule.__name__ = 'test.countTestCases(): a pure non-negative function of the test'


suite_arr = z3.Function('suite_tests', usort('Suite'), z3.ArraySort(z3.IntSort(), Test))
suite_len = z3.Function('suite_len', usort('Suite'), z3.IntSort())
is_alive_f = z3.Function('is_alive', usort('Thread'), z3.BoolSort())
tname_f = z3.Function('thread_name', usort('Thread'), usort('Str'))
re_match_f = z3.Function('re_match', usort('Str'), usort('Str'), z3.BoolSort())


def _is_alive(E, st, t):
    return VBool(is_alive_f(t.z))


def _ignored(E, st, me, t):
    """exists p in self.options.ignore_new_threads. re.match(p, t.name)"""
    opts = st.heap[me.rid].fields['options']
    pats = st.heap[opts.rid].fields['ignore_new_threads']
    h = st.heap[pats.rid]
    i = z3.Int(fresh_name('i'))
    return VBool(z3.Exists([i], z3.And(0 <= i, i < h.n, re_match_f(z3.Select(h.arr, i), tname_f(t.z)))))


def register(E):
    E.load_sidecar(os.path.join(HERE, 'common.py'))
    E.load_sidecar(os.path.join(HERE, 'runner_layers.py'))
    E.records['Options'].update({'ignore_new_threads': 'List[Str]'})
    E.objmethods.update({('Stream', 'getvalue'): stream_getvalue, ('Stream', 'seek'): stream_seek,
                         ('Stream', 'truncate'): stream_truncate})
    E.globals['sys.stdout'] = lambda eng, st: st.ghost['stdout']
    E.globals['sys.stderr'] = lambda eng, st: st.ghost['stderr']
    E.global_rules.update({
        'store:sys.stdout': store_stream('stdout'), 'store:sys.stderr': store_stream('stderr'),
        'layer.testSetUp': test_hook('testSetUp'), 'layer.testTearDown': test_hook('testTearDown'),
        'unittest.TestResult.addError': base_add('errors', True),
        'unittest.TestResult.addFailure': base_add('failures', True),
        'unittest.TestResult.addUnexpectedSuccess': base_add('unexpectedSuccesses', True),
        'unittest.TestResult.addExpectedFailure': base_add('expectedFailures', False),
        'unittest.TestResult.addSkip': base_add('skipped', False),
        'unittest.TestResult.addSubTest': base_addsubtest,
        'unittest.TestResult.startTest': base_starttest,
        'unittest.TestResult.__init__': base_init,
        'layer_from_name': layer_from_name_rule,
        'self.stop': do_stop,
        'test.countTestCases': count_rule,
        'test.__dict__.copy': 'fresh:Any', 'test.__dict__.clear': 'NOEFFECT', 'test.__dict__.update': 'NOEFFECT',
        'threadsupport.enumerate': enumerate_rule, 'self.options.output.test_threads': test_threads_rule,
        'zope.testrunner.debug.post_mortem': {'kind': 'noeffect', 'raises': ['EndRun'], 'never_returns': True},
        'report': 'NOEFFECT',
        'gc.get_debug': 'fresh:int', 'gc.set_debug': 'NOEFFECT', 'gc.get_referents': 'fresh:Any',
        'DiGraph': 'fresh:Any', 'g.add_neighbors': 'NOEFFECT',
        't.is_alive': lambda eng, st, node, args, kws, k: k(st, VBool(is_alive_f(st.lookup('t').z))),
        're.match': lambda eng, st, node, args, kws, k: k(st, VBool(re_match_f(args[0].z, args[1].z))),
    })
    E.globals['gc.garbage'] = lambda eng, st: fresh_val(('list', ('obj', 'Any')), 'garbage', st)
    E.globals['gc.DEBUG_SAVEALL'] = 32
    E.objattrs[('Test', '__dict__')] = 'Any'
    E.objattrs[('Thread', 'name')] = lambda eng, st, o: VObj('Str', tname_f(o.z))
    E.truthy_sorts['Test'] = 'always'
    E.axioms.append(z3.ForAll([z3.Const('t', Test)], count_f(z3.Const('t', Test)) >= 0))
    E.iter_sorts['Suite'] = lambda eng, st, o: st.alloc(HList(('obj', 'Test'), suite_arr(o.z), suite_len(o.z)))
    E.axioms.append(z3.ForAll([z3.Const('s', usort('Suite'))], suite_len(z3.Const('s', usort('Suite'))) >= 0))
    E.specfuncs.update({'isbuf': _isbuf, 'count': _count, 'is_alive': _is_alive, 'ignored': _ignored, 'same_threads': _same_threads})
    E.assumptions += [
        "T4: unittest.TestResult base methods append exactly one entry to the respective list / increment testsRun; stop() sets shouldStop",
        "T4: a stream has getvalue() iff it is one of the runner's capture buffers (isbuf); the original std streams may or may not",
        "A-TESTHOOKS: layer.testSetUp()/testTearDown() return or raise anything and do not replace sys.stdout/sys.stderr",
        "G.bad counts bad outcomes: +1 per base addError/addFailure/addUnexpectedSuccess/addSubTest(exc) call",
        "T4: t.is_alive(), t.name and re.match(p, name) are pure within one stopTest call",
    ]
    syntactic_streams(E)
    R = 'runner.TestResult.'
    E.records['runner.TestResult'] = SELF
    E.record_dynamic['runner.TestResult'] = DYNAMIC
    E.add_module('unittest_protocol', PROTOCOL_SRC)
    E.add_contract('unittest_protocol.case_run', CASE_RUN)
    rt = E.contracts['runner.run_tests']
    rt.trusted = False
    rt.loops['#loop2'] = per_test('#loop2')
    rt.loops['#loop3'] = per_test('#loop3')
    rt.rules.update({'test': call_protocol, 'test.debug': debug_rule, 'sys.gettotalrefcount': 'fresh:int',
                     'TrackRefs': 'fresh:Any', 'track.update': 'NOEFFECT', 'store:Any.delta': 'NOEFFECT'})
    rt.expr_rules.update({'sys.exc_info()[:2] + (sys.exc_info()[2].tb_next,)': 'fresh:Any', 'str(e)': 'fresh:Str'})
    E.specfuncs['suite_item'] = _suite_item
    E.add_contract(R + '__init__', INIT)
    E.add_contract(R + '_makeBufferedStdStream', MAKE_STREAM)
    E.add_contract(R + '_setUpStdStreams', SETUP_STREAMS)
    E.add_contract(R + '_restoreStdStreams', RESTORE_STREAMS)
    E.add_contract(R + 'testSetUp', TEST_SETUP)
    E.add_contract(R + 'testTearDown', TEST_TEARDOWN)
    E.add_contract(R + 'startTest', START_TEST)
    E.add_contract(R + 'addError', ADD_ERROR)
    E.add_contract(R + 'addFailure', ADD_FAILURE)
    E.add_contract(R + 'addUnexpectedSuccess', ADD_UNEXPECTED)
    E.add_contract(R + 'addSubTest', ADD_SUBTEST)
    E.add_contract(R + 'addSuccess', ADD_SUCCESS)
    E.add_contract(R + 'addExpectedFailure', ADD_EXPECTED)
    E.add_contract(R + 'addSkip', ADD_SKIP)
    E.add_contract(R + 'stopTest', STOP_TEST)
