"""C13 (the formatter's side): the captured text handed to test_error / test_failure is what print_std_streams gets, and
print_std_streams writes it whole, unmodified, under its heading, to the matching stream.  C07/C13: SubProcess.global_setup
(child process) keeps the original stderr for the report and sends everything else written to stderr to stdout."""
import os
import z3
from pyvc.vals import VObj, VBool, VInt, NONE, usort

HERE = os.path.dirname(os.path.abspath(__file__))


def write_rule(which):
    def h(E, st, node, args, kws, k):
        E.list_append(st.ghost[which], args[0], st)
        return k(st, NONE)
    h.__name__ = 'sys.%s.write(s): appends s to what that stream received (ghost G.%s)' % ('stdout' if which == 'wout' else 'stderr', which)
    h.modifies = ['G.' + which]
    return h


def shown(param, g, head):
    n0 = "old(len(G.%s))" % g
    return [
        "implies(not bool(%s), len(G.%s) == %s)" % (param, g, n0),                       # nothing captured: nothing written
        "implies(bool(%s), len(G.%s) == %s + 3 + ite(%s.endswith('\\n'), 0, 1))" % (param, g, n0, param),
        "implies(bool(%s), G.%s[%s] == '%s:\\n' and G.%s[%s + 1] == %s)" % (param, g, n0, head, g, n0, param),   # heading, then the whole text
        "forall(q, Int, implies(0 <= q and q < %s, G.%s[q] == old(G.%s)[q]))" % (n0, g, g),
    ]


PRINT_STREAMS = {
    'property': ['C13'],
    'params': {'stdout': 'Opt[Str]', 'stderr': 'Opt[Str]'},
    'self_fields': {},
    'ghost': {'wout': 'List[Str]', 'werr': 'List[Str]'},
    'requires': [], 'modifies': ['G.wout', 'G.werr'],
    'ensures': shown('stdout', 'wout', 'Stdout') + shown('stderr', 'werr', 'Stderr'),
    'raises': {},
    'rules': {'sys.stdout.write': write_rule('wout'), 'sys.stderr.write': write_rule('werr')},
}

REPORT_FIELDS = {'verbose': 'int', 'test_width': 'int', 'last_width': 'int'}
SITE = {'self.print_std_streams': ["_arg0 == stdout", "_arg1 == stderr"]}      # this event's captured text, nothing else
TEST_ERROR = {'property': ['C13'], 'params': {'test': 'Any', 'seconds': 'real', 'exc_info': 'Any', 'stdout': 'Opt[Str]', 'stderr': 'Opt[Str]'},
              'self_fields': REPORT_FIELDS, 'requires': [], 'modifies': ['self.test_width', 'self.last_width'], 'ensures': [],
              'raises': {}, 'callsites': SITE,
              'rules': {'print': 'NOEFFECT', 'self.format_seconds_short': 'fresh:Str', 'self.print_traceback': 'NOEFFECT',
                        'self.print_std_streams': 'NOEFFECT'}}
TEST_FAILURE = dict(TEST_ERROR)

CHILD_SETUP = {
    'property': ['C07', 'C13'],
    'params': {},
    'self_fields': {'runner': 'Rec[ChildRunner]', 'original_stderr': 'Stream', 'progress': 'bool'},
    'ghost': {'stdout': 'Stream', 'stderr': 'Stream'},
    'requires': [], 'modifies': ['self.original_stderr', 'self.progress', 'self.runner.options.verbose', 'G.stderr'],
    'ensures': [
        "self.original_stderr == old(G.stderr)",          # the report channel: the stderr the parent reads
        "G.stderr == G.stdout and G.stdout == old(G.stdout)",      # everything tests write to sys.stderr goes to stdout instead
        "implies(self.runner.options.processes > 1, self.runner.options.verbose == 0)",
        "implies(self.runner.options.processes <= 1, self.runner.options.verbose == old(self.runner.options.verbose))",
    ],
    'raises': {},
}


def register(E):
    E.load_sidecar(os.path.join(HERE, 'common.py'))
    E.records['formatter.OutputFormatter'] = {}
    E.records['ChildOptions'] = {'processes': 'int', 'verbose': 'int'}
    E.records['ChildRunner'] = {'options': 'Rec[ChildOptions]'}
    E.records['process.SubProcess'] = {}
    E.globals['sys.stdout'] = lambda eng, st: st.ghost['stdout']
    E.globals['sys.stderr'] = lambda eng, st: st.ghost['stderr']

    def store(which):
        def h(eng, st, target, v, node):
            st.ghost[which] = v
            return eng.ok(st)
        h.__name__ = 'sys.%s := value (ghost G.%s)' % (which, which)
        return h
    E.global_rules.update({'store:sys.stdout': store('stdout'), 'store:sys.stderr': store('stderr')})
    E.assumptions.append("stream.write(s) delivers s to that stream; str.endswith is a pure predicate (formatter_c13)")
    E.add_contract('formatter.OutputFormatter.print_std_streams', PRINT_STREAMS)
    E.add_contract('formatter.OutputFormatter.test_error', TEST_ERROR)
    E.add_contract('formatter.OutputFormatter.test_failure', TEST_FAILURE)
    E.add_contract('process.SubProcess.global_setup', CHILD_SETUP)
