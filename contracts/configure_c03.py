"""C03: the child side of the argv round trip.  spawn_layer_in_subprocess starts the child with
    [exe] + script_parts + ['--resume-layer', name, str(n)] + ['--default', d]* + original_args[1:]
(call-site obligations there); Runner.configure must take exactly that prefix apart again: this fragment contract."""
import os
import z3
from pyvc.vals import VObj, VInt, NONE, usort, fresh_name

HERE = os.path.dirname(os.path.abspath(__file__))
A = "self.args"
OA = "old(self.args)"
K = "len(self.defaults)"

PARSE = {
    'property': ['C03'],
    'fragment': {'start': "if len(self.args) > 1 and self.args[1] == '--resume-layer':", 'end': 'options = get_options('},
    'params': {'self': 'Rec[runner.Runner]'},
    'self_fields': {'args': 'List[Str]', 'defaults': 'List[Str]'},
    'locals': {'resume_layer': 'Opt[Str]', 'resume_number': 'Opt[int]'},
    'requires': [],
    'modifies': ['self.args', 'self.defaults'],
    'ensures': [
        # not a child: nothing is touched
        "implies(not (old(len(self.args)) > 1 and %s[1] == '--resume-layer'), resume_layer is None and len(%s) == old(len(%s))"
        " and forall(q, Int, implies(0 <= q and q < len(%s), %s[q] == %s[q])))" % (OA, A, A, A, A, OA),
        # a child: the layer to run is the word after --resume-layer ...
        "implies(old(len(self.args)) > 1 and %s[1] == '--resume-layer', resume_layer == %s[2])" % (OA, OA),
        # ... the defaults are exactly the words after each --default of the prefix, in order ...
        "implies(old(len(self.args)) > 1 and %s[1] == '--resume-layer', forall(q, Int, implies(0 <= q and q < %s,"
        " %s[4 + 2 * q] == '--default' and self.defaults[q] == %s[5 + 2 * q])))" % (OA, K, OA, OA),
        # ... and what remains is the program name followed by the parent's own arguments, untouched
        "implies(old(len(self.args)) > 1 and %s[1] == '--resume-layer', len(%s) == old(len(%s)) - 3 - 2 * %s and %s[0] == %s[0]"
        " and forall(q, Int, implies(1 <= q and q < len(%s), %s[q] == %s[q + 3 + 2 * %s])))" % (OA, A, A, K, A, OA, A, A, OA, K),
        # the prefix is consumed completely: the first remaining argument is not another --default
        "implies(old(len(self.args)) > 1 and %s[1] == '--resume-layer' and len(%s) > 1, %s[1] != '--default')" % (OA, A, A),
    ],
    # a mangled command line (no name / number after --resume-layer, --default without value, non-numeric number)
    'raises': {'IndexError': [], 'ValueError': []},
    'loops': {
        '#loop1': [
            "old(len(self.args)) > 1 and %s[1] == '--resume-layer'" % OA,
            "resume_layer == %s[2]" % OA,
            "len(%s) == old(len(%s)) - 3 - 2 * %s and len(%s) >= 1" % (A, A, K, A),
            "%s[0] == %s[0]" % (A, OA),
            "forall(q, Int, implies(1 <= q and q < len(%s), %s[q] == %s[q + 3 + 2 * %s]))" % (A, A, OA, K),
            "forall(q, Int, implies(0 <= q and q < %s, %s[4 + 2 * q] == '--default' and self.defaults[q] == %s[5 + 2 * q]))" % (K, OA, OA),
        ],
    },
    'rules': {'int': {'kind': 'fresh', 'type': 'int', 'raises': ['ValueError']}, 'FakeInputContinueGenerator': 'fresh:Any',
              'store:sys.stdin': 'NOEFFECT'},
}


def register(E):
    E.load_sidecar(os.path.join(HERE, 'common.py'))
    E.records.setdefault('runner.Runner', {})
    E.assumptions.append("Runner.configure: only the --resume-layer prefix parse is under contract; get_options and the feature "
                         "list are assumed (feature order: syntactic obligation in the C11 sidecar)")
    E.add_contract('runner.Runner.configure', PARSE)
