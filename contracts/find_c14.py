"""C14: test discovery -- find_test_files (de-duplication), find_suites (module filter before import, errors contained),
strip_py_ext / contains_init_py (leaf specs), find_test_files_ (per-directory decision, pruning, sorted winners)."""
import ast
import os
import z3
from pyvc.vals import VObj, VBool, VInt, VTup, VRef, VOpt, HList, HDict, NONE, usort, fresh_name, sort_of, to_z3

HERE = os.path.dirname(os.path.abspath(__file__))
Str = usort('Str')
I = z3.IntSort()

# ---- find_test_files: each path of the inner generator at its first occurrence only -------------------------------
FIND_FILES = {
    'property': ['C14'],
    'generator': True,
    'params': {'options': 'Rec[DiscOptions]'},
    'returns': 'List[Tuple[Str,Str]]',
    'locals': {'found': 'Dict[Str,int]'},
    'ghost': {'inner': 'List[Tuple[Str,Str]]'},        # what find_test_files_ produced (set by its rule)
    'requires': [],
    'modifies': ['G.inner'],
    'ensures': [
        # loaded once: no path is yielded twice, however the search paths overlap or repeat
        "forall(a, Int, b, Int, implies(0 <= a and a < b and b < len(result), result[a][0] != result[b][0]))",
        # nothing lost: every path the walk produced is yielded
        "forall(q, Int, implies(0 <= q and q < len(G.inner), exists(a, Int, 0 <= a and a < len(result) and result[a][0] == G.inner[q][0])))",
        # nothing invented: every yielded pair is one the walk produced
        "forall(a, Int, implies(0 <= a and a < len(result), exists(q, Int, 0 <= q and q < len(G.inner) and result[a] == G.inner[q])))",
    ],
    'raises': {},
    'loops': {
        '#loop1': [
            "forall(x, Str, iff(x in found, exists(q, Int, 0 <= q and q < _i and _it[q][0] == x)))",
            "forall(a, Int, implies(0 <= a and a < len(G.__yield__), G.__yield__[a][0] in found))",
            "forall(a, Int, b, Int, implies(0 <= a and a < b and b < len(G.__yield__), G.__yield__[a][0] != G.__yield__[b][0]))",
            "forall(q, Int, implies(0 <= q and q < _i, exists(a, Int, 0 <= a and a < len(G.__yield__) and G.__yield__[a][0] == _it[q][0])))",
            "forall(a, Int, implies(0 <= a and a < len(G.__yield__), exists(q, Int, 0 <= q and q < _i and G.__yield__[a] == _it[q])))",
        ],
    },
    'rules': {'find_test_files_': None},      # any sequence of (path, package) pairs (filled in register())
}

# ---- find_suites: the --module filter decides before the import; import / suite errors become StartUpFailure ------
modname = z3.Function('module_name_of', Str, Str, Str, Str)


FIND_SUITES = {
    'property': ['C14', 'C08'],
    'generator': True,
    'params': {'options': 'Rec[DiscOptions]', 'accept': 'Opt[Accept]'},
    'returns': 'List[Node]',
    'ghost': {'imported': 'Set[Str]'},
    'requires': [],
    'modifies': ['G.imported'],
    'ensures': [
        # modules excluded by --module are never imported
        "forall(m, Str, implies(m in G.imported and not old(m in G.imported), accept is None or accept(m)))",
    ],
    # import errors and broken test_suite() functions are reported as StartUpFailure suites; only KeyboardInterrupt leaves
    'raises': {'KeyboardInterrupt': [], 'AssertionError': []},
    'callsites': {
        'import_name': ["accept is None or accept(module_name)",        # the filter has accepted exactly this name
                        "_arg0 == module_name"],
    },
    'loops': {
        '#loop1': ["forall(m, Str, implies(m in G.imported and not old(m in G.imported), accept is None or accept(m)))"],
        '#loop2': ["forall(m, Str, implies(m in G.imported and not old(m in G.imported), accept is None or accept(m)))"],
    },
    'rules': {
        'find_test_files': 'fresh:List[Tuple[Str,Str]]',
        'strip_py_ext': 'fresh:Opt[Str]',
        'import_name': None,           # filled in register()
        'StartUpFailure': 'fresh:Node', 'sys.exc_info': 'fresh:Any',
        'loader.loadTestsFromModule': {'kind': 'fresh', 'type': 'Node', 'raises': ['OtherException', 'OtherBase', 'KeyboardInterrupt']},
        'suite.countTestCases': {'kind': 'fresh', 'type': 'int', 'raises': ['OtherException']},
        'isinstance': lambda E, st, node, args, kws, k: k(st, VBool(z3.Bool(fresh_name('is_suite')))),
        'TypeError': lambda E, st, node, args, kws, k: k(st, __import__('pyvc.vals', fromlist=['VExc']).VExc('TypeError')),
    },
    'expr_rules': {
        'hasattr(module, options.suite_name)': 'fresh:bool',
        'getattr(module, options.suite_name)()': {'type': 'Node', 'raises': ['OtherException', 'OtherBase', 'KeyboardInterrupt']},
        'exc_info[:2] + (exc_info[2].tb_next.tb_next,)': 'fresh:Any',
        'exc_info[:2] + (None,)': 'fresh:Any',
        "'Invalid test_suite, %r, in %s' % (suite, module_name)": 'fresh:Str',
        "'Module %s does not define any tests' % module_name": 'fresh:Str',
        'unittest.defaultTestLoader': 'fresh:Any',
    },
}


# ---- find_test_files_: the per-directory decision ---------------------------------------------------------------
strip_none = z3.Function('strip_py_ext_is_none', z3.BoolSort(), Str, z3.BoolSort())
strip_val = z3.Function('strip_py_ext_value', z3.BoolSort(), Str, Str)
basename_f = z3.Function('os_path_basename', Str, Str)
dirhead_f = z3.Function('os_path_dirhead', Str, Str)
ident_f = z3.Function('is_identifier', Str, z3.BoolSort())
ignored_f = z3.Function('in_IGNORE_FOLDERS', Str, z3.BoolSort())


def strip_rule(E, st, node, args, kws, k):
    uc = st.heap[args[0].rid].fields['usecompiled'].z
    return k(st, VOpt(strip_none(uc, args[1].z), VObj('Str', strip_val(uc, args[1].z))))
strip_rule.__name__ = 'strip_py_ext(options, path): a pure function of (usecompiled, path) -> Optional[str] (own contract below)'


def _strip(E, st, options, f):
    uc = st.heap[options.rid].fields['usecompiled'].z
    return VOpt(strip_none(uc, f.z), VObj('Str', strip_val(uc, f.z)))


def _truthy_str(z):
    return z3.Function('truthy_Str', Str, z3.BoolSort())(z)


def _stem_ok(E, st, options, f):
    """`noext` is truthy: strip_py_ext(file) is neither None nor ''"""
    uc = st.heap[options.rid].fields['usecompiled'].z
    return VBool(z3.And(z3.Not(strip_none(uc, f.z)), _truthy_str(strip_val(uc, f.z))))


def _stem(E, st, options, f):
    uc = st.heap[options.rid].fields['usecompiled'].z
    return VObj('Str', strip_val(uc, f.z))


def split_rule(E, st, node, args, kws, k):
    return k(st, VTup([VObj('Str', dirhead_f(args[0].z)), VObj('Str', basename_f(args[0].z))]))
split_rule.__name__ = 'os.path.split(p) = (head(p), basename(p)), pure'


def yield_obligations(E, st, x):
    """what may be yielded: checked at the yield statement itself"""
    for n, text in enumerate(YIELD_SITE):
        E.oblige(st, 'callsite', 'yield:%d' % n, text, E.ev_spec(text, st), None)
    E.list_append(st.ghost['__yield__'], x, st)
    return E.ok(st)


TD = "(options.tests_pattern(basename(dirname)) and has_init)"
C3 = lambda f: "(stem_ok(options, {f}) and options.test_file_pattern(stem(options, {f})))".format(f=f)
C4 = lambda f: "(stem_ok(options, {f}) and options.tests_pattern(stem(options, {f})))".format(f=f)
KEY = lambda f: "join(dirname, stem(options, %s))" % f
VAL = lambda f: "join(dirname, %s)" % f
# every entry of root2ext belongs to a candidate file seen so far, and carries the path of such a file with that stem
SOUND = lambda seen3, seen4: (
    "forall(x, Str, implies(x in root2ext, exists(j, Int, 0 <= j and j < len(files) and x == {K} and"
    " ((G.td and j < {s3} and {c3}) or (j < {s4} and {c4})))))".format(K=KEY('files[j]'), s3=seen3, s4=seen4,
                                                                    c3=C3('files[j]'), c4=C4('files[j]')))
SOUNDV = lambda seen3, seen4: (
    "forall(x, Str, implies(x in root2ext, exists(j, Int, 0 <= j and j < len(files) and root2ext[x] == {V} and"
    " ((G.td and j < {s3} and {c3}) or (j < {s4} and {c4})))))".format(V=VAL('files[j]'), s3=seen3, s4=seen4,
                                                                    c3=C3('files[j]'), c4=C4('files[j]')))
COMPL3 = lambda seen: ("forall(j, Int, implies(G.td and 0 <= j and j < %s and %s, %s in root2ext))"
                       % (seen, C3('files[j]'), KEY('files[j]')))
COMPL4 = lambda seen: ("forall(j, Int, implies(0 <= j and j < %s and %s, %s in root2ext))"
                       % (seen, C4('files[j]'), KEY('files[j]')))

YIELD_SITE = [
    # only matching files: the yielded path is a file of this directory whose stem matches the tests pattern, or -- in a
    # package directory that itself matches the tests pattern -- the test-file pattern
    "exists(j, Int, 0 <= j and j < len(files) and file == %s and ((G.td and %s) or %s))" % (VAL('files[j]'), C3('files[j]'), C4('files[j]')),
    # sorted by path within the directory, whatever order the file system enumerated
    "_i == 0 or not lt_str(file, _it[_i - 1])",
]

FILES_ = {
    'property': ['C14'],
    'generator': True,
    'params': {'options': 'Rec[DiscOptions]'},
    'returns': 'List[Tuple[Str,Str]]',
    'locals': {'root2ext': 'Dict[Str,Str]', 'winners': 'List[Str]'},
    'yield_handler': yield_obligations,
    'requires': [],
    'modifies': [],
    'ensures': [],
    'raises': {},
    'ghost': {'td': 'bool'},
    'ghost_code': {
        'd = os.path.split(dirname)[1]': ['G.td = bool(tests_pattern(d)) and bool(contains_init_py(options, files))'],
    },
    'callsites': {
        # the tree is walked under the very spelling of the search directory that test_dirs yields: find_suites derives the
        # module name from the prefix table built from those spellings (a file under another spelling matches no prefix
        # and is silently skipped)
        'walk_with_symlinks': ["_arg1 == _it1[_i1][0]"],
        # only directories whose names are identifiers and not ignored are entered (in-place pruning honoured by os.walk)
        'os.path.split': [
            "forall(q, Int, implies(0 <= q and q < len(dirs), is_ident(dirs[q]) and not ignored(dirs[q])))",
            "forall(q, Int, implies(0 <= q and q < len(walkdirs(_it2[_i2])) and is_ident(walkdirs(_it2[_i2])[q]) and"
            " not ignored(walkdirs(_it2[_i2])[q]), walkdirs(_it2[_i2])[q] in dirs))",
        ],
    },
    'loops': {
        '#loop1': [], '#loop2': [],
        '#loop3': [SOUND('_i', '0'), SOUNDV('_i', '0'), COMPL3('_i'), "G.td"],
        '#loop4': [SOUND('len(files)', '_i'), SOUNDV('len(files)', '_i'), COMPL3('len(files)'), COMPL4('_i')],
        '#loop5': [
            # every candidate's stem has its winner among the yielded paths of this directory ...
            "forall(j, Int, implies(0 <= j and j < len(files) and ((G.td and %s) or %s),"
            " exists(w, Int, 0 <= w and w < len(_it) and _it[w] == root2ext[%s])))"
            % (C3('files[j]'), C4('files[j]'), KEY('files[j]')),
            # ... and all winners are yielded, in order
            "len(G.__yield__) == pre(len(G.__yield__), '#loop5') + _i",
            "forall(a, Int, implies(pre(len(G.__yield__), '#loop5') <= a and a < len(G.__yield__),"
            " G.__yield__[a][0] == _it[a - pre(len(G.__yield__), '#loop5')]))",
        ],
    },
    'rules': {'test_dirs': 'fresh:List[Tuple[Str,Str]]', 'strip_py_ext': strip_rule, 'os.path.split': split_rule,
              'walk_with_symlinks': None, 'os.path.join': None},
}
for _k in ('#loop3', '#loop4', '#loop5'):
    FILES_['loops'][_k] = [t.replace(' G.td', ' G.td').replace('(G.td', '(G.td') for t in FILES_['loops'][_k]]
YIELD_SITE[:] = [t.replace(' G.td', ' G.td').replace('(G.td', '(G.td') for t in YIELD_SITE]


HAS_INIT = ("('__init__.py' in fnamelist or (options.usecompiled and ((debug_mode() and '__init__.pyc' in fnamelist)"
            " or (not debug_mode() and '__init__.pyo' in fnamelist))))")

CONTAINS_INIT = {
    'property': ['C14'],
    'params': {'options': 'Rec[DiscOptions]', 'fnamelist': 'List[Str]'},
    'returns': 'bool',
    'requires': [], 'modifies': [],
    'ensures': ["result == %s" % HAS_INIT],       # a package directory: it holds a suitable spelling of __init__.py
    'raises': {},
}

STRIP = {
    'property': ['C14'],
    'params': {'options': 'Rec[DiscOptions]', 'path': 'Str'},
    'returns': 'Opt[Str]',
    'requires': [], 'modifies': [],
    'ensures': [
        # a Python source file -- or, only with --usecompiled, the bytecode spelling this interpreter would load
        "iff(result is not None, path.endswith('.py') or (options.usecompiled and"
        " ((debug_mode() and path.endswith('.pyc')) or (not debug_mode() and path.endswith('.pyo')))))",
        "implies(path.endswith('.py'), result == path[:-3])",
    ],
    'raises': {},
    'expr_rules': {},
}


PREFIX_SORT = {       # second fragment contract on get_options: the prefixes, longest first (first match wins in find_suites)
    'property': ['C14'],
    'fragment': {'start': 'options.prefix = [', 'end': 'if options.all:'},
    'params': {'options': 'Rec[PrefixOptions]'},
    'requires': [],
    'modifies': ['options.prefix'],
    'ensures': [
        "forall(a, Int, b, Int, implies(0 <= a and a < b and b < len(options.prefix),"
        " len(options.prefix[a][0]) >= len(options.prefix[b][0])))",
        "len(options.prefix) == len(options.test_path)",
        "forall(q, Int, implies(0 <= q and q < len(options.test_path), exists(a, Int, 0 <= a and a < len(options.prefix)"
        " and options.prefix[a][0] == options.test_path[q][0] + sep() and options.prefix[a][1] == options.test_path[q][1])))",
    ],
    'raises': {},
}

mod_path_arr = z3.Function('module___path___arr', usort('Module'), z3.ArraySort(I, Str))
mod_path_n = z3.Function('module___path___len', usort('Module'), I)


def testdirs_yield(E, st, x):
    for n, text in enumerate(TESTDIRS_SITE):
        E.oblige(st, 'callsite', 'yield:%d' % n, text, E.ev_spec(text, st), None)
    E.list_append(st.ghost['__yield__'], x, st)
    return E.ok(st)


TESTDIRS_SITE = [
    # with --package only package directories lying under a search prefix are walked, each once
    "p.startswith(prefix) or p == prefix[:-1]",
    "exists(q, Int, 0 <= q and q < len(options.prefix) and options.prefix[q][0] == prefix and options.prefix[q][1] == package)",
    "forall(a, Int, implies(0 <= a and a < len(G.__yield__), G.__yield__[a][0] != p))",
]

TEST_DIRS = {
    'property': ['C14'],
    'generator': True,
    'params': {'options': 'Rec[DirOptions]', 'seen': 'Dict[Str,int]'},
    'returns': 'List[Tuple[Str,Str]]',
    'requires': ["forall(x, Str, x not in seen)"],
    'modifies': ['seen'],
    'ensures': ["implies(len(options.package) == 0, result == options.test_path)"],     # no --package: the search paths
    'raises': {'OtherException': [], 'OtherBase': [], 'KeyboardInterrupt': []},          # importing a --package may fail
    'loops': {
        '#loop1': ["forall(a, Int, implies(0 <= a and a < len(G.__yield__), G.__yield__[a][0] in seen))", "len(options.package) > 0"],
        '#loop2': ["forall(a, Int, implies(0 <= a and a < len(G.__yield__), G.__yield__[a][0] in seen))", "len(options.package) > 0"],
        '#loop3': ["forall(a, Int, implies(0 <= a and a < len(G.__yield__), G.__yield__[a][0] in seen))", "len(options.package) > 0",
                   "p not in seen"],
    },
    'rules': {'import_name': {'kind': 'fresh', 'type': 'Module', 'raises': ['OtherException', 'OtherBase', 'KeyboardInterrupt']},
              'os.path.abspath': 'pure:Str'},
}


def walk_syntactic(E):
    """walk_with_symlinks is an assumed contract (the consumer prunes `dirs` between the yield and the resumption, which the
    generator model cannot express); these facts of it are decided on the real source: dirs and files are sorted, ignored
    directories are removed in place, the triple is yielded BEFORE symlinked sub-directories are followed, and that loop
    iterates the very list object the consumer prunes."""
    fdef, _, src = E.find_def('find.walk_with_symlinks')
    ok = False
    for loop in [n for n in ast.walk(fdef) if isinstance(n, ast.For) and 'os.walk' in ast.unparse(n.iter)]:
        body = loop.body
        texts = [ast.unparse(b) for b in body]
        yi = [i for i, b in enumerate(body) if isinstance(b, ast.Expr) and isinstance(b.value, ast.Yield)
              and ast.unparse(b.value.value).replace(' ', '') in ('(dirpath,dirs,files)', 'dirpath,dirs,files')]
        li = [i for i, b in enumerate(body) if isinstance(b, ast.For) and ast.unparse(b.iter) == 'dirs'
              and 'walk_with_symlinks' in ast.unparse(b)]
        pre = '\n'.join(texts[:yi[0]]) if yi else ''
        ok = (len(yi) == 1 and len(li) == 1 and yi[0] < li[0] and 'dirs.sort()' in pre and 'files.sort()' in pre
              and any(t.startswith('dirs[:] =') and 'ignore_dir' in t for t in texts[:yi[0]])
              and not any('dirs' in t and ('=' in t.split('\n')[0]) for t in texts[yi[0] + 1:li[0]]))
    E.syntactic_obligation("walk_with_symlinks sorts dirs and files, drops ignored directories in place, yields the triple and "
                           "only then follows symlinks among the (consumer-pruned) dirs", ok, props=('C14', 'C15'))


def walk_yield(E, st, x):
    """at `yield (dirpath, dirs, files)`: what the consumer is handed for this directory"""
    for n, text in enumerate(WALK_YIELD_SITE):
        E.oblige(st, 'callsite', 'yield:%d' % n, text, E.ev_spec(text, st), None)
    return E.ok(st)


WALK_YIELD_SITE = [
    # sorted by name, whatever order the file system enumerated (discovery order == sorted path order)
    "forall(a, Int, forall(b, Int, implies(0 <= a and a < b and b < len(dirs), not lt_str(dirs[b], dirs[a]))))",
    "forall(a, Int, forall(b, Int, implies(0 <= a and a < b and b < len(files), not lt_str(files[b], files[a]))))",
    # exactly the sub-directories that are not ignored; every file of the directory, none invented
    "forall(x, Str, iff(x in dirs, x in old(dirs) and x not in options.ignore_dir))",
    "forall(x, Str, iff(x in files, x in old(files)))", "len(files) == old(len(files))",
]
# the per-directory part of walk_with_symlinks (the body of its os.walk loop up to the yield), as a fragment: os.walk's
# enumeration and its honouring of in-place pruning stay assumed, what the function itself does to one directory is proved
WALK_DIR = {
    'property': ['C14', 'C15'],
    'fragment': {'find': 'dirs.sort(', 'count': 4, 'heads': ['dirs.sort(', 'files.sort(', 'dirs[:] = ', 'yield ']},
    'params': {'options': 'Rec[WalkOptions]', 'dirpath': 'Str', 'dirs': 'List[Str]', 'files': 'List[Str]'},
    'yield_handler': walk_yield,
    'requires': [], 'modifies': ['dirs', 'files'],
    'ensures': [], 'raises': {},
}


def inner_files_rule(E, st, node, args, kws, k):
    from pyvc.state import fresh_val
    L = fresh_val(('list', ('tuple', (('obj', 'Str'), ('obj', 'Str')))), 'inner_files', st)
    st.ghost['inner'] = L
    return k(st, L)
inner_files_rule.__name__ = 'find_test_files_(options): an arbitrary finite sequence of (path, package) pairs (ghost G.inner)'
inner_files_rule.modifies = ['G.inner']


def import_rule(E, st, node, args, kws, k):
    """import_name(name): imports exactly that module (ghost G.imported += {name}); may raise anything"""
    g = st.ghost['imported']
    h = st.heap[g.rid]
    st.heap[g.rid] = HDict(h.kt, h.vt, z3.Store(h.mem, args[0].z, z3.BoolVal(True)), h.vals)
    out = []
    for exc in ('OtherException', 'OtherBase', 'KeyboardInterrupt'):
        s2 = st.copy()
        s2.path.append('import!%s@%s' % (exc, node.lineno))
        out += E.raise_(s2, exc)
    return out + k(st, VObj('Module', z3.Const(fresh_name('module'), usort('Module'))))
import_rule.__name__ = 'import_name(name): imports exactly that module (ghost G.imported); returns it or raises anything'
import_rule.modifies = ['G.imported']


def register(E):
    E.load_sidecar(os.path.join(HERE, 'common.py'))
    E.load_sidecar(os.path.join(HERE, 'filter_c08.py'))
    E.records['DiscOptions'] = {'prefix': 'List[Tuple[Str,Str]]', 'post_mortem': 'bool', 'suite_name': 'Str',
                                'usecompiled': 'bool', 'test_path': 'List[Tuple[Str,Str]]', 'output': 'Output'}
    E.truthy_sorts['Node'] = 'always'
    E.globals['os.path.sep'] = lambda eng, st: eng.strlit('/')
    FIND_SUITES['rules']['import_name'] = import_rule
    FIND_FILES['rules']['find_test_files_'] = inner_files_rule
    E.assumptions += [
        "C14: os.walk / walk_with_symlinks enumerate what exists and honour in-place pruning (OS); import_name imports "
        "exactly the named module; string operations on paths (startswith, slicing, replace, join) are pure functions",
        "find_suites: the internal `assert noext is not None` is not decided (it depends on string facts about "
        "os.path.join that are not modelled); AssertionError is therefore listed among the exits",
    ]
    c15 = E.load_sidecar(os.path.join(HERE, 'find_c15.py'))
    E.records['DiscOptions'].update({'tests_pattern': 'Search', 'test_file_pattern': 'Search', 'ignore_dir': 'Set[Str]'})
    ident_c = z3.Const('find_identifier_match', usort('Search'))
    E.globals['find.identifier'] = lambda eng, st: VObj('Search', ident_c)
    re_search = z3.Function('re_search', usort('Search'), Str, z3.BoolSort())
    x = z3.Const('x', Str)
    E.axioms.append(z3.ForAll([x], re_search(ident_c, x) == ident_f(x)))
    ign_mem = z3.Const('IGNORE_FOLDERS_members', z3.ArraySort(Str, z3.BoolSort()))
    E.axioms.append(z3.ForAll([x], z3.Select(ign_mem, x) == ignored_f(x)))
    E.globals['find.IGNORE_FOLDERS'] = lambda eng, st: st.alloc(HDict(('obj', 'Str'), None, ign_mem, None))
    E.need_order('Str')
    lt = z3.Function('lt_Str', Str, Str, z3.BoolSort())
    E.specfuncs.update({
        'stem_ok': _stem_ok, 'stem': _stem,
        'basename': lambda eng, st, p_: VObj('Str', basename_f(p_.z)),
        'is_ident': lambda eng, st, d: VBool(ident_f(d.z)), 'ignored': lambda eng, st, d: VBool(ignored_f(d.z)),
        'lt_str': lambda eng, st, a, b: VBool(lt(a.z, b.z)),
        'walkdirs': lambda eng, st, e: st.alloc(HList(('obj', 'Str'), c15.w_dirs(e.z), c15.w_ndirs(e.z))),
    })
    FILES_['rules']['walk_with_symlinks'] = c15.walk_rule
    FILES_['rules']['os.path.join'] = lambda eng, st, node, args, kws, k: k(st, VObj('Str', c15.join_f(args[0].z, args[1].z)))
    dbg = z3.Bool('python_debug_mode')
    E.globals['find.__debug__'] = E.globals['__debug__'] = lambda eng, st: VBool(dbg)
    E.specfuncs['debug_mode'] = lambda eng, st: VBool(dbg)
    E.add_contract('find.contains_init_py', CONTAINS_INIT)
    E.add_contract('find.strip_py_ext', STRIP)
    E.contracts.pop('find.remove_stale_bytecode', None)
    E.contracts.pop('options.get_options', None)
    E.records['PrefixOptions'] = {'prefix': 'List[Tuple[Str,Str]]', 'test_path': 'List[Tuple[Str,Str]]'}
    E.records['DirOptions'] = {'prefix': 'List[Tuple[Str,Str]]', 'test_path': 'List[Tuple[Str,Str]]', 'package': 'List[Str]'}
    E.specfuncs['sep'] = lambda eng, st: eng.strlit('/')
    E.objattrs[('Module', '__path__')] = lambda eng, st, o: st.alloc(HList(('obj', 'Str'), mod_path_arr(o.z), mod_path_n(o.z)))
    m0 = z3.Const('m0', usort('Module'))
    E.axioms.append(z3.ForAll([m0], mod_path_n(m0) >= 0))
    TEST_DIRS['yield_handler'] = testdirs_yield
    if ('walk_syntactic',) not in E.added_axioms:
        E.added_axioms.add(('walk_syntactic',))
        walk_syntactic(E)
    E.add_contract('find.test_dirs', TEST_DIRS)
    E.add_contract('options.get_options@prefix', PREFIX_SORT)
    E.add_contract('find.find_test_files_', FILES_)
    E.records['WalkOptions'] = {'ignore_dir': 'Set[Str]'}
    E.add_contract('find.walk_with_symlinks', WALK_DIR)
    E.add_contract('find.find_test_files', FIND_FILES)
    E.add_contract('find.find_suites', FIND_SUITES)
