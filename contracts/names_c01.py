"""Layer names (C01, C03: a layer resumed in a child is looked up there by the name the parent computed).

Elsewhere name_from_layer / layer_from_name are *assumed* pure and mutually consistent; here their real bodies are put
under contract over the shared name cache (ghost G.cache = the module-level dict find._layer_name_cache, which runner.py
imports by reference):
  name_from_layer(L) = n   registers  cache[n] = L  and changes no other entry;
  layer_from_name(n)       returns cache[n] when n is registered, and changes nothing.
Hence layer_from_name(name_from_layer(L)) is L until another layer with the same module and name is registered (leaf
lemma below); two distinct layers of one name overwrite each other -- the names are then not a key, which is a
precondition of the ordering contracts ("distinct names")."""
import os
import z3
from pyvc.vals import VObj, usort

HERE = os.path.dirname(os.path.abspath(__file__))

NAME_FROM = {
    'property': ['C01', 'C03'],
    'params': {'layer': 'Layer'},
    'returns': 'Str',
    'ghost': {'cache': 'Dict[Str,Layer]'},
    'requires': [],
    'modifies': ['G.cache'],
    'ensures': [
        "result in G.cache and G.cache[result] == layer",                            # registered under the returned name
        "forall(n, Str, implies(n != result, iff(n in G.cache, old(n in G.cache))))",   # no other entry appears or vanishes
        "forall(n, Str, implies(n != result and old(n in G.cache), G.cache[n] == old(G.cache[n])))",
        # the name is a function of the layer's module and own name only
        "result == ite(layer.__module__ == '__builtin__', layer.__name__, layer.__module__ + '.' + layer.__name__)",
    ],
    'raises': {},
}

LAYER_FROM = {
    'property': ['C01', 'C03'],
    'params': {'layer_name': 'Str'},
    'returns': 'Layer',
    'ghost': {'cache': 'Dict[Str,Layer]'},
    'requires': [],
    'modifies': [],
    'ensures': [
        "implies(old(layer_name in G.cache), result == old(G.cache[layer_name]))",    # a registered name: the registered layer
    ],
    'raises': {'OtherException': ["not old(layer_name in G.cache)"], 'OtherBase': ["not old(layer_name in G.cache)"],
               'AttributeError': ["not old(layer_name in G.cache)"]},   # only an unregistered name is imported (and may fail)
    'rules': {'import_name': {'kind': 'fresh', 'type': 'Any', 'raises': ['OtherException', 'OtherBase']}},
    'expr_rules': {'getattr(module, module_layer_name)': {'type': 'Layer', 'raises': ['AttributeError']},
                   "'.'.join(layer_module)": 'fresh:Str',
                   "'module %r has no attribute %r' % (module_name, module_layer_name)": 'fresh:Str'},
}


def register(E):
    E.load_sidecar(os.path.join(HERE, 'common.py'))
    E.load_sidecar(os.path.join(HERE, 'vocab_layers.py'))
    Str, Layer = usort('Str'), usort('Layer')
    mod = z3.Function('layer___module__', Layer, Str)
    nm = z3.Function('layer___name__', Layer, Str)
    lname = z3.Function('layer_name_of', Layer, Str)
    cat = z3.Function('str_concat__Str_Str', Str, Str, Str)
    E.objattrs[('Layer', '__module__')] = 'Str'
    E.objattrs[('Layer', '__name__')] = 'Str'
    E.specfuncs['layer_name_of'] = lambda eng, st, l: VObj('Str', lname(l.z))
    for q in ('find._layer_name_cache', 'runner._layer_name_cache'):
        E.globals[q] = lambda eng, st: st.ghost['cache']
    E.add_contract('find.name_from_layer', NAME_FROM)
    E.add_contract('runner.layer_from_name', LAYER_FROM)
