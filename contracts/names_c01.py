"""Layer names (C01, C03: a layer resumed in a child is looked up there by the name the parent computed).

Elsewhere name_from_layer / layer_from_name are *assumed* pure and mutually consistent; here their real bodies are put
under contract over the shared name cache (ghost G.cache = the module-level dict find._layer_name_cache, which runner.py
imports by reference):
  name_from_layer(L) = n   registers  cache[n] = L  and changes no other entry;
  layer_from_name(n)       returns cache[n] when n is registered, and changes nothing.
Hence layer_from_name(name_from_layer(L)) is L until another layer with the same module and name is registered (leaf
lemma below); two distinct layers of one name overwrite each other -- the names are then not a key, which is a
precondition of the ordering contracts ("distinct names")."""
import os
import z3
from pyvc.vals import VObj, usort

HERE = os.path.dirname(os.path.abspath(__file__))

NAME_FROM = {
    'property': ['C01', 'C03'],
    'params': {'layer': 'Layer'},
    'returns': 'Str',
    'ghost': {'cache': 'Dict[Str,Layer]'},
    'requires': [],
    'modifies': ['G.cache'],
    'ensures': [
        "result in G.cache and G.cache[result] == layer",                            # registered under the returned name
        "forall(n, Str, implies(n != result, iff(n in G.cache, old(n in G.cache))))",   # no other entry appears or vanishes
        "forall(n, Str, implies(n != result and old(n in G.cache), G.cache[n] == old(G.cache[n])))",
        # the name is a function of the layer's module and own name only
        "result == ite(layer.__module__ == '__builtin__', layer.__name__, layer.__module__ + '.' + layer.__name__)",
    ],
    'raises': {},
}

LAYER_FROM = {
    'property': ['C01', 'C03'],
    'params': {'layer_name': 'Str'},
    'returns': 'Layer',
    'ghost': {'cache': 'Dict[Str,Layer]'},
    'requires': [],
    'modifies': [],
    'ensures': [
        "implies(old(layer_name in G.cache), result == old(G.cache[layer_name]))",    # a registered name: the registered layer
    ],
    'raises': {'OtherException': ["not old(layer_name in G.cache)"], 'OtherBase': ["not old(layer_name in G.cache)"],
               'AttributeError': ["not old(layer_name in G.cache)"]},   # only an unregistered name is imported (and may fail)
    'rules': {'import_name': {'kind': 'fresh', 'type': 'Any', 'raises': ['OtherException', 'OtherBase']}},
    'expr_rules': {'getattr(module, module_layer_name)': {'type': 'Layer', 'raises': ['AttributeError']},
                   "'.'.join(layer_module)": 'fresh:Str',
                   "'module %r has no attribute %r' % (module_name, module_layer_name)": 'fresh:Str'},
}


def register(E):
    E.load_sidecar(os.path.join(HERE, 'common.py'))
    E.load_sidecar(os.path.join(HERE, 'vocab_layers.py'))
    Str, Layer = usort('Str'), usort('Layer')
    mod = z3.Function('layer___module__', Layer, Str)
    nm = z3.Function('layer___name__', Layer, Str)
    lname = z3.Function('layer_name_of', Layer, Str)
    cat = z3.Function('str_concat__Str_Str', Str, Str, Str)
    E.objattrs[('Layer', '__module__')] = 'Str'
    E.objattrs[('Layer', '__name__')] = 'Str'
    E.specfuncs['layer_name_of'] = lambda eng, st, l: VObj('Str', lname(l.z))
    for q in ('find._layer_name_cache', 'runner._layer_name_cache'):
        E.globals[q] = lambda eng, st: st.ghost['cache']
    # every run starts from an empty name cache (entries of an earlier run in the same process may denote objects of modules
    # that have been re-imported since): Runner.run empties the shared dict before any feature's global_setup
    import ast
    run, _, _ = E.find_def('runner.Runner.run')
    lines = {}
    for n in ast.walk(run):
        if isinstance(n, ast.Call):
            t = ast.unparse(n.func)
            if t in ('self.layer_name_cache.clear', '_layer_name_cache.clear', 'feature.global_setup', 'self.run_tests'):
                lines.setdefault(t.split('.')[-2] + '.' + t.split('.')[-1], []).append(n.lineno)
    alias = any(isinstance(n, ast.Assign) and ast.unparse(n) == 'self.layer_name_cache = _layer_name_cache' for n in ast.walk(run))
    clears = lines.get('layer_name_cache.clear', []) + lines.get('_layer_name_cache.clear', [])
    first_use = min(lines.get('feature.global_setup', [10 ** 9]) + lines.get('self.run_tests', [10 ** 9]))
    in_branch = [n for n in ast.walk(run) if isinstance(n, (ast.If, ast.For, ast.While, ast.Try))
                 and any(isinstance(c, ast.Call) and ast.unparse(c.func).endswith('layer_name_cache.clear') for c in ast.walk(n))]
    E.syntactic_obligation("Runner.run empties the shared layer-name cache, unconditionally, before discovery and the test phase",
                           bool(clears) and min(clears) < first_use and not in_branch
                           and (alias or '_layer_name_cache.clear' in [ast.unparse(n.func) for n in ast.walk(run) if isinstance(n, ast.Call)]),
                           detail='clear at lines %s, first feature set-up / test phase at line %s, inside a branch: %s'
                           % (clears, first_use, bool(in_branch)), props=('C01', 'C03'))
    E.add_contract('find.name_from_layer', NAME_FROM)
    E.add_contract('runner.layer_from_name', LAYER_FROM)
