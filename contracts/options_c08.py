"""C08: how the filter lists reach build_filtering_func -- the fragment of get_options that merges the legacy positional
filters into -m / -t and installs the default pattern '.' (match everything) when no filter was given."""
import os

HERE = os.path.dirname(os.path.abspath(__file__))


def kept(name):
    o = "old(options.%s)" % name
    return ("implies(%s is not None, len(options.%s) >= len(%s) and forall(q, Int, implies(0 <= q and q < len(%s),"
            " options.%s[q] == %s[q])))" % (o, name, o, o, name, o))


FILTERS = {
    'property': ['C08'],
    'fragment': {'start': 'if options.legacy_module_filter:', 'end': 'options.path = '},
    'params': {'options': 'Rec[FilterArgs]'},
    'requires': [],
    'modifies': ['options.test', 'options.module', 'options.ignore_dir'],
    'ensures': [
        "options.test is not None and len(options.test) >= 1", "options.module is not None and len(options.module) >= 1",
        kept('test'), kept('module'),                        # every -t / -m pattern given stays, in order
        # no filter at all means "everything": the single pattern '.'
        "implies((old(options.test) is None or len(old(options.test)) == 0) and not (bool(old(options.legacy_module_filter))"
        " and bool(old(options.legacy_test_filter))), len(options.test) == 1 and options.test[0] == '.')",
        "implies((old(options.module) is None or len(old(options.module)) == 0) and (not bool(old(options.legacy_module_filter))"
        " or old(options.legacy_module_filter) == '.'), len(options.module) == 1 and options.module[0] == '.')",
        # ... and the positional module filter '.' is only a placeholder (so that a test filter can follow): it adds no pattern
        "implies(old(options.module) is not None and len(old(options.module)) >= 1 and old(options.legacy_module_filter) == '.',"
        " len(options.module) == len(old(options.module)))",
        # nothing but the positional filters is ever added
        "implies(old(options.module) is not None and len(old(options.module)) >= 1, len(options.module) <= len(old(options.module)) + 1)",
        "implies(old(options.test) is not None and len(old(options.test)) >= 1, len(options.test) <= len(old(options.test)) + 1)",
        "implies(old(options.module) is not None and len(old(options.module)) >= 1 and not bool(old(options.legacy_module_filter)),"
        " len(options.module) == len(old(options.module)))",
        "implies(old(options.test) is not None and len(old(options.test)) >= 1 and not (bool(old(options.legacy_module_filter))"
        " and bool(old(options.legacy_test_filter))), len(options.test) == len(old(options.test)))",
        # the positional filters are appended as the last pattern of their list
        "implies(bool(old(options.legacy_module_filter)) and old(options.legacy_module_filter) != '.',"
        " options.module[len(options.module) - 1] == old(options.legacy_module_filter))",
        "implies(bool(old(options.legacy_module_filter)) and bool(old(options.legacy_test_filter)),"
        " options.test[len(options.test) - 1] == old(options.legacy_test_filter))",
    ],
    'raises': {},
}


def register(E):
    E.load_sidecar(os.path.join(HERE, 'common.py'))
    E.records['FilterArgs'] = {'test': 'Opt[List[Str]]', 'module': 'Opt[List[Str]]', 'legacy_module_filter': 'Opt[Str]',
                               'legacy_test_filter': 'Opt[Str]', 'ignore_dir': 'List[Str]'}
    E.assumptions.append("argparse delivers options.test / options.module as None or a list of strings, the positional filters "
                         "as None or a string")
    E.add_contract('options.get_options@filters', FILTERS)
