"""C02 (ends of the verdict chain): Find.global_setup hands exactly the StartUpFailures found under the key None to the
runner as import_errors; run_internal returns Runner.failed and run() exits with it (syntactic)."""
import ast
import os
import z3
from pyvc.vals import VObj, VBool, VInt, VOpt, VRef, HList, NONE, usort, fresh_name
from pyvc.state import fresh_val

HERE = os.path.dirname(os.path.abspath(__file__))


def pop_none_rule(E, st, node, args, kws, k):
    """tests.pop(None, None): the list of StartUpFailure objects find_tests collected under the key None, or None"""
    v = fresh_val(('opt', ('list', ('obj', 'Any'))), 'startup_failures', st)
    st.ghost['ie'] = v
    return k(st, v)
pop_none_rule.__name__ = 'tests.pop(None, None): the StartUpFailures registered without a layer, or None (ghost G.ie)'
pop_none_rule.modifies = ['G.ie']

FIND_SETUP = {
    'property': ['C02', 'C12'],
    'params': {},
    'self_fields': {'runner': 'Rec[FindRunner]', 'import_errors': 'Opt[List[Any]]'},
    'ghost': {'ie': 'Opt[List[Any]]'},
    'requires': [],
    'modifies': ['self.import_errors', 'self.runner.import_errors', 'G.ie'],
    'ensures': [
        # every module that could not be imported is an import error of the run (and so makes it fail), nothing else is
        "len(self.runner.import_errors) == ite(G.ie is None, 0, len(G.ie))",
        "implies(G.ie is not None, forall(i, Int, implies(0 <= i and i < len(G.ie), self.runner.import_errors[i] == G.ie[i])))",
    ],
    'raises': {'DuplicateTestIDError': []},
    'loops': {'#loop1': []},
    'rules': {'find_tests': {'kind': 'fresh', 'type': 'Any', 'raises': ['DuplicateTestIDError']},
              'tests.pop': pop_none_rule, 'self.runner.register_tests': 'NOEFFECT', 'sys.path.insert': 'NOEFFECT'},
    'expr_rules': {'reversed(self.runner.options.path)': 'fresh:List[Str]', 'path not in sys.path': 'fresh:bool'},
}


def syntactic(E):
    src = open(os.path.join(E.repo_src, '__init__.py')).read()
    tree = ast.parse(src)
    fns = {n.name: n for n in tree.body if isinstance(n, ast.FunctionDef)}
    ri, r = fns.get('run_internal'), fns.get('run')
    ok1 = ri is not None and ast.unparse(ri.body[-1]) == 'return runner.failed' and 'runner.run()' in ast.unparse(ri.body[-2])
    ok2 = r is not None and ast.unparse(r.body[-1]) == 'sys.exit(int(failed))' and 'failed = run_internal(' in ast.unparse(r.body[-2])
    E.syntactic_obligation("run_internal returns Runner.failed after Runner.run(); run() exits the process with int(failed)",
                           ok1 and ok2, props=('C02',))
    rr, _, s2 = E.find_def('runner.Runner.run')
    E.syntactic_obligation("Runner.run: with options.fail (bad command line) the verdict stays failed -- it returns before "
                           "any feature runs; otherwise run_tests computes the verdict",
                           'if self.options.fail:\n            return True' in s2 or 'if self.options.fail:' in s2, props=('C02',))


def register(E):
    E.load_sidecar(os.path.join(HERE, 'common.py'))
    E.records['FindRunnerOptions'] = {'path': 'List[Str]', 'output': 'Output'}
    E.records['FindRunner'] = {'options': 'Rec[FindRunnerOptions]', 'found_suites': 'Any', 'import_errors': 'List[Any]'}
    E.records['find.Find'] = {}
    syntactic(E)
    E.add_contract('find.Find.global_setup', FIND_SETUP)
