"""C09 / C03: tests_from_suite against the specification function FLAT (nearest declaration wins; level predicate)."""
import os
import z3
from pyvc.vals import VObj, VBool, VInt, VOpt, VNone, VRef, HList, NONE, usort, fresh_name, sort_of, to_z3

HERE = os.path.dirname(os.path.abspath(__file__))
Node, LRef, Str, Acc = usort('Node'), usort('LayerRef'), usort('Str'), usort('Accept')
I, Bo = z3.IntSort(), z3.BoolSort()
PAIR_T = ('tuple', (('obj', 'Node'), ('opt', ('obj', 'LayerRef'))))
PAIR = sort_of(PAIR_T)
OLR = sort_of(('opt', ('obj', 'LayerRef')))
OACC_T = ('opt', ('obj', 'Accept'))
OACC = sort_of(OACC_T)

is_suite = z3.Function('is_suite', Node, Bo)
is_startup = z3.Function('is_startup', Node, Bo)
nch = z3.Function('nchildren', Node, I)
ch_arr = z3.Function('children', Node, z3.ArraySort(I, Node))
has_level = z3.Function('has_level_Node', Node, Bo)
level_attr = z3.Function('attr_Node_level', Node, I)
has_layer = z3.Function('has_layer_Node', Node, Bo)
layer_attr = z3.Function('attr_Node_layer', Node, LRef)
height = z3.Function('height', Node, I)
is_str = z3.Function('is_str', LRef, Bo)
norm = z3.Function('name_from_layer', LRef, LRef)
str_of = z3.Function('str_of__Node', Node, Str)
accepts = z3.Function('accepts', Acc, Str, Bo)

ARGS = [Node, I, LRef, I, Bo, I, OACC]      # node, default level, default layer, at_level, only_level is None, only_level, accept
flat_len = z3.Function('FLAT_len', *(ARGS + [I]))
flat_arr = z3.Function('FLAT_arr', *(ARGS + [z3.ArraySort(I, PAIR)]))
pre_len = z3.Function('FLATPRE_len', *([Node, I] + ARGS[1:] + [I]))
pre_arr = z3.Function('FLATPRE_arr', *([Node, I] + ARGS[1:] + [z3.ArraySort(I, PAIR)]))


def eff_level(n, dl):
    return z3.If(has_level(n), level_attr(n), dl)


def eff_layer(n, dy):
    raw = z3.If(has_layer(n), layer_attr(n), dy)
    return z3.If(is_str(raw), raw, norm(raw))


def eligible(lv, at, on, ov):
    """the statement: level <= --at-level (any level when at-level <= 0), or == --only-level when that is given"""
    return z3.If(on, z3.Or(at <= 0, lv <= at), lv == ov)


def accepted(n, acc):
    return z3.Or(OACC.recognizer(0)(acc), accepts(OACC.accessor(1, 0)(acc), str_of(n)))


def flat_axioms():
    n = z3.Const('n', Node)
    dl, at, ov, k, i, j = z3.Ints('dl at ov k i j')
    dy = z3.Const('dy', LRef)
    on = z3.Bool('on')
    acc = z3.Const('acc', OACC)
    P = [at, on, ov, acc]
    A = [n, dl, dy] + P
    mk = PAIR.constructor(0)
    none_l, some_l = OLR.constructor(0), OLR.constructor(1)
    lv, ly = eff_level(n, dl), eff_layer(n, dy)
    child = z3.Select(ch_arr(n), k)
    CA = [child, lv, ly] + P
    CB = [z3.Select(ch_arr(n), k - 1), lv, ly] + P
    ax = [
        z3.ForAll(A, flat_len(*A) >= 0),
        z3.ForAll([n, k, dl, dy] + P, pre_len(n, k, dl, dy, *P) >= 0),
        # a StartUpFailure stands for itself, without a layer
        z3.ForAll(A, z3.Implies(z3.And(z3.Not(is_suite(n)), is_startup(n)),
                                z3.And(flat_len(*A) == 1, z3.Select(flat_arr(*A), 0) == mk(n, none_l())))),
        # a test: yielded with the nearest layer iff its nearest level is eligible and the --test filter accepts it
        z3.ForAll(A, z3.Implies(z3.And(z3.Not(is_suite(n)), z3.Not(is_startup(n))),
                                z3.If(z3.And(eligible(lv, at, on, ov), accepted(n, acc)),
                                      z3.And(flat_len(*A) == 1, z3.Select(flat_arr(*A), 0) == mk(n, some_l(ly))),
                                      flat_len(*A) == 0))),
        # a suite: the concatenation of its children, which inherit the suite's nearest level / layer
        z3.ForAll(A, z3.Implies(is_suite(n), flat_len(*A) == pre_len(n, nch(n), dl, dy, *P))),
        z3.ForAll(A + [i], z3.Implies(z3.And(is_suite(n), 0 <= i, i < flat_len(*A)),
                                      z3.Select(flat_arr(*A), i) == z3.Select(pre_arr(n, nch(n), dl, dy, *P), i))),
        z3.ForAll([n, dl, dy] + P, pre_len(n, 0, dl, dy, *P) == 0),
        # PRE(n, k) = PRE(n, k-1) ++ FLAT(child k-1 under the suite's nearest level / layer)
        z3.ForAll([n, k, dl, dy] + P, z3.Implies(z3.And(1 <= k, k <= nch(n)),
                                                 pre_len(n, k, dl, dy, *P) == pre_len(n, k - 1, dl, dy, *P) + flat_len(*CB)),
                  patterns=[pre_len(n, k, dl, dy, *P)]),
        z3.ForAll([n, k, dl, dy, i] + P,
                  z3.Implies(z3.And(1 <= k, k <= nch(n), 0 <= i, i < pre_len(n, k, dl, dy, *P)),
                             z3.Select(pre_arr(n, k, dl, dy, *P), i) ==
                             z3.If(i < pre_len(n, k - 1, dl, dy, *P), z3.Select(pre_arr(n, k - 1, dl, dy, *P), i),
                                   z3.Select(flat_arr(*CB), i - pre_len(n, k - 1, dl, dy, *P)))),
                  patterns=[z3.Select(pre_arr(n, k, dl, dy, *P), i)]),
        # trees are finite: a child is lower than its suite
        z3.ForAll([n], z3.And(nch(n) >= 0, height(n) >= 0)),
        z3.ForAll([n, k], z3.Implies(z3.And(0 <= k, k < nch(n)), height(z3.Select(ch_arr(n), k)) < height(n))),
        z3.ForAll([dy], z3.And(is_str(norm(dy)))),
    ]
    return ax


def _params(E, st, options, accept):
    o = st.heap[options.rid].fields
    only = o['only_level']
    return [o['at_level'].z, only.isnone if isinstance(only, VOpt) else z3.BoolVal(isinstance(only, VNone)),
            only.inner.z if isinstance(only, VOpt) else (z3.IntVal(0) if isinstance(only, VNone) else only.z),
            to_z3(accept, OACC_T)]


def _FLAT(E, st, node, dl, dy, options, accept):
    A = [node.z, dl.z, _z(dy)] + _params(E, st, options, accept)
    return st.alloc(HList(PAIR_T, flat_arr(*A), flat_len(*A)))


def _z(v):
    """the object of an Optional on the paths where it is one (a None layer has raised before any clause is evaluated)"""
    return v.inner.z if isinstance(v, VOpt) else v.z


def _PRE(E, st, node, k, dl, dy, options, accept):
    A = [node.z, k.z, dl.z, _z(dy)] + _params(E, st, options, accept)
    return st.alloc(HList(PAIR_T, pre_arr(*A), pre_len(*A)))


def name_rule(E, st, node, args, kws, k):
    from pyvc.vals import VOpt, VNone
    a = args[0]
    if isinstance(a, VNone):
        return E.raise_(st, 'AttributeError')                  # None.__module__
    if isinstance(a, VOpt):
        return E.guard(st, z3.Not(a.isnone), 'AttributeError', 'name_from_layer', node,
                       lambda s: k(s, VObj('LayerRef', norm(a.inner.z))))
    return k(st, VObj('LayerRef', norm(a.z)))
name_rule.__name__ = 'name_from_layer(layer): the registered name, a pure function of the layer (AttributeError for None)'


def isinstance_rule(E, st, node, args, kws, k):
    o, c = args
    name = c.name
    from pyvc.vals import VOpt, VNone
    if isinstance(o, VNone):
        return k(st, VBool(z3.BoolVal(False)))
    if isinstance(o, VOpt):                   # isinstance(None, ...) is False; otherwise the predicate of the object
        inner = o.inner
        if name == 'str':
            pred = is_str
        elif name == 'unittest.TestSuite':
            pred = is_suite
        elif name.endswith('StartUpFailure'):
            pred = is_startup
        else:
            raise Exception("isinstance rule: %s" % name)
        return k(st, VBool(z3.And(z3.Not(o.isnone), pred(inner.z))))
    if name == 'str':
        return k(st, VBool(is_str(o.z)))
    if name == 'unittest.TestSuite':
        return k(st, VBool(is_suite(o.z)))
    if name.endswith('StartUpFailure'):
        return k(st, VBool(is_startup(o.z)))
    raise Exception("isinstance rule: %s" % name)
isinstance_rule.__name__ = 'isinstance(x, str | TestSuite | StartUpFailure): a fixed predicate of the object'


TFS = {
    'merge': True,
    'property': ['C09', 'C03'],
    'generator': True,
    'params': {'suite': 'Node', 'options': 'Rec[FindOptions]', 'dlevel': 'int', 'dlayer': 'LayerRef',
               'accept': 'Opt[Accept]', 'seen_test_ids': 'Opt[Set[Str]]', 'duplicated_test_ids': 'Opt[Set[Str]]'},
    'returns': 'List[Tuple[Node,Opt[LayerRef]]]',
    'locals': {'seen_test_ids': 'Set[Str]', 'duplicated_test_ids': 'Set[Str]'},
    'requires': [],
    'modifies': ['seen_test_ids', 'duplicated_test_ids'],
    'decreases': "height(suite)",
    'ensures': [
        # yielded == FLAT(suite): nearest declaration wins, level predicate and --test filter per leaf, order preserved
        "result == FLAT(suite, dlevel, dlayer, options, accept)",
        # duplicated test ids are only ever added (find_tests relies on it: a duplicate is never forgotten)
        "implies(old(duplicated_test_ids) is not None,"
        " forall(x, Str, implies(old(x in duplicated_test_ids), x in duplicated_test_ids)))",
    ],
    'raises': {},
    'loops': {
        '#loop1': ["G.__yield__ == PRE(suite, _i, dlevel, dlayer, options, accept)",
                   "implies(old(duplicated_test_ids) is not None,"
                   " forall(x, Str, implies(old(x in duplicated_test_ids), x in duplicated_test_ids)))"],
    },
    'rules': {'isinstance': isinstance_rule,
              'name_from_layer': name_rule},
}


def register(E):
    E.load_sidecar(os.path.join(HERE, 'common.py'))
    E.load_sidecar(os.path.join(HERE, 'filter_c08.py'))
    E.records['FindOptions'] = {'require_unique_ids': 'bool', 'only_level': 'Opt[int]', 'at_level': 'int'}
    E.axioms += flat_axioms()
    E.objattrs[('Node', 'level')] = 'int'
    E.objattrs[('Node', 'layer')] = 'LayerRef'
    E.iter_sorts['Node'] = lambda eng, st, o: st.alloc(HList(('obj', 'Node'), ch_arr(o.z), nch(o.z)))
    E.truthy_sorts['Node'] = 'always'
    E.specfuncs.update({'FLAT': _FLAT, 'PRE': _PRE, 'height': lambda eng, st, n: VInt(height(n.z))})
    E.globals['find.zope.testrunner.layer.UnitTests'] = lambda eng, st: VObj('LayerRef', z3.Const('UnitTestsLayer', LRef))
    E.assumptions += [
        "suite trees are finite (a height function exists); iteration over a TestSuite yields its children in order",
        "getattr(x, 'level'/'layer', default) reads a fixed attribute of the object; str(test) is a pure function",
        "A-WORD: --all sets at_level to sys.maxsize; levels above the machine word are not eligible under --all",
    ]
    E.add_contract('find.tests_from_suite', TFS)
