"""C03 - exactly the selected tests run, once each, and every mode agrees on them.

Oracle: REAL ``Runner`` runs on generated worlds whose tests / layer hooks / module
imports log ``(pid, kind, name)`` events, compared with (a) the independent
selection model of ``selworld`` (nearest layer/level, level predicate, -t/-m/--layer
patterns, -u/-f, documented shuffle) and (b) each other: run vs ``--list-tests``,
sequential vs ``-j N`` vs layers resumed in child processes.

Case kinds:
  inproc  {world, opts}   suites handed to Runner(found_suites=...): one run and one
                          --list-tests (every 4th case also --list-tests -j 2)
  modes   {world, opts}   real modules in a temp dir, the runner in its own process
                          group: sequential run (layers after one that cannot be torn
                          down are resumed in real children), -j 2 run, --list-tests

Checked per run: every expected test executes exactly --repeat times, all of them in
one process; nothing else executes; each test ran with the per-test hooks of exactly
its own layer (+ bases) and with those layers set up in that process; per layer the
execution sequence is the listed sequence repeated --repeat times; layers run in the
listed order (not for -j); a listing executes no test or layer code.
"""
import random
import time

from native import selworld as W

PROPERTY = "C03"


def check_case(case):
    kind = case['kind']
    if kind == 'inproc':
        return _check_inproc(case['world'], case['opts'], case.get('list_j'))
    if kind == 'modes':
        return _check_modes(case['world'], case['opts'])
    if kind == 'alias':
        return _check_alias(case)
    raise ValueError(kind)


def _check_alias(case):
    """two registered layer names that denote ONE layer object (a dotted-name alias given as a string): every selected
    test must still run / be listed exactly once (defect repaired by the fix recorded in known_findings.json)"""
    import io
    import os
    import shutil
    import sys
    import tempfile
    from contextlib import redirect_stdout, redirect_stderr
    import zope.testrunner
    d = tempfile.mkdtemp(prefix='c03alias')
    pkg = 'c03alias_%d' % (abs(hash(d)) % 100000)
    try:
        os.mkdir(os.path.join(d, pkg))
        w = lambda n, t: open(os.path.join(d, pkg, n), 'w').write(t)
        w('__init__.py', '')
        w('layers.py', 'class L:\n    @classmethod\n    def setUp(cls): pass\n    @classmethod\n    def tearDown(cls): pass\n')
        w('alias.py', 'from %s.layers import L as L2\n' % pkg)
        w('tests.py', 'import unittest\nfrom %s.layers import L\nRAN = []\n'
          'class A(unittest.TestCase):\n    layer = L\n    def test_a(self): RAN.append("a")\n'
          'class B(unittest.TestCase):\n    layer = %r\n    def test_b(self): RAN.append("b")\n'
          'def test_suite():\n    l = unittest.defaultTestLoader.loadTestsFromTestCase\n'
          '    return unittest.TestSuite([l(A), l(B)] if %r else [l(B), l(A)])\n'
          % (pkg, pkg + '.alias.L2', bool(case.get('a_first', True))))
        out = io.StringIO()
        args = ['run'] + (['--list-tests'] if case.get('list') else [])
        with redirect_stdout(out), redirect_stderr(out):
            zope.testrunner.run_internal(['--path', d, '--tests-pattern', '^tests$'], args)
        text = out.getvalue()
        if case.get('list'):
            got = sorted(x for x in ('a', 'b') if 'test_%s ' % x in text)
        else:
            got = sorted(sys.modules[pkg + '.tests'].RAN)
        if got != ['a', 'b']:
            return [('selection:two-names-one-layer-object:tests-lost', 'ran/listed %s, expected both' % got)]
        return []
    finally:
        for m in [m for m in sys.modules if m == pkg or m.startswith(pkg + '.')]:
            del sys.modules[m]
        shutil.rmtree(d, ignore_errors=True)


def _analyse(mode, world, opts, events, real, v):
    """check one run against the model; -> (per-layer execution sequence,
    layer order, set of pids that ran tests)"""
    own = {name: layer for name, layer, _lv, _m in W.flatten(world)}
    clo = W.layer_closure(world)
    want = W.expected(world, opts, real=real)
    repeat = opts.get('repeat') or 1
    seq, order, pids_of, count = {}, [], {}, {}
    for pid, name, tsu, up in W.executions(events):
        layer = own.get(name)
        if layer is None:
            v.append(('%s:unknown-test-executed' % mode, name))
            continue
        seq.setdefault(layer, []).append(name)
        if layer not in order:
            order.append(layer)
        pids_of.setdefault(name, set()).add(pid)
        count[name] = count.get(name, 0) + 1
        need = set() if layer == W.UNIT else clo[layer.split('.')[-1]]
        if set(tsu) != need:
            v.append(('%s:layer:per-test-hooks-of-wrong-layer' % mode,
                      'test %s of %s ran with testSetUp of %r'
                      % (name, layer, sorted(tsu))))
        if not need <= set(up):
            v.append(('%s:layer:own-layer-not-set-up' % mode,
                      'test %s of %s ran in pid %s with only %r set up'
                      % (name, layer, pid, sorted(up))))
    expected_names = {n for names in want.values() for n in names}
    arg = W.argv(opts, 'P')[3:]
    for n in sorted(expected_names):
        c = count.get(n, 0)
        if c < repeat:
            v.append(('%s:selected-test-%s' % (
                mode, 'not-executed' if c == 0 else 'executed-too-rarely'),
                'test %s ran %d times, expected %d (argv %r)' % (n, c, repeat, arg)))
        elif c > repeat:
            v.append(('%s:selected-test-executed-too-often' % mode,
                      'test %s ran %d times, expected %d (argv %r)'
                      % (n, c, repeat, arg)))
        if len(pids_of.get(n, ())) > 1:
            v.append(('%s:test-in-several-processes' % mode,
                      'test %s ran in pids %r' % (n, sorted(pids_of[n]))))
    for n in sorted(set(count) - expected_names):
        v.append(('%s:unselected-test-executed' % mode,
                  'test %s ran %d times but does not pass the filters (argv %r)'
                  % (n, count[n], arg)))
    pids = {p for ps in pids_of.values() for p in ps}
    return seq, order, pids


def _check_listing(mode, world, opts, lev, lout, seq, order, v, check_order=True):
    repeat = opts.get('repeat') or 1
    code = [(k, n) for _p, k, n in lev if k in W.CODE_KINDS]
    if code:
        v.append(('list:runs-test-or-layer-code', '%r' % code[:5]))
    listing = [(l, names) for l, names in W.parse_listing(lout) if names]
    ldict = dict(listing)
    if len(ldict) != len(listing):
        v.append(('list:layer-listed-twice', '%r' % [l for l, _ in listing]))
    arg = W.argv(opts, 'P')[3:]
    for layer in sorted(set(ldict) | set(seq)):
        lst, ran = ldict.get(layer, []), seq.get(layer, [])
        if sorted(lst * repeat) != sorted(ran):
            v.append(('list:set-differs-from-%s-run' % mode,
                      'layer %s listed %r, ran %r (argv %r)' % (layer, lst, ran, arg)))
        elif lst * repeat != ran:
            v.append(('list:order-differs-from-%s-run' % mode,
                      'layer %s listed %r, ran %r (argv %r)' % (layer, lst, ran, arg)))
    if check_order and [l for l, _ in listing] != order and \
            sorted(ldict) == sorted(order):
        v.append(('list:layer-order-differs-from-%s-run' % mode,
                  'listed %r, ran %r (argv %r)' % ([l for l, _ in listing], order,
                                                    arg)))
    return ldict


def _check_inproc(world, opts, list_j=False):
    v = []
    events, out, _r = W.run_inproc(world, opts)
    seq, order, _pids = _analyse('seq', world, opts, events, False, v)
    lev, lout, _r = W.run_inproc(world, opts, list_tests=True)
    ldict = _check_listing('seq', world, opts, lev, lout, seq, order, v)
    if list_j:
        oj = dict(opts, j=2)
        lev2, lout2, _r = W.run_inproc(world, oj, list_tests=True)
        l2 = {l: n for l, n in W.parse_listing(lout2) if n}
        if l2 != ldict or [x for x in lev2 if x[1] in W.CODE_KINDS]:
            v.append(('list:j-listing-differs', '%r vs %r' % (l2, ldict)))
    return v


def _check_modes(world, opts):
    v = []
    resumable = any(l.get('notd') for l in world['layers'])
    smode = 'resumed' if resumable else 'seq'
    with W.RealWorld(world) as rw:
        ev_s, out_s, _r = rw.run(opts)
        seq_s, order_s, pids_s = _analyse(smode, world, opts, ev_s, True, v)
        oj = dict(opts, j=2)
        ev_j, out_j, _r = rw.run(oj)
        seq_j, order_j, pids_j = _analyse('j', world, oj, ev_j, True, v)
        lev, lout, _r = rw.run_local(opts, list_tests=True)
    _check_listing(smode, world, opts, lev, lout, seq_s, order_s, v)
    _check_listing('j', world, oj, lev, lout, seq_j, order_j, v, check_order=False)
    a = {k: sorted(x) for k, x in seq_s.items()}
    b = {k: sorted(x) for k, x in seq_j.items()}
    if a != b:
        v.append(('modes:%s-and-j-execute-different-sets' % smode,
                  '%s: %r; -j 2: %r (argv %r)' % (smode, a, b,
                                                 W.argv(opts, 'P')[3:])))
    # the modes were really exercised (otherwise the case proves nothing)
    info = {'seq_pids': len(pids_s), 'j_pids': len(pids_j)}
    case_info.append(info)
    return v


case_info = []


# ---------------------------------------------------------------------------
# enumeration

FIXED_WORLD = {
    'layers': [{'name': 'LA', 'bases': []}, {'name': 'LB', 'bases': ['LA']},
               {'name': 'LC', 'bases': []}],
    'modules': [
        {'name': 'm0', 'suite': {'s': [
            {'t': 'ua'}, {'t': 'ub', 'level': 2},
            {'s': [{'t': 'aa'}, {'t': 'ab', 'level': 2}, {'t': 'bb', 'layer': 'LB'}],
             'layer': 'LA'},
            {'s': [{'t': 'ca', 'level': 2}, {'t': 'cb'}, {'t': 'cc'}],
             'layer': 'LC'}]}},
        {'name': 'm1', 'suite': {'s': [
            {'t': 'ua2', 'level': 3}, {'t': 'xb', 'layer': 'LB'},
            {'s': [{'t': 'xa'}, {'t': 'xc', 'layer': 'LC'}], 'layer': 'LA',
             'level': 2}]}},
    ]}


def _gen_exhaustive():
    i = 0
    for u in (False, True):
        for f in (False, True):
            for layer in (None, ['LA'], ['!LA']):
                for sel in ({}, {'all': True}, {'t': ['a']},
                            {'t': ['!a'], 'only_level': 2}):
                    for rs in ({}, {'repeat': 2, 'shuffle': True, 'seed': 3},
                               {'repeat': 3}):
                        o = dict(sel)
                        o.update(rs)
                        if u:
                            o['u'] = True
                        if f:
                            o['f'] = True
                        if layer:
                            o['layer'] = layer
                        c = {'kind': 'inproc', 'world': FIXED_WORLD, 'opts': o}
                        if i % 4 == 0:
                            c['list_j'] = True
                        i += 1
                        yield c


def _rand_opts(rng, world, real=False):
    o = {}
    if rng.random() < 0.5:
        o['t'] = [rng.choice(['a', 'b', 'c', '!a', '!b', '1', '!2', 'a|b', '^t0'])
                  for _ in range(rng.randint(1, 2))]
    r = rng.random()
    if r < 0.3:
        o['all'] = True
    elif r < 0.6:
        o['at_level'] = rng.choice([0, 1, 2, 3])
    elif r < 0.75:
        o['only_level'] = rng.choice([1, 2, 3])
    if rng.random() < 0.2:
        o['u'] = True
    if rng.random() < 0.2:
        o['f'] = True
    names = [l['name'] for l in world['layers']]
    if names and rng.random() < 0.3:
        o['layer'] = [rng.choice(names + ['Unit', '!' + names[-1], '!Unit'])
                      for _ in range(rng.randint(1, 2))]
    if rng.random() < 0.4:
        o['repeat'] = rng.randint(2, 3)
    if rng.random() < 0.4:
        o['shuffle'] = True
        o['seed'] = rng.randint(0, 999)
    if real and rng.random() < 0.4:
        o['m'] = [rng.choice(['pa', 'pb', '!pb', 'm0', '!m1', 'tests'])]
    return o


def _gen_random(rng):
    i = 0
    while True:
        world = W.gen_world(rng, n_modules=rng.randint(1, 3),
                            depth=rng.randint(2, 4))
        if W.world_size(world) == 0:
            continue
        c = {'kind': 'inproc', 'world': world, 'opts': _rand_opts(rng, world)}
        if i % 4 == 0:
            c['list_j'] = True
        i += 1
        yield c


MODES_LAYERS = [{'name': 'LA', 'bases': [], 'notd': True},
                {'name': 'LB', 'bases': ['LA']}, {'name': 'LC', 'bases': []}]
MODES_WORLD = {
    'layers': MODES_LAYERS,
    'modules': [
        {'name': 'pa.tests.test_m0', 'suite': {'s': [
            {'t': 'ua'}, {'t': 'ub', 'level': 2},
            {'s': [{'t': 'aa'}, {'t': 'ab', 'level': 2}, {'t': 'bb', 'layer': 'LB'}],
             'layer': 'LA'},
            {'s': [{'t': 'ca', 'level': 2}, {'t': 'cb'}], 'layer': 'LC'}]}},
        {'name': 'pb.tests.test_m1', 'suite': {'s': [
            {'t': 'xb', 'layer': 'LB'}, {'t': 'uc'},
            {'s': [{'t': 'xa'}, {'t': 'xc', 'layer': 'LC'}], 'layer': 'LA'}]}},
    ]}


def _gen_modes(rng):
    yield {'kind': 'modes', 'world': MODES_WORLD, 'opts': {'all': True}}
    yield {'kind': 'modes', 'world': MODES_WORLD, 'opts': {'all': True, 'dup_path': 'nested'}}   # overlapping search paths
    yield {'kind': 'modes', 'world': MODES_WORLD, 'opts': {'all': True, 'dup_path': True}}
    yield {'kind': 'modes', 'world': MODES_WORLD,
           'opts': {'repeat': 2, 'shuffle': True, 'seed': 11, 't': ['!ub']}}
    yield {'kind': 'modes', 'world': MODES_WORLD,
           'opts': {'f': True, 'at_level': 2, 'm': ['pa']}}
    while True:
        world = W.gen_world(rng, n_modules=rng.randint(2, 3), depth=3, real=True,
                            notd='first' if rng.random() < 0.7 else False,
                            layer_sets=W.LAYER_SETS[2:])
        opts = _rand_opts(rng, world, real=True)
        # keep only cases that exercise several processes: the model must select
        # tests in at least two layers (real process runs are expensive)
        want = W.expected(world, opts, real=True)
        if len(want) < 2 or sum(len(x) for x in want.values()) < 3:
            continue
        yield {'kind': 'modes', 'world': world, 'opts': opts}


def _nontrivial(case):
    return W.world_size(case['world']) >= 2


def run(budget_s, seed, tier):
    t0 = time.time()
    deadline = t0 + budget_s * 0.92
    rng = random.Random(seed)
    col = W.Collector(_nontrivial)
    del case_info[:]
    # 1. real processes first (few): sequential/resumed vs -j 2 vs listing
    n_min = max(1, min(3, int(budget_s // 10))) if tier == 'quick' else 8
    stop = time.time() + (deadline - time.time()) * (0.33 if tier == 'quick' else 0.5)
    for i, case in enumerate(_gen_modes(rng)):
        if i >= n_min and time.time() + 3.5 > stop or time.time() + 4 > deadline:
            break
        col.feed(case, check_case)
        if i == 1:
            col.sample(case)
    for a_first in (True, False):
        for lst in (False, True):
            col.feed({'kind': 'alias', 'a_first': a_first, 'list': lst, 'world': {'layers': [], 'modules': []}, 'opts': {}},
                     check_case)
    # 2. exhaustive option grid on a fixed world, in-process
    exhaustive = True
    for i, case in enumerate(_gen_exhaustive()):
        if time.time() > deadline:
            exhaustive = False
            break
        col.feed(case, check_case)
        if i in (7, 100):
            col.sample(case)
    # 3. seeded random worlds + options, in-process
    for i, case in enumerate(_gen_random(rng)):
        if time.time() > deadline:
            break
        col.feed(case, check_case)
        if i in (2, 9):
            col.sample(case)
    res = col.result(
        exhaustive,
        'real-process cases (>= 3; each = sequential/resumed run + -j 2 run + listing '
        'of a real module tree with a layer that cannot be torn down); exhaustive '
        'in-process grid on a fixed 2-module 13-test 4-layer world: -u x -f x --layer '
        '{none, LA, !LA} x {default, --all, -t a, -t !a --only-level 2} x {plain, '
        '--repeat 2 --shuffle-seed 3, --repeat 3} (144 option vectors, each = run + '
        '--list-tests, every 4th also --list-tests -j 2); then seeded random worlds '
        '(<= 3 modules, depth <= 4, <= 3 children per suite, 0-3 layers with bases) '
        'x random option vectors until the budget',
        'a case is one (world, option vector) with 2-3 full Runner runs of the real '
        'code (modes: 3 runs, two of them with real child processes); distinct = '
        'distinct cases whose world has >= 2 tests')
    res['modes_processes'] = list(case_info)
    return res


def replay(case):
    v = check_case(case)
    if v:
        return True, '; '.join('%s: %s' % kv for kv in v[:3])
    return False, 'no violation for this case'
