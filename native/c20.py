"""C20 - native bounded oracle for zope.testrunner.digraph.DiGraph.sccs on the REAL code.

Property (properties.jsonl C20): for every directed graph, sccs(trivial=True) yields
each strongly connected component exactly once and the components partition the
nodes; the default mode yields exactly the components containing a cycle (more than
one node, or a self-loop).  The oracle is an independent reachability closure
(Warshall), not Tarjan.

A case is JSON:
  {"n": 3,                      # known nodes are 0..n-1
   "edges": [[0, 1], [1, 1]],   # edges between known nodes (self-loops allowed)
   "order": [2, 0, 1],          # insertion order of nodes (constructor/add_nodes) and
                                #   of the add_neighbors calls
   "kind": "int" | "str" | "int-id" | "list-id" | "obj-id",
                                # node type and make_hashable (None / id)
   "call": "all" | "nonempty" | "per-edge",
                                # add_neighbors called for every node (possibly with an
                                #   empty list) / only for nodes with outgoing edges /
                                #   once per edge (exercises the `nbs |=` branch)
   "unknown": [[0, 7]],         # extra neighbours that are not nodes of the graph
   "unknown_src": [[8, 0]],     # add_neighbors called for a node not in the graph
   "ctor": true}                # nodes passed to the constructor, else add_nodes()
"""
import itertools
import random
import time

PROPERTY = "C20"

KINDS = ("int", "str", "int-id", "list-id", "obj-id")
CALLS = ("all", "nonempty", "per-edge", "scratch-set", "shared-set")

KEY_F9 = "sccs:node-without-add_neighbors:KeyError"


class _Obj:
    """identity-keyed, unhashable-by-value object"""
    __slots__ = ("i",)
    __hash__ = None

    def __init__(self, i):
        self.i = i

    def __eq__(self, other):  # equality is deliberately useless
        return True


def _make_nodes(kind, count):
    if kind == "int" or kind == "int-id":
        objs = list(range(count))
    elif kind == "str":
        objs = ["node%d" % i for i in range(count)]
    elif kind == "list-id":
        objs = [[i] for i in range(count)]
    elif kind == "obj-id":
        objs = [_Obj(i) for i in range(count)]
    else:
        raise ValueError(kind)
    return objs


def _index_of(kind, obj):
    if kind in ("int", "int-id"):
        return obj
    if kind == "str":
        return int(obj[4:])
    if kind == "list-id":
        return obj[0]
    return obj.i


def _expected(n, edges):
    """reachability closure -> list of frozenset components"""
    reach = [[False] * n for _ in range(n)]
    for a, b in edges:
        reach[a][b] = True
    for k in range(n):
        rk = reach[k]
        for i in range(n):
            if reach[i][k]:
                ri = reach[i]
                for j in range(n):
                    if rk[j]:
                        ri[j] = True
    comps = []
    seen = set()
    for u in range(n):
        if u in seen:
            continue
        comp = {u}
        for v in range(n):
            if v != u and reach[u][v] and reach[v][u]:
                comp.add(v)
        seen |= comp
        comps.append(frozenset(comp))
    loops = {a for a, b in edges if a == b}
    cyclic = [c for c in comps if len(c) > 1 or (next(iter(c)) in loops)]
    return comps, cyclic


def _build(case):
    from zope.testrunner.digraph import DiGraph
    n = case["n"]
    kind = case["kind"]
    unknown = [tuple(e) for e in case.get("unknown", ())]
    unknown_src = [tuple(e) for e in case.get("unknown_src", ())]
    extra = [b for _, b in unknown] + [a for a, _ in unknown_src]
    total = max([n] + [x + 1 for x in extra])
    objs = _make_nodes(kind, total)
    mh = id if kind.endswith("-id") else None
    order = case.get("order") or list(range(n))
    if case.get("ctor", True):
        g = DiGraph([objs[i] for i in order], make_hashable=mh)
    else:
        g = DiGraph(make_hashable=mh)
        for i in order:
            g.add_nodes(iter([objs[i]]))
    out = {i: [] for i in range(n)}
    for a, b in case["edges"]:
        out[a].append(b)
    for a, b in unknown:
        out[a].append(b)
    called = set()
    scratch, shared = set(), {}
    mode = case.get("call", "all")
    for i in order:
        nbs = out[i]
        if mode == "all":
            g.add_neighbors(objs[i], [objs[j] for j in nbs])
            called.add(i)
        elif mode == "nonempty":
            if nbs:
                g.add_neighbors(objs[i], iter([objs[j] for j in nbs]))
                called.add(i)
        elif mode == "scratch-set":
            # the caller re-uses ONE set object for the neighbours of every node
            if kind not in ("list-id", "obj-id"):     # (unhashable node objects: those kinds keep plain lists)
                scratch.clear()
                scratch.update(objs[j] for j in nbs)
                g.add_neighbors(objs[i], scratch)
            else:
                g.add_neighbors(objs[i], [objs[j] for j in nbs])
            called.add(i)
        elif mode == "shared-set":
            # nodes with equal neighbour lists are given the very same set object; the edges are then added once more
            # one by one (an in-place update of a stored set must not show through another node)
            if kind not in ("list-id", "obj-id"):
                key = tuple(nbs[:-1])
                sobj = shared.get(key)
                if sobj is None:
                    sobj = shared[key] = set(objs[j] for j in nbs[:-1])
                g.add_neighbors(objs[i], sobj)
                for j in nbs[-1:]:
                    g.add_neighbors(objs[i], {objs[j]})
            else:
                g.add_neighbors(objs[i], [objs[j] for j in nbs])
            called.add(i)
        elif mode == "per-edge":
            for j in nbs:
                g.add_neighbors(objs[i], [objs[j]])
                called.add(i)
        else:
            raise ValueError(mode)
    for a, b in unknown_src:
        g.add_neighbors(objs[a], [objs[b]])  # silently ignored (ignore_unknown)
    return g, objs, called


def _check(case):
    """run the real code on the case; -> list of (key, summary)"""
    n = case["n"]
    kind = case["kind"]
    edges = [tuple(e) for e in case["edges"]]
    comps, cyclic = _expected(n, edges)
    problems = []
    try:
        g, objs, called = _build(case)
    except Exception as e:  # building must not fail either
        return [("digraph:build:exception:%s" % type(e).__name__,
                 "building the graph raised %r" % (e,))]

    for trivial, want in ((True, comps), (False, cyclic)):
        mode = "trivial" if trivial else "default"
        got = []
        try:
            for comp in g.sccs(trivial=True) if trivial else g.sccs():
                got.append([_index_of(kind, o) for o in comp])
        except KeyError as e:
            singles_uncalled = [c for c in comps
                                if len(c) == 1 and next(iter(c)) not in called]
            if not trivial and singles_uncalled:
                problems.append((KEY_F9,
                                 "sccs() (default mode) raised KeyError(%s): single-node "
                                 "component %s whose node never had add_neighbors called"
                                 % (e, sorted(singles_uncalled[0]))))
            else:
                problems.append(("sccs:%s:exception:KeyError" % mode,
                                 "sccs raised KeyError(%s) after yielding %r" % (e, got)))
            continue
        except Exception as e:
            problems.append(("sccs:%s:exception:%s" % (mode, type(e).__name__),
                             "sccs raised %r after yielding %r" % (e, got)))
            continue
        flat = [x for c in got for x in c]
        gotsets = [frozenset(c) for c in got]
        if any(len(c) != len(set(c)) for c in got):
            problems.append(("sccs:%s:node-repeated-inside-component" % mode,
                             "got %r" % (got,)))
        elif len(flat) != len(set(flat)):
            problems.append(("sccs:%s:components-overlap" % mode,
                             "got %r, expected %r" % (got, sorted(map(sorted, want)))))
        elif len(gotsets) != len(set(gotsets)):
            problems.append(("sccs:%s:component-yielded-twice" % mode, "got %r" % (got,)))
        elif set(gotsets) != set(want):
            missing = set(want) - set(gotsets)
            extra = set(gotsets) - set(want)
            if trivial:
                what = "wrong-components"
                if not extra and missing:
                    what = "component-missing"
                if set(flat) != set(range(n)):
                    what = "not-a-partition"
            else:
                if extra and all(len(c) == 1 for c in extra) and not missing:
                    what = "acyclic-singleton-reported"
                elif missing and all(len(c) == 1 for c in missing) and not extra:
                    what = "self-loop-component-dropped"
                else:
                    what = "wrong-components"
            problems.append(("sccs:%s:%s" % (mode, what),
                             "got %r, expected %r" % (sorted(map(sorted, gotsets)),
                                                      sorted(map(sorted, want)))))
    return problems


def _size(case):
    return (case["n"], len(case["edges"]) + len(case.get("unknown", ()))
            + len(case.get("unknown_src", ())), case["kind"] != "int",
            case.get("call") != "nonempty", list(case.get("order") or ()))


def _edges_from_mask(n, mask):
    return [[a, b] for a in range(n) for b in range(n) if mask >> (a * n + b) & 1]


def run(budget_s, seed, tier):
    from zope.testrunner.digraph import DiGraph  # noqa: F401 (fail early)
    t0 = time.time()
    deadline = t0 + budget_s * 0.9
    rnd = random.Random(seed)
    cases = 0
    distinct = set()
    findings = {}
    samples = []
    complete = {"n<=3": False, "n=4": False}

    def do(case):
        nonlocal cases
        cases += 1
        if case["edges"] or case.get("unknown"):
            distinct.add((case["n"], tuple(map(tuple, case["edges"])),
                          tuple(map(tuple, case.get("unknown", ()))),
                          tuple(case.get("order") or ()), case["kind"], case["call"]))
        for key, summary in _check(case):
            old = findings.get(key)
            if old is None or _size(case) < _size(old["case"]):
                findings[key] = {"key": key, "summary": summary, "case": case}

    # -- part 1: every digraph with self-loops on <= 3 nodes x every insertion order
    #            x node kinds x add_neighbors call modes
    done = True
    for n in (0, 1, 2, 3):
        for mask in range(1 << (n * n)):
            edges = _edges_from_mask(n, mask)
            for order in itertools.permutations(range(n)):
                for kind in KINDS:
                    for call in CALLS:
                        do({"n": n, "edges": edges, "order": list(order), "kind": kind,
                            "call": call, "ctor": (mask + len(order)) % 2 == 0})
            if time.time() > deadline:
                done = False
                break
        if not done:
            break
    complete["n<=3"] = done
    if done:
        samples.append({"n": 3, "edges": [[0, 1], [1, 2], [2, 0], [2, 2]],
                        "order": [2, 0, 1], "kind": "list-id", "call": "per-edge",
                        "ctor": True})

    # -- part 2: 4 nodes, one insertion order: all 65536 in thorough, a sample in quick
    n = 4
    space = 1 << 16
    if tier == "quick":
        masks = sorted(rnd.sample(range(space), 16384))
    else:
        masks = range(space)
    done4 = done
    if done:
        for i, mask in enumerate(masks):
            edges = _edges_from_mask(n, mask)
            kind = KINDS[mask % len(KINDS)]
            do({"n": n, "edges": edges, "order": [0, 1, 2, 3], "kind": kind,
                "call": "all", "ctor": True})
            do({"n": n, "edges": edges, "order": [0, 1, 2, 3], "kind": "int",
                "call": "nonempty", "ctor": True})
            if i % 512 == 0 and time.time() > deadline:
                done4 = False
                break
    complete["n=4"] = bool(done4 and tier != "quick")

    # -- part 3: edges to unknown nodes / unknown sources on the small graphs
    if done4:
        for n in (1, 2, 3):
            for mask in range(1 << (n * n)):
                edges = _edges_from_mask(n, mask)
                for src in range(n):
                    for kind in ("int", "list-id"):
                        do({"n": n, "edges": edges, "order": list(range(n)), "kind": kind,
                            "call": "all", "unknown": [[src, n]],
                            "unknown_src": [[n + 1, 0]], "ctor": True})
                    do({"n": n, "edges": edges, "order": list(range(n)), "kind": "str",
                        "call": "nonempty", "unknown": [[src, n], [src, n + 1]],
                        "ctor": False})
            if time.time() > deadline:
                break

    # -- part 4: random graphs on 5..7 nodes (sparse and dense), random everything
    rand_cases = 0
    rand_cap = 60000 if tier == "quick" else 400000
    while time.time() < deadline and rand_cases < rand_cap:
        n = rnd.choice((5, 6, 7))
        dens = rnd.choice((0.08, 0.15, 0.25, 0.4, 0.7))
        edges = [[a, b] for a in range(n) for b in range(n) if rnd.random() < dens]
        order = list(range(n))
        rnd.shuffle(order)
        case = {"n": n, "edges": edges, "order": order, "kind": rnd.choice(KINDS),
                "call": rnd.choice(CALLS), "ctor": rnd.random() < 0.5}
        if rnd.random() < 0.3:
            case["unknown"] = [[rnd.randrange(n), n + rnd.randrange(2)]
                               for _ in range(rnd.randint(1, 3))]
        if rnd.random() < 0.2:
            case["unknown_src"] = [[n + 2, rnd.randrange(n)]]
        do(case)
        rand_cases += 1
        if len(samples) < 4 and rand_cases % 997 == 1:
            samples.append(case)

    exhaustive = bool(complete["n<=3"] and (complete["n=4"] or tier == "quick"))
    bound = ("all digraphs with self-loops on <=3 nodes (2+16+512 edge sets, plus the empty "
             "graph) x all node insertion orders x 5 node kinds (int/str with "
             "make_hashable=None; int/list/unhashable-object keyed by id) x 3 add_neighbors "
             "call modes: %s; 4 nodes, one order: %s; unknown-neighbour/unknown-source "
             "variants on <=3 nodes; %d random graphs on 5-7 nodes"
             % ("complete" if complete["n<=3"] else "INCOMPLETE (budget)",
                "all 65536 edge sets complete" if complete["n=4"] else
                ("sample of %d of 65536 edge sets" % len(masks)) if tier == "quick"
                else "INCOMPLETE (budget)", rand_cases))
    return {
        "cases": cases,
        "distinct": len(distinct),
        "rule": "a case is non-trivial if it has at least one edge; distinct = distinct "
                "(edge set, unknown edges, insertion order, node kind, call mode); each case "
                "runs sccs(trivial=True) and sccs() on the real DiGraph",
        "exhaustive": exhaustive,
        "bound": bound,
        "samples": samples[:5],
        "findings": sorted(findings.values(), key=lambda f: f["key"]),
    }


def replay(case):
    problems = _check(case)
    if problems:
        return True, "; ".join("%s: %s" % p for p in problems)
    return False, "no violation on this case"
