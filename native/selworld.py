"""Shared helper for the selection oracles (C03, C08, C09, C11).

A *world* is a small JSON-serialisable description of a test tree::

    world = {
      "layers":  [{"name": "LA", "bases": [], "notd": false}, ...],   # bases before derived
      "modules": [{"name": "pa.tests.test_m0", "suite": NODE}, ...]  # in discovery order
    }
    NODE = {"s": [NODE, ...], "level": int?, "layer": str?}   # a unittest.TestSuite
         | {"t": "test name",  "level": int?, "layer": str?}   # a leaf test (str(test) == name)

``layer`` is the short name of a layer of the world, or ``"unit"`` for
zope.testrunner.layer.UnitTests; ``"layer_str": true`` declares it by its dotted
name (a string) instead of by the class object.

A world is executed by the REAL runner in two ways:

* ``run_inproc``: the suites are built in this process and passed to
  ``Runner(found_suites=...)``;
* ``RealWorld``: real importable modules are written to a temp dir that is given
  with ``--path``; discovery, -m filtering, ``-j N`` and resumed layers (children
  are real processes) go through the real code.

Tests, layer hooks and module imports append events ``(pid, kind, name)`` to an
in-memory list and - if the env var SELWORLD_LOG is set - to that file, so that
executions in child processes are visible.

The *reference model* (``expected``) is an independent computation of which tests
have to run, per layer, in which order, written from the property statements and
not from the code under test.
"""
import contextlib
import hashlib
import importlib
import json
import io
import logging
import math
import os
import random
import re
import shutil
import sys
import tempfile
import types

UNIT = 'zope.testrunner.layer.UnitTests'
LAYMOD = 'selw_layers'
ENV = 'SELWORLD_LOG'

# --------------------------------------------------------------------------
# code that lives in the generated world (same text in-process and on disk)

PRELUDE = r'''
import os
import unittest

EVENTS = []


def _log(kind, name):
    EVENTS.append((os.getpid(), kind, name))
    p = os.environ.get('SELWORLD_LOG')
    if p:
        with open(p, 'a') as f:
            f.write('%d\t%s\t%s\n' % (os.getpid(), kind, name))


class LoggedTest(unittest.TestCase):

    def __init__(self, name):
        unittest.TestCase.__init__(self, 'runTest')
        self._selw_name = name

    def runTest(self):
        _log('test', self._selw_name)

    def id(self):
        # deliberately NOT the string the --test filter sees (str(test)): a runner that also consults id() -- or only
        # id() -- selects differently, and the difference is visible to the patterns of the oracles
        return 'selwid.' + self._selw_name.swapcase()

    def __str__(self):
        return self._selw_name

    __repr__ = __str__


def _make_layer(name, bases, notd, modname):
    def setUp(cls):
        _log('setUp', name)

    def tearDown(cls):
        _log('tearDown', name)
        if notd:
            raise NotImplementedError

    def testSetUp(cls):
        _log('testSetUp', name)

    def testTearDown(cls):
        _log('testTearDown', name)
    ns = dict(setUp=classmethod(setUp), tearDown=classmethod(tearDown),
              testSetUp=classmethod(testSetUp),
              testTearDown=classmethod(testTearDown),
              __module__=modname)
    return type(name, tuple(bases) or (object,), ns)


def _define_layers(specs, ns, modname):
    for spec in specs:
        ns[spec['name']] = _make_layer(
            spec['name'], [ns[b] for b in spec.get('bases', ())],
            bool(spec.get('notd')), modname)


def _layer_of(node, ns, modname):
    short = node['layer']
    if short == 'unit':
        import zope.testrunner.layer
        if node.get('layer_str'):
            return 'zope.testrunner.layer.UnitTests'
        return zope.testrunner.layer.UnitTests
    if node.get('layer_str'):
        return modname + '.' + short
    return ns[short]


def build(node, ns=None, modname=None):
    """Build the unittest object for a NODE."""
    if ns is None:
        ns = globals()
        modname = __name__
    if 't' in node:
        obj = LoggedTest(node['t'])
    else:
        obj = unittest.TestSuite()
        for child in node['s']:
            obj.addTest(build(child, ns, modname))
    if node.get('level') is not None:
        obj.level = node['level']
    if node.get('layer') is not None:
        obj.layer = _layer_of(node, ns, modname)
    return obj
'''

LAYERS_TAIL = r'''
LAYER_SPECS = %r
_define_layers(LAYER_SPECS, globals(), __name__)
'''

MODULE_SRC = r'''
import %(laymod)s as W
W._log('import', __name__)
SPEC = %(spec)r


def test_suite():
    return W.build(SPEC)
'''


# --------------------------------------------------------------------------
# reference model (independent of the code under test)

def ref_accept(patterns, name):
    """The C08 predicate, straight from the property statement."""
    pos = [p for p in patterns if not p.startswith('!')]
    neg = [p[1:] for p in patterns if p.startswith('!')]
    if pos:
        hit = False
        for p in pos:
            if re.search(p, name) is not None:
                hit = True
    else:
        hit = bool(neg)      # only '!'-patterns were given
    for p in neg:
        if re.search(p, name) is not None:
            return False
    return hit


def layer_fullname(short):
    return UNIT if short == 'unit' else LAYMOD + '.' + short


def flatten(world, modules=None):
    """-> [(test name, layer full name, level, module name)] in discovery order;
    nearest declaration wins, defaults unit layer / level 1 (C09)."""
    out = []

    def walk(node, layer, level, modname):
        if node.get('level') is not None:
            level = node['level']
        if node.get('layer') is not None:
            layer = layer_fullname(node['layer'])
        if 't' in node:
            out.append((node['t'], layer, level, modname))
        else:
            for child in node['s']:
                walk(child, layer, level, modname)

    for m in world['modules']:
        if modules is not None and m['name'] not in modules:
            continue
        walk(m['suite'], UNIT, 1, m['name'])
    return out


def level_ok(level, opts):
    only = opts.get('only_level')
    if only is not None:
        return level == only
    if opts.get('all'):
        return True
    at = opts.get('at_level')
    if at is None:
        at = 1
    return at <= 0 or level <= at


def test_patterns(opts):
    pats = list(opts.get('t') or [])
    leg = opts.get('legacy')
    if leg and len(leg) > 1:
        pats.append(leg[1])
    return pats or ['.']


def module_patterns(opts):
    pats = list(opts.get('m') or [])
    leg = opts.get('legacy')
    if leg and leg[0] != '.':
        pats.append(leg[0])
    return pats or ['.']


def layer_kept(name, opts):
    u, f = bool(opts.get('u')), bool(opts.get('f'))
    if u and f:
        u = f = False
    if name == UNIT:
        if f:
            return False
        if u:
            return True
    elif u:
        return False
    pats = opts.get('layer')
    if pats:
        return ref_accept(pats, name)
    return True


def ref_shuffle(by_layer, seed):
    """Independent re-implementation of the documented shuffle."""
    rng = random.Random(seed)
    rng.seed(seed, version=1)
    out = {}
    for name in sorted(by_layer):
        tests = list(by_layer[name])
        i = len(tests) - 1
        while i >= 1:
            j = int(math.floor(rng.random() * (i + 1)))
            tests[i], tests[j] = tests[j], tests[i]
            i -= 1
        out[name] = tests
    return out


def discovered(world, opts, real=False):
    """layer full name -> [test names] after discovery (module, level and test
    filters) and before the layer/unit filters; in discovery order."""
    mods = None
    if real:
        mp = module_patterns(opts)
        mods = {m['name'] for m in world['modules'] if ref_accept(mp, m['name'])}
    tp = test_patterns(opts)
    by_layer = {}
    for name, layer, level, _mod in flatten(world, mods):
        if level_ok(level, opts) and ref_accept(tp, name):
            by_layer.setdefault(layer, []).append(name)
    return by_layer


def expected(world, opts, real=False):
    """layer full name -> [test names] that have to run (order: discovery order,
    or the documented shuffle of it when opts['shuffle'] and a seed is known)."""
    by_layer = discovered(world, opts, real)
    if opts.get('shuffle') and opts.get('seed') is not None:
        by_layer = ref_shuffle(by_layer, opts['seed'])
    return {k: v for k, v in by_layer.items() if layer_kept(k, opts)}


def layer_closure(world):
    """short layer name -> set of short names of the layer and all its bases"""
    bases = {l['name']: list(l.get('bases', ())) for l in world['layers']}
    out = {}

    def clo(n):
        if n not in out:
            s = {n}
            for b in bases[n]:
                s |= clo(b)
            out[n] = s
        return out[n]
    for n in bases:
        clo(n)
    return out


# --------------------------------------------------------------------------
# command lines

def argv(opts, path, list_tests=False):
    a = ['selw-prog', '--path', path]
    if opts.get('dup_path') == 'nested':
        a += ['--path', os.path.join(path, 'pa')]        # a search path lying inside another one: its files are found once
    elif opts.get('dup_path'):
        a += ['--path', path, '--test-path', path]      # the same directory given again (and as a --test-path): found once
    for p in opts.get('t') or []:
        a += ['-t', p]
    for p in opts.get('m') or []:
        a += ['-m', p]
    for p in opts.get('layer') or []:
        a += ['--layer', p]
    if opts.get('all') and opts.get('all_first'):
        a += ['--all']                   # --all wins wherever it stands on the command line
    if opts.get('at_level') is not None:
        a += ['--at-level=%d' % opts['at_level']]
    if opts.get('all') and not opts.get('all_first'):
        a += ['--all']
    if opts.get('only_level') is not None:
        a += ['--only-level=%d' % opts['only_level']]
    if opts.get('u'):
        a += ['-u']
    if opts.get('f'):
        a += ['-f']
    if opts.get('repeat'):
        a += ['--repeat', str(opts['repeat'])]
    if opts.get('shuffle'):
        a += ['--shuffle']
    if opts.get('seed') is not None:
        a += ['--shuffle-seed=%d' % opts['seed']]
    if opts.get('j'):
        a += ['-j', str(opts['j'])]
    if list_tests:
        a += ['--list-tests']
    if opts.get('legacy'):
        a += list(opts['legacy'])
    return a


# --------------------------------------------------------------------------
# running the real code

def _stdout_capture():
    # the runner writes child output as bytes to sys.stdout.buffer
    return io.TextIOWrapper(io.BytesIO(), encoding='utf-8',
                            errors='replace', write_through=True)


@contextlib.contextmanager
def _sandbox(extra_modules=()):
    """Keep process-global state unchanged across a Runner.run()."""
    old_out, old_err, old_in = sys.stdout, sys.stderr, sys.stdin
    old_path = list(sys.path)
    old_mods = set(sys.modules)
    root = logging.getLogger()
    old_handlers = list(root.handlers)
    old_env = os.environ.get(ENV)
    cap = _stdout_capture()
    sys.stdout = cap
    try:
        yield cap
    finally:
        sys.stdout, sys.stderr, sys.stdin = old_out, old_err, old_in
        sys.path[:] = old_path
        for name in set(sys.modules) - old_mods:
            if name == LAYMOD or name in extra_modules or \
                    any(name.startswith(x + '.') for x in extra_modules):
                del sys.modules[name]
        root.handlers[:] = old_handlers
        if old_env is None:
            os.environ.pop(ENV, None)
        else:
            os.environ[ENV] = old_env


def _captured(cap):
    cap.flush()
    return cap.buffer.getvalue().decode('utf-8', 'replace')


def make_layers_module(world):
    mod = types.ModuleType(LAYMOD)
    exec(compile(PRELUDE + LAYERS_TAIL % (world['layers'],),
                 '<selw_layers>', 'exec'), mod.__dict__)
    return mod


def run_inproc(world, opts, list_tests=False, extra_args=()):
    """Run the REAL Runner in this process on suites built from the world.
    -> (events [(pid, kind, name)], stdout text, runner)"""
    from zope.testrunner.runner import Runner
    from native import _boot
    # suites built here are invisible to child processes: never let an
    # in-process world resume layers in children
    assert not opts.get('j') or list_tests, 'in-process worlds cannot use -j'
    assert not any(l.get('notd') for l in world['layers'])
    mod = make_layers_module(world)
    suites = [mod.build(m['suite']) for m in world['modules']]
    tmp = tempfile.mkdtemp(prefix='selw-')
    try:
        with _sandbox() as cap:
            os.environ.pop(ENV, None)
            sys.modules[LAYMOD] = mod
            try:
                r = Runner(defaults=[],
                           args=argv(opts, tmp, list_tests) + list(extra_args),
                           found_suites=suites,
                           script_parts=_boot.CHILD_SCRIPT_PARTS)
                r.run()
            finally:
                sys.modules.pop(LAYMOD, None)
            out = _captured(cap)
    finally:
        shutil.rmtree(tmp, ignore_errors=True)
    return list(mod.EVENTS), out, r


class RealWorld:
    """The world written out as real importable modules in a temp dir."""

    def __init__(self, world):
        self.world = world
        self.dir = None

    def __enter__(self):
        self.dir = tempfile.mkdtemp(prefix='selw-real-')
        with open(os.path.join(self.dir, LAYMOD + '.py'), 'w') as f:
            f.write(PRELUDE + LAYERS_TAIL % (self.world['layers'],))
        self.tops = set()
        names = [m['name'] for m in self.world['modules']]
        assert names == sorted(names), 'modules must be in discovery order'
        for m in self.world['modules']:
            parts = m['name'].split('.')
            assert len(parts) == 3 and parts[1] == 'tests' \
                and parts[2].startswith('test'), m['name']
            self.tops.add(parts[0])
            d = self.dir
            for p in parts[:-1]:
                d = os.path.join(d, p)
                if not os.path.isdir(d):
                    os.mkdir(d)
                    open(os.path.join(d, '__init__.py'), 'w').close()
            with open(os.path.join(d, parts[-1] + '.py'), 'w') as f:
                f.write(MODULE_SRC % {'laymod': LAYMOD, 'spec': m['suite']})
        self.log = os.path.join(self.dir, 'events.log')
        return self

    def __exit__(self, *exc):
        shutil.rmtree(self.dir, ignore_errors=True)

    def _events(self):
        events = []
        with open(self.log) as f:
            for line in f:
                pid, kind, name = line.rstrip('\n').split('\t', 2)
                events.append((int(pid), kind, name))
        return events

    def run_local(self, opts, list_tests=False, extra_args=()):
        """Run the REAL Runner in this process on the real modules.  Only for
        cases that cannot spawn children (no -j, no layer that cannot be torn
        down).  -> (events, stdout text, runner)"""
        from zope.testrunner.runner import Runner
        from native import _boot
        assert list_tests or not opts.get('j'), 'use run() for -j'
        assert list_tests or \
            not any(l.get('notd') for l in self.world['layers']), \
            'use run() for layers that cannot be torn down'
        open(self.log, 'w').close()
        importlib.invalidate_caches()
        with _sandbox(extra_modules=self.tops) as cap:
            os.environ[ENV] = self.log
            r = Runner(defaults=[],
                       args=argv(opts, self.dir, list_tests) + list(extra_args),
                       script_parts=_boot.CHILD_SCRIPT_PARTS)
            r.run()
            out = _captured(cap)
        return self._events(), out, r

    def run(self, opts, list_tests=False, extra_args=(), timeout=60.0):
        """Run the REAL Runner as a separate process (its own session / process
        group, hard watchdog, the whole group is killed afterwards) so that the
        layer children it spawns (-j N, resumed layers) can never outlive the
        case.  Children are started with _boot.CHILD_SCRIPT_PARTS only.
        -> (events, stdout text, None)"""
        import json
        import signal
        import subprocess
        from native import _boot
        open(self.log, 'w').close()
        driver = _boot.BOOT + DRIVER % (_boot.CHILD_SCRIPT_PARTS,)
        args = argv(opts, self.dir, list_tests) + list(extra_args)
        env = dict(os.environ)
        env[ENV] = self.log
        env['PYTHONWARNINGS'] = 'ignore'
        proc = subprocess.Popen(
            [sys.executable, '-c', driver, json.dumps(args)],
            stdin=subprocess.DEVNULL, stdout=subprocess.PIPE,
            stderr=subprocess.PIPE, env=env, cwd=self.dir,
            start_new_session=True)
        try:
            try:
                out, err = proc.communicate(timeout=timeout)
            except subprocess.TimeoutExpired:
                raise RuntimeError('watchdog: runner process exceeded %ss'
                                   % timeout)
        finally:
            try:
                os.killpg(proc.pid, signal.SIGKILL)
            except (ProcessLookupError, PermissionError):
                pass
            try:
                proc.communicate(timeout=5)
            except Exception:
                pass
        if proc.returncode != 0:
            raise RuntimeError('runner process failed (%s): %s' % (
                proc.returncode, err.decode('utf-8', 'replace')[-2000:]))
        return self._events(), out.decode('utf-8', 'replace'), None


DRIVER = r"""
import sys, json
from zope.testrunner.runner import Runner
_r = Runner(defaults=[], args=json.loads(sys.argv[1]), script_parts=%r)
_r.run()
sys.stdout.flush()
"""


# --------------------------------------------------------------------------
# observations

def parse_listing(out):
    """--list-tests output -> [(layer name, [test names])] (empty sections kept)"""
    res = []
    for line in out.splitlines():
        m = re.match(r'Listing (.*) tests:$', line)
        if m:
            res.append((m.group(1), []))
        elif line.startswith('  ') and res:
            res[-1][1].append(line[2:])
    return res


def reported_seeds(out):
    return [int(x) for x in re.findall(
        r'Tests were shuffled using seed number (-?\d+)\.', out)]


CODE_KINDS = ('test', 'setUp', 'tearDown', 'testSetUp', 'testTearDown')


def executions(events):
    """-> [(pid, test name, frozenset(short layers whose testSetUp ran for it),
            frozenset(short layers set up in that process at that moment))]"""
    res = []
    pending = {}   # pid -> set of testSetUp layers since the last test
    up = {}        # pid -> set of layers set up
    for pid, kind, name in events:
        if kind == 'testSetUp':
            pending.setdefault(pid, set()).add(name)
        elif kind == 'testTearDown':
            pending.pop(pid, None)
        elif kind == 'setUp':
            up.setdefault(pid, set()).add(name)
        elif kind == 'tearDown':
            up.setdefault(pid, set()).discard(name)
        elif kind == 'test':
            res.append((pid, name, frozenset(pending.pop(pid, ())),
                        frozenset(up.get(pid, ()))))
    return res


def world_size(world):
    return len(flatten(world))


# --------------------------------------------------------------------------
# generators (deterministic given the rng)

LAYER_SETS = [
    [],
    [{'name': 'LA', 'bases': []}],
    [{'name': 'LA', 'bases': []}, {'name': 'LB', 'bases': []}],
    [{'name': 'LA', 'bases': []}, {'name': 'LB', 'bases': ['LA']}],
    [{'name': 'LA', 'bases': []}, {'name': 'LB', 'bases': ['LA']},
     {'name': 'LC', 'bases': []}],
    [{'name': 'LA', 'bases': []}, {'name': 'LB', 'bases': []},
     {'name': 'LC', 'bases': ['LA', 'LB']}],
]


def gen_node(rng, layer_names, names, depth, p_decl=0.35, levels=(1, 2, 3)):
    """random NODE; `names` is an iterator of fresh test names"""
    def decl(node):
        if rng.random() < p_decl:
            node['level'] = rng.choice(levels)
        if rng.random() < p_decl:
            node['layer'] = rng.choice(list(layer_names) + ['unit'])
        return node
    if depth <= 0 or rng.random() < 0.3:
        return decl({'t': next(names)})
    kids = [gen_node(rng, layer_names, names, depth - 1, p_decl, levels)
            for _ in range(rng.randint(0, 3))]
    return decl({'s': kids})


def name_stream(prefix, alphabet='abc'):
    n = 0
    while True:
        # short distinctive ids: <prefix>.<letters><n>
        letters = alphabet[n % len(alphabet)] + \
            alphabet[(n // len(alphabet)) % len(alphabet)]
        yield '%s_%s%d' % (prefix, letters, n)
        n += 1


def gen_world(rng, n_modules=2, depth=3, real=False, notd=False,
              levels=(1, 2, 3), layer_sets=None):
    layers = [dict(l) for l in rng.choice(layer_sets or LAYER_SETS)]
    if notd and layers:
        (layers[0] if notd == 'first' else rng.choice(layers))['notd'] = True
    lnames = [l['name'] for l in layers]
    mods = []
    for i in range(n_modules):
        mname = ('p%s.tests.test_m%d' % ('ab'[i % 2], i)) if real else 'm%d' % i
        names = name_stream('t%d' % i)
        node = gen_node(rng, lnames, names, depth, levels=levels)
        if 't' in node:
            node = {'s': [node]}
        mods.append({'name': mname, 'suite': node})
    mods.sort(key=lambda m: m['name'])
    return {'layers': layers, 'modules': mods}


# --------------------------------------------------------------------------

class Collector:
    """counts cases, keeps <= 5 samples and the smallest case per finding key"""

    def __init__(self, nontrivial):
        self.nontrivial = nontrivial
        self.cases = 0
        self.distinct = set()
        self.findings = {}
        self.samples = []
        self.kinds = {}

    def feed(self, case, check):
        self.cases += 1
        self.kinds[case['kind']] = self.kinds.get(case['kind'], 0) + 1
        if self.nontrivial(case):
            self.distinct.add(hashlib.md5(
                json.dumps(case, sort_keys=True).encode()).digest())
        try:
            viol = check(case)
        except Exception as e:   # the real code blew up: that is a finding too
            viol = [('crash:%s:%s' % (case['kind'], type(e).__name__),
                     '%s: %s' % (type(e).__name__, e))]
        for key, summary in viol:
            size = len(json.dumps(case))
            old = self.findings.get(key)
            if old is None or size < old[0]:
                self.findings[key] = (size, {'key': key, 'summary': summary,
                                             'case': case})

    def sample(self, case):
        if len(self.samples) < 5:
            self.samples.append(case)

    def result(self, exhaustive, bound, rule):
        return {'cases': self.cases, 'distinct': len(self.distinct),
                'rule': rule, 'exhaustive': exhaustive, 'bound': bound,
                'by_kind': self.kinds, 'samples': self.samples,
                'findings': [f for _s, f in sorted(
                    self.findings.values(), key=lambda x: x[1]['key'])]}
