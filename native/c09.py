"""C09 - nearest layer/level declaration wins; level and unit switches as documented.

Oracle: REAL ``find.tests_from_suite`` / ``find.find_tests`` on generated
unittest trees (options object from the REAL ``get_options``), and REAL in-process
``Runner`` runs for the -u/-f/--layer switches, against the reference model in
``selworld`` (nearest declaration, default unit layer / level 1, level predicate,
unit switches) written from the property statement.

Case kinds:
  tree  {world, opts}   tests_from_suite + find_tests on every module suite of the
                        world: every test is yielded for exactly its own layer iff
                        its own level is eligible
  e2e   {world, opts}   full Runner run: the tests that execute are exactly the
                        eligible tests of the kept layers, each with the per-test
                        hooks (testSetUp) of its own layer and that layer's bases
"""
import itertools
import json
import random
import time

from native import selworld as W

PROPERTY = "C09"

_mods = {}


def _layers_module(world):
    key = json.dumps(world['layers'], sort_keys=True)
    if key not in _mods:
        if len(_mods) > 50:
            _mods.clear()
        _mods[key] = W.make_layers_module(world)
    return _mods[key]


_opt_cache = {}


def _options(opts):
    from zope.testrunner.options import get_options
    key = json.dumps(opts, sort_keys=True)
    if key not in _opt_cache:
        if len(_opt_cache) > 500:
            _opt_cache.clear()
        _opt_cache[key] = get_options(W.argv(opts, '/nonexistent-selw'), [])
    return _opt_cache[key]


def _annotated(world):
    """per test: where its level / layer come from (for the finding keys)"""
    out = {}

    def walk(node, layer, level, lsrc, vsrc, nl, nv):
        is_test = 't' in node
        if node.get('level') is not None:
            level, vsrc, nv = node['level'], 'test' if is_test else 'suite', nv + 1
        if node.get('layer') is not None:
            layer = W.layer_fullname(node['layer'])
            lsrc, nl = 'test' if is_test else 'suite', nl + 1
        if is_test:
            out[node['t']] = dict(layer=layer, level=level, layer_src=lsrc,
                                  level_src=vsrc, n_layer=nl, n_level=nv)
        else:
            for c in node['s']:
                walk(c, layer, level, lsrc, vsrc, nl, nv)
    for m in world['modules']:
        walk(m['suite'], W.UNIT, 1, 'default', 'default', 0, 0)
    return out


def _mode(opts, level):
    if opts.get('only_level') is not None:
        o = opts['only_level']
        return 'only-level%s:level%sonly' % (
            '+all' if opts.get('all') else '',
            '<' if level < o else '==' if level == o else '>')
    if opts.get('all'):
        return 'all'
    at = opts.get('at_level')
    at = 1 if at is None else at
    return 'at-level%s:level%sat' % (
        '<=0' if at <= 0 else '',
        '<' if level < at else '==' if level == at else '>')


def check_case(case):
    kind = case['kind']
    world, opts = case['world'], case['opts']
    if kind == 'tree':
        return _check_tree(world, opts)
    if kind == 'e2e':
        return _check_e2e(world, opts)
    raise ValueError(kind)


def _check_tree(world, opts):
    import zope.testrunner.find as find
    v = []
    mod = _layers_module(world)
    options = _options(opts)
    ann = _annotated(world)
    suites = [mod.build(m['suite']) for m in world['modules']]
    got = {}
    for s in suites:
        for test, layer_name in find.tests_from_suite(s, options):
            got.setdefault(str(test), []).append(layer_name)
    by_layer = find.find_tests(options, found_suites=suites)
    got2 = {}
    for layer_name, suite in by_layer.items():
        for test in suite:
            got2.setdefault(str(test), []).append(layer_name)
    for api, g in (('tests_from_suite', got), ('find_tests', got2)):
        for name, a in ann.items():
            have = g.get(name, [])
            ok = W.level_ok(a['level'], opts)
            multi = ':multi-decl' if a['n_level'] > 1 else ''
            if ok and not have:
                v.append(('eligibility:%s:dropped:level-from-%s%s' % (
                    _mode(opts, a['level']), a['level_src'], multi),
                    '%s: test %s (level %s) not yielded with %r'
                    % (api, name, a['level'], W.argv(opts, 'P')[3:])))
            elif not ok and have:
                v.append(('eligibility:%s:kept:level-from-%s%s' % (
                    _mode(opts, a['level']), a['level_src'], multi),
                    '%s: test %s (level %s) yielded with %r'
                    % (api, name, a['level'], W.argv(opts, 'P')[3:])))
            elif ok and len(have) > 1:
                v.append(('owner:several-layers:%s' % api,
                          '%s: test %s yielded for layers %r' % (api, name, have)))
            elif ok and have[0] != a['layer']:
                v.append(('owner:wrong-layer:layer-from-%s%s' % (
                    a['layer_src'], ':multi-decl' if a['n_layer'] > 1 else ''),
                    '%s: test %s yielded for layer %s, nearest declaration is %s'
                    % (api, name, have[0], a['layer'])))
        extra = set(g) - set(ann)
        if extra:
            v.append(('owner:unknown-tests:%s' % api, '%r' % sorted(extra)))
    return v


def _check_e2e(world, opts):
    # a defect of discovery (owner / eligibility) explains any difference of the
    # run: report it under its own keys instead of blaming the unit switches
    v = _check_tree(world, {k: x for k, x in opts.items()
                            if k in ('at_level', 'all', 'only_level')})
    if v:
        return v
    events, out, _r = W.run_inproc(world, opts)
    ann = _annotated(world)
    want = W.expected(world, opts)
    clo = W.layer_closure(world)
    ran = {}
    for _pid, name, tsu, _up in W.executions(events):
        a = ann[name]
        ran.setdefault(a['layer'], []).append(name)
        short = a['layer'].split('.')[-1]
        hooks = set() if a['layer'] == W.UNIT else clo[short]
        if set(tsu) != hooks:
            v.append(('e2e:per-test-hooks-of-wrong-layer:layer-from-%s'
                      % a['layer_src'],
                      'test %s of layer %s ran with testSetUp of %r'
                      % (name, a['layer'], sorted(tsu))))
    u, f = int(bool(opts.get('u'))), int(bool(opts.get('f')))
    lf = 'layer-filter' if opts.get('layer') else 'no-layer-filter'
    for layer in sorted(set(want) | set(ran)):
        w, g = sorted(want.get(layer, [])), sorted(ran.get(layer, []))
        if w == g:
            continue
        which = 'unit' if layer == W.UNIT else 'nonunit'
        if not g:
            key = 'e2e:switch:u%d:f%d:%s:%s-layer-wrongly-dropped' % (u, f, lf, which)
        elif not w:
            key = 'e2e:switch:u%d:f%d:%s:%s-layer-wrongly-run' % (u, f, lf, which)
        else:
            key = 'e2e:tests-differ:%s' % (
                'missing' if set(w) - set(g) else 'extra')
        v.append((key, 'layer %s ran %r, expected %r (argv %r)'
                  % (layer, g, w, W.argv(opts, 'P')[3:])))
    return v


# ---------------------------------------------------------------------------
# enumeration

FOUR = [{'name': n, 'bases': []} for n in ('LA', 'LB', 'LC', 'LD')]
LEVEL_OPTS = [dict(at_level=a, all=al, only_level=o)
              for a in (None, -1, 0, 1, 2, 3)
              for al in (False, True)
              for o in (None, 0, 2, 3)]
# values by position, outermost suite first, the test itself last
ASSIGN = [
    {'levels': (1, 2, 3, 4), 'layers': ('LA', 'LB', 'LC', 'LD')},
    {'levels': (4, 3, 2, 1), 'layers': ('LA', 'LB', 'unit', 'LC')},
    {'levels': (2, 0, -1, 5), 'layers': ('unit', 'LA', 'LA', 'LB')},
]


def _chain(depth, bits, assign):
    """suite > suite > ... > test with `depth` enclosing suites; bits = per node
    (level present, layer present), outermost first"""
    off = 3 - depth
    node = None
    for pos in range(depth, -1, -1):
        lv, ly = bits[pos]
        n = {'t': 'x'} if pos == depth else {'s': [node]}
        if lv:
            n['level'] = assign['levels'][off + pos]
        if ly:
            n['layer'] = assign['layers'][off + pos]
        node = n
    return {'layers': FOUR, 'modules': [{'name': 'm0', 'suite': node}]}


def _gen_exhaustive():
    for ai, assign in enumerate(ASSIGN):
        for depth in range(0, 4):
            for bits in itertools.product(
                    [(0, 0), (0, 1), (1, 0), (1, 1)], repeat=depth + 1):
                world = _chain(depth, bits, assign)
                for o in (LEVEL_OPTS if ai == 0 else LEVEL_OPTS[::5]):
                    yield {'kind': 'tree', 'world': world,
                           'opts': {k: x for k, x in o.items()
                                    if x is not None and x is not False}}


E2E_WORLD = {
    'layers': [{'name': 'LA', 'bases': []}, {'name': 'LB', 'bases': ['LA']},
               {'name': 'LC', 'bases': []}],
    'modules': [{'name': 'm0', 'suite': {'s': [
        {'t': 'u1'}, {'t': 'u2', 'level': 2}, {'t': 'u0', 'level': 0},
        {'s': [{'t': 'a1'}, {'t': 'a3', 'level': 3},
               {'t': 'b2', 'layer': 'LB'},
               {'s': [{'t': 'c2'}, {'t': 'c1', 'level': 1},
                      {'t': 'ux', 'layer': 'unit'}], 'layer': 'LC'}],
         'layer': 'LA', 'level': 2},
        {'t': 'bm', 'layer': 'LB', 'level': -1},
    ]}}]}
SWITCHES = [dict(u=u, f=f, layer=l)
            for u in (False, True) for f in (False, True)
            for l in (None, ['LA'], ['Unit'], ['!LA'], ['LB', 'Unit'], ['!Unit'])]
E2E_LEVELS = [{}, {'all': True}, {'at_level': 2}, {'only_level': 2},
              {'at_level': 0}, {'only_level': 3, 'all': True},
              {'all': True, 'at_level': 1}, {'all': True, 'at_level': 1, 'all_first': True},
              {'all': True, 'at_level': 2, 'all_first': True}]


def _gen_e2e_fixed():
    for lv in E2E_LEVELS:
        for sw in SWITCHES:
            o = {k: x for k, x in sw.items() if x}
            o.update(lv)
            yield {'kind': 'e2e', 'world': E2E_WORLD, 'opts': o}


def _rand_level_opts(rng):
    o = {}
    r = rng.random()
    if r < 0.5:
        o['at_level'] = rng.choice([-2, -1, 0, 1, 2, 3, 4, 7])
    if rng.random() < 0.2:
        o['all'] = True
        if rng.random() < 0.5:
            o['all_first'] = True
    if rng.random() < 0.3:
        o['only_level'] = rng.choice([-1, 0, 1, 2, 3, 5])
    return o


def _sprinkle_str_layers(rng, node):
    if node.get('layer') is not None and rng.random() < 0.25:
        node['layer_str'] = True
    for c in node.get('s', ()):
        _sprinkle_str_layers(rng, c)


def _gen_random(rng):
    levels = (-1, 0, 1, 2, 3, 5)
    while True:
        world = W.gen_world(rng, n_modules=rng.randint(1, 2),
                            depth=rng.randint(2, 5), levels=levels)
        for m in world['modules']:
            _sprinkle_str_layers(rng, m['suite'])
        if W.world_size(world) == 0:
            continue
        o = _rand_level_opts(rng)
        yield {'kind': 'tree', 'world': world, 'opts': o}
        if rng.random() < 0.12:
            o = dict(o)
            if rng.random() < 0.4:
                o['u'] = True
            if rng.random() < 0.4:
                o['f'] = True
            names = [l['name'] for l in world['layers']]
            if names and rng.random() < 0.5:
                o['layer'] = [rng.choice(names + ['Unit', '!' + names[0], '!Unit'])
                              for _ in range(rng.randint(1, 2))]
            yield {'kind': 'e2e', 'world': world, 'opts': o}


def _nontrivial(case):
    """a declaration somewhere in the tree, or a non-default option"""
    def decl(node):
        return node.get('level') is not None or node.get('layer') is not None \
            or any(decl(c) for c in node.get('s', ()))
    return bool(case['opts']) or any(decl(m['suite'])
                                     for m in case['world']['modules'])


def run(budget_s, seed, tier):
    t0 = time.time()
    deadline = t0 + budget_s * 0.92
    rng = random.Random(seed)
    col = W.Collector(_nontrivial)
    _opt_cache.clear()
    _mods.clear()
    exhaustive = True
    for i, case in enumerate(_gen_exhaustive()):
        if time.time() > deadline:
            exhaustive = False
            break
        col.feed(case, check_case)
        if i in (3000, 12000):
            col.sample(case)
    for i, case in enumerate(_gen_e2e_fixed()):
        if time.time() > deadline:
            exhaustive = False
            break
        col.feed(case, check_case)
        if i == 40:
            col.sample(case)
    n = 0
    for case in _gen_random(rng):
        if time.time() > deadline:
            break
        col.feed(case, check_case)
        if n in (5, 50):
            col.sample(case)
        n += 1
    return col.result(
        exhaustive,
        'exhaustive: every chain of 0..3 nested suites around one test with '
        'level/layer each present or absent on every node (340 trees) x 3 value '
        'assignments (levels incl. 0 and negative, explicit unit layer) x 48 option '
        'vectors (--at-level in {default,-1,0,1,2,3} x --all x --only-level in '
        '{none,0,2,3}; every 5th vector for assignments 2 and 3), through '
        'tests_from_suite and find_tests; every -u/-f/--layer combination '
        '(2x2x6) x 6 level settings end to end on a 12-test world with 3 layers; '
        'then seeded random trees (depth <= 5, <= 3 children, levels in '
        '{-1,0,1,2,3,5}, layers also declared by dotted name) with random options, '
        '12% of them also end to end, until the budget',
        'a case is one (tree, option vector): tests_from_suite + find_tests calls on '
        'the real code, or one full Runner run (e2e); distinct = distinct cases with '
        'at least one level/layer declaration in the tree or a non-default option')


def replay(case):
    _opt_cache.clear()
    _mods.clear()
    v = check_case(case)
    if v:
        return True, '; '.join('%s: %s' % kv for kv in v[:3])
    return False, 'no violation for this case'
