"""C16 - --stop-on-error stops after the first failing test but still cleans up.

Ground truth is the world's own trace.  The moment "a test has recorded a failure
or an error" is taken conservatively as the moment that test's TestCase.run()
returns ('ran' event of the first test whose stdlib semantics include a
failure / error / unexpected success); for a layer whose setUp raises it is the
'layer_setUp' event.  After that moment (sequential, single process):
  * no 'run' event of any test           (no further test starts)
  * no 'layer_setUp' event               (no further layer is set up)
and at the end
  * every layer whose setUp succeeded has been given a tearDown call,
  * a "Ran N tests" line was printed for the layer of the failing test,
  * runner.failed is True.
Layer *tearDown* failures are not generated (the statement speaks about tests;
the quantifier adds layer setUp failures only).  The TypeError in the -v report
after an unexpected success (reported under C12) is tolerated: it is raised
after all tests and layer tear-downs, and the checks above can still be made.
"""
import itertools
import random

from native import testworld as tw
from native import c04 as _c04
from native.c12 import opt_int

PROPERTY = 'C16'
F3_KEY = 'stop-on-error:repeat:next-iteration-runs'

BAD_KINDS = ['fail', 'error', 'sysexit', 'usuccess', 'sub1', 'sub2', 'sub_err', 'err_setup',
             'err_td', 'err_cleanup', 'fail_err_td']
GOOD_KINDS = ['pass', 'skip_deco', 'skip_body', 'xfail', 'sub_ok']
STOP_SPELLINGS = ['-x', '--stop-on-error', '--stop']


def has_stop(args):
    return any(a in STOP_SPELLINGS for a in args)


def check_obs(case, obs):
    spec = case['spec']
    args = list(spec.get('args', ()))
    tests = spec['tests']
    res = []
    repeat = opt_int(args, '--repeat', 1)
    desc = '%s layers=%s args=%s' % ([(t['k'], t.get('layer')) for t in tests],
                                     [(ly['name'], ly.get('bases'), ly.get('setUp'))
                                      for ly in spec.get('layers', ())], args)
    if obs.exc is not None:
        e = obs.exc
        if isinstance(e, TypeError) and 'tests_with_failures' in obs.exc_tb:
            pass
        else:
            return _c04.check_obs(spec, obs)[:1]
    by_tid = {('T%02d' % i): t for i, t in enumerate(tests)}
    by_layer = {ly['name']: ly for ly in spec.get('layers', ())}
    first_bad = None        # (trace index, description, kind)
    for idx, e in enumerate(obs.trace):
        if e[0] == 'ran' and tw.is_bad(by_tid[e[1]]):
            first_bad = (idx, 'test %s (%s)' % (e[1], by_tid[e[1]]['k']), by_tid[e[1]]['k'], e[1])
            break
        if e[0] == 'layer_setUp' and by_layer[e[1]].get('setUp'):
            first_bad = (idx, 'layer %s.setUp' % e[1], 'layer-setUp', None)
            break
    if first_bad is None:
        # nothing bad happened: -x must not change anything -> everything runs
        return res
    idx, what, kind, bad_tid = first_bad
    seen_before = {}
    for e in obs.trace[:idx + 1]:
        if e[0] == 'run':
            seen_before[e[1]] = seen_before.get(e[1], 0) + 1
    for e in obs.trace[idx + 1:]:
        if e[0] == 'run':
            if repeat > 1 and seen_before.get(e[1]):
                res.append((F3_KEY,
                            'with -x --repeat %d the next iteration creates a fresh TestResult '
                            '(shouldStop is forgotten): after %s recorded its failure, test %s '
                            'started again; world %s' % (repeat, what, e[1], desc)))
            else:
                res.append(('stop-on-error:test-started-after:%s' % kind,
                            'after %s recorded a failure/error, test %s (%s) still started; '
                            'world %s' % (what, e[1], by_tid[e[1]]['k'], desc)))
            break
    for e in obs.trace[idx + 1:]:
        if e[0] == 'layer_setUp':
            res.append(('stop-on-error:layer-set-up-after:%s' % kind,
                        'after %s recorded a failure/error, layer %s was still set up; world %s'
                        % (what, e[1], desc)))
            break
    ups, downs = {}, {}
    for e in obs.trace:
        if e[0] == 'layer_setUp_ok':
            ups[e[1]] = ups.get(e[1], 0) + 1
        elif e[0] == 'layer_tearDown':
            downs[e[1]] = downs.get(e[1], 0) + 1
    for name, n in ups.items():
        if downs.get(name, 0) < n:
            res.append(('stop-on-error:layer-not-torn-down:%s' % kind,
                        'layer %s set up %d times, torn down %d times after the stop; world %s'
                        % (name, n, downs.get(name, 0), desc)))
            break
    if bad_tid is not None:
        parsed = tw.parse_output(obs.out)
        lname = tw.full_layer_name(obs.modname, by_tid[bad_tid].get('layer'))
        if not any(name == lname and rans for name, rans in parsed['layers']):
            res.append(('stop-on-error:no-summary:%s' % kind,
                        'no "Ran N tests" line for layer %s of the failing test; world %s'
                        % (lname, desc)))
    if not obs.failed:
        res.append(('stop-on-error:verdict-not-failed:%s' % kind,
                    'runner.failed is False after %s; world %s' % (what, desc)))
    return res


def _alias_stop(case):
    """one layer object registered under TWO names (a dotted-name alias given as a string next to the class); each name's
    group starts with a failing test.  With -x nothing starts after the first failure -- whichever group runs first."""
    import io
    import os
    import shutil
    import sys
    import tempfile
    from contextlib import redirect_stdout, redirect_stderr
    import zope.testrunner
    d = tempfile.mkdtemp(prefix='c16alias')
    pkg = 'c16alias_%d' % (abs(hash(d)) % 100000)
    try:
        os.mkdir(os.path.join(d, pkg))
        w = lambda n, t: open(os.path.join(d, pkg, n), 'w').write(t)
        w('__init__.py', '')
        w('layers.py', 'class L:\n    @classmethod\n    def setUp(cls): pass\n    @classmethod\n    def tearDown(cls): pass\n')
        w('alias.py', 'from %s.layers import L as L2\n' % pkg)
        w('tests.py', 'import unittest\nfrom %s.layers import L\nRAN = []\n'
          'class A(unittest.TestCase):\n    layer = L\n'
          '    def test_a1(self):\n        RAN.append("a1"); self.fail("planned")\n'
          '    def test_a2(self): RAN.append("a2")\n'
          'class B(unittest.TestCase):\n    layer = %r\n'
          '    def test_b1(self):\n        RAN.append("b1"); %s\n'
          '    def test_b2(self): RAN.append("b2")\n'
          'def test_suite():\n    l = unittest.defaultTestLoader.loadTestsFromTestCase\n'
          '    return unittest.TestSuite([l(A), l(B)])\n'
          % (pkg, pkg + '.alias.L2', 'raise ValueError("planned")' if case.get('error') else 'self.fail("planned")'))
        out = io.StringIO()
        with redirect_stdout(out), redirect_stderr(out):
            failed = zope.testrunner.run_internal(['--path', d, '--tests-pattern', '^tests$'], ['run'] + list(case['args']))
        ran = list(sys.modules[pkg + '.tests'].RAN)
    finally:
        for m in [m for m in sys.modules if m == pkg or m.startswith(pkg + '.')]:
            del sys.modules[m]
        shutil.rmtree(d, ignore_errors=True)
    res = []
    if len(ran) != 1:
        res.append(('stop-on-error:test-started-after:alias-layer-names',
                    'one layer registered under two names, the first test of each group fails; with %s the tests %r ran: '
                    'after the first failure no further test may start' % (' '.join(case['args']), ran)))
    if not failed:
        res.append(('stop-on-error:verdict-not-failed:alias-layer-names', 'run_internal returned %r' % (failed,)))
    return res


def gen_alias():
    for args in (['-x'], ['--stop-on-error', '-v']):
        for error in (False, True):
            yield {'mode': 'alias-stop', 'args': args, 'error': error, 'spec': {'tests': [{'k': 'fail'}], 'args': args}}


def check(case):
    if case.get('mode') == 'alias-stop':
        return _alias_stop(case)
    obs = tw.execute(case['spec'])
    return check_obs(case, obs)


# --------------------------------------------------------------------------

LAYOUTS = [
    # (layers, layer of each of the 7 tests)
    ([{'name': 'LA'}, {'name': 'LB'}], [None, None, 'LA', 'LA', 'LA', 'LB', 'LB']),
    ([{'name': 'LA'}, {'name': 'LB', 'bases': ['LA']}], [None, None, 'LA', 'LA', 'LB', 'LB', 'LB']),
]
OPTS = [['-x'], ['-x', '-v'], ['--stop-on-error', '-vv'], ['-x', '--repeat', '2'],
        ['-x', '--shuffle', '--shuffle-seed', '1'], ['-x', '--shuffle', '--shuffle-seed', '7'],
        ['-x', '--repeat', '3', '--shuffle', '--shuffle-seed', '3']]


def gen_positions():
    """one bad test of every kind at every position (first/middle/last test of
    first/middle/last layer) x option sets"""
    for layers, where in LAYOUTS:
        for pos in range(len(where)):
            for kind in BAD_KINDS:
                for opts in OPTS:
                    tests = [{'k': 'pass'} for _ in where]
                    tests[pos] = {'k': kind}
                    for t, ly in zip(tests, where):
                        if ly:
                            t['layer'] = ly
                    yield {'spec': {'layers': layers, 'tests': tests, 'args': opts}}


def gen_minimal():
    for kind in BAD_KINDS:
        for opts in (['-x'], ['-x', '--repeat', '2'], ['-x', '--shuffle', '--shuffle-seed', '1']):
            yield {'spec': {'tests': [{'k': kind}, {'k': 'pass'}], 'args': opts}}


def gen_layer_setup():
    names = ['LA', 'LB', 'LC']
    for pos in range(3):
        for based in (False, True):
            for opts in OPTS:
                layers = [{'name': n} for n in names]
                if based:
                    layers[1]['bases'] = ['LA']
                layers[pos]['setUp'] = 'ValueError'
                tests = [{'k': 'pass'}, {'k': 'pass', 'layer': 'LA'}, {'k': 'pass', 'layer': 'LA'},
                         {'k': 'pass', 'layer': 'LB'}, {'k': 'pass', 'layer': 'LC'},
                         {'k': 'pass', 'layer': 'LC'}]
                yield {'spec': {'layers': layers, 'tests': tests, 'args': opts}}


def gen_refused_teardown():
    """the stop happens while a layer is set up whose tearDown raises NotImplementedError and which has base layers with
    ordinary tearDowns: the final clean-up must still reach every other set-up layer"""
    for bad_kind in ('fail', 'error', 'usuccess'):
        for opts in (['-x'], ['-x', '-v'], ['-x', '--repeat', '2']):
            for chain in (['LA', 'LB'], ['LA', 'LB', 'LC']):
                layers = [{'name': n, 'bases': [chain[i - 1]] if i else []} for i, n in enumerate(chain)]
                for refusing in range(1, len(chain)):
                    ls = [dict(ly) for ly in layers]
                    ls[refusing]['tearDown'] = 'NotImplementedError'
                    top = chain[-1]
                    tests = [{'k': 'pass'}, {'k': 'pass', 'layer': top}, {'k': bad_kind, 'layer': top},
                             {'k': 'pass', 'layer': top}]
                    yield {'spec': {'layers': ls, 'tests': tests, 'args': opts}}
                    # ... or the stop is a failing setUp of a layer derived from the refusing one
                    if refusing < len(chain) - 1:
                        ls2 = [dict(ly) for ly in ls]
                        ls2[-1]['setUp'] = 'ValueError'
                        tests2 = [{'k': 'pass', 'layer': chain[refusing]}, {'k': 'pass', 'layer': top}]
                        yield {'spec': {'layers': ls2, 'tests': tests2, 'args': opts}}


def gen_pairs():
    alpha = BAD_KINDS + GOOD_KINDS
    for a, b, c in itertools.product(alpha, alpha, ['pass', 'fail']):
        yield {'spec': {'layers': [{'name': 'LA'}],
                        'tests': [{'k': a}, {'k': b}, {'k': c, 'layer': 'LA'}],
                        'args': ['-x', '-v']}}


def gen_random(seed):
    rng = random.Random(seed)
    alpha = BAD_KINDS + GOOD_KINDS * 3
    while True:
        spec = _c04.random_spec(rng, alpha, max_tests=8, layer_fault_p=0.1, tear_fault=False)
        args = [a for a in spec['args'] if a != '--buffer'] + [rng.choice(STOP_SPELLINGS)]
        r = rng.random()
        if r < 0.25:
            args += ['--repeat', str(rng.choice([2, 3]))]
        if rng.random() < 0.4:
            args += ['--shuffle', '--shuffle-seed', str(rng.randint(0, 50))]
        spec['args'] = args
        yield {'spec': spec}


def nontrivial(case):
    spec = case['spec']
    return any(tw.is_bad(t) for t in spec['tests']) or any(
        ly.get('setUp') for ly in spec.get('layers', ()))


def run(budget_s, seed, tier):
    phases = [
        ('minimal: every bad kind first of two tests x {-x, +repeat, +shuffle}', True,
         gen_minimal()),
        ('positions: %d bad kinds x 7 positions x 2 layer layouts x %d option sets'
         % (len(BAD_KINDS), len(OPTS)), True, gen_positions()),
        ('layer setUp failure at 3 positions x base/no base x option sets', True,
         gen_layer_setup()),
        ('stop while a layer that refuses its tearDown (NotImplementedError) is set up on top of ordinary base layers', True,
         gen_refused_teardown()),
        ('one layer object under two registered names, each group starting with a failing test (-x)', True, gen_alias()),
        ('all pairs over %d kinds followed by a test in another layer'
         % (len(BAD_KINDS) + len(GOOD_KINDS)), True, gen_pairs()),
        ('random', False, gen_random(seed)),
    ]
    return tw.explore(
        PROPERTY, phases, check, budget_s, nontrivial=nontrivial,
        rule='a case is non-trivial when some test has a failure/error/unexpected success or a '
             'layer setUp raises (so that the stop really triggers)',
        bound='exhaustive: one bad test of each of %d kinds at each of 7 positions (first/middle/'
              'last test of first/middle/last layer) in 2 layer layouts x 7 option sets (-x alone, '
              '-v, --repeat 2/3, --shuffle with 3 seeds); a failing layer setUp at 3 positions; '
              'all pairs over %d kinds; then seeded random worlds (2-8 tests, 0-3 layers)'
              % (len(BAD_KINDS), len(BAD_KINDS) + len(GOOD_KINDS)))


def replay(case):
    res = check(case)
    if res:
        return True, '; '.join('%s: %s' % r for r in res)[:2000]
    return False, 'no violation observed'
