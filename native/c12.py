"""C12 - reported counts and failure lists equal what actually happened.

Ground truth = the world's own trace (which tests really ran, which layer hooks
were really called) + the stdlib semantics of each generated test
(testworld.model_events, validated against a plain unittest.TestResult).

Checked on the runner's *printed* output:
  * every "Ran N tests with F failures, E errors and S skipped" line of a layer
    (one per --repeat iteration) against that layer's tests of one iteration;
  * the "Total:" line (when printed) against the sum;
  * the names under "Tests with failures:" / "Tests with errors:" (printed for
    -v and up) as a set, each name at most as often as it produced events.
Accepted readings (documented upstream behaviour, never flagged):
  * a count may be the number of result *events* or the number of distinct
    (sub)tests - one test with body error + tearDown error is "2 errors";
  * an unexpected success is a failure;
  * with --repeat N every "Ran" line and the Total's test count are ONE
    iteration's, failures/errors/skipped and the lists accumulate over iterations;
  * import errors are added to every layer's error count and once to the total;
  * layer setUp/tearDown failures count as errors in the total only.
"""
import itertools
import random

from native import testworld as tw
from native import c04 as _c04

PROPERTY = 'C12'

ALPHABET = [k for k in tw.KINDS if k != 'kbint']
REDUCED = ['pass', 'fail', 'error', 'skip_deco', 'skip_body', 'xfail', 'sub3', 'err_err_td']
F4_KEY = 'subprocess:skipped-not-transferred'
US_KEY = 'unexpected-success:verbose:TypeError-in-report'
US_CHILD_KEY = 'unexpected-success:subprocess:child-report-TypeError-garbles-names'


def opt_int(args, name, default):
    for i, a in enumerate(args):
        if a == name and i + 1 < len(args):
            return int(args[i + 1])
        if a.startswith(name + '='):
            return int(a.split('=', 1)[1])
    return default


def mode_of(case):
    spec = case['spec']
    args = spec.get('args', ())
    m = []
    if any(a.startswith('-j') for a in args):
        m.append('j')
    if any(ly.get('tearDown') == 'NotImplementedError' for ly in spec.get('layers', ())):
        m.append('resumed')
    if opt_int(args, '--repeat', 1) > 1:
        m.append('repeat')
    if case.get('broken'):
        m.append('importerror')
    return '+'.join(m) or 'inproc'


def expectations(spec, obs, repeat):
    """per layer: dict(tests, fail_ev, fail_d, err_ev, err_d, skip_ev, skip_d) of ONE
    iteration, computed for the tests the trace shows as really run."""
    mod = obs.modname
    runs = {}
    for e in obs.trace:
        if e[0] == 'run':
            runs[e[1]] = runs.get(e[1], 0) + 1
    per = {}
    names_f = {}
    names_e = {}
    anomalies = []
    for i, t in enumerate(spec['tests']):
        tid = 'T%02d' % i
        n = runs.get(tid, 0)
        if n == 0:
            continue
        if n != repeat:
            anomalies.append((tid, n))
        lname = tw.full_layer_name(mod, t.get('layer'))
        d = per.setdefault(lname, dict(tests=0, fail_ev=0, fail_d=0, err_ev=0, err_d=0,
                                       skip_ev=0, skip_d=0))
        d['tests'] += 1
        evs = tw.model_events(t)
        cats = {'failure': 0, 'error': 0, 'skip': 0}
        seen_names = {'failure': set(), 'error': set(), 'skip': set()}
        for cat, sfx in evs:
            c = 'failure' if cat == 'usuccess' else cat
            if c in cats:
                cats[c] += 1
                name = 'test_x (%s.%s.test_x)%s' % (mod, tid, sfx)
                seen_names[c].add(name)
                if c == 'failure':
                    names_f[name] = names_f.get(name, 0) + 1
                elif c == 'error':
                    names_e[name] = names_e.get(name, 0) + 1
        d['fail_ev'] += cats['failure']
        d['err_ev'] += cats['error']
        d['skip_ev'] += cats['skip']
        d['fail_d'] += len(seen_names['failure'])
        d['err_d'] += len(seen_names['error'])
        d['skip_d'] += len(seen_names['skip'])
    # layer hook failures that really happened
    by = {ly['name']: ly for ly in spec.get('layers', ())}
    layer_errs = 0
    setup_failed_layers = 0
    for e in obs.trace:
        if e[0] == 'layer_setUp' and by[e[1]].get('setUp'):
            setup_failed_layers += 1
        if e[0] == 'layer_tearDown' and by[e[1]].get('tearDown') not in (
                None, 'NotImplementedError'):
            layer_errs += 1
            n = 'Layer: %s.%s.tearDown' % (mod, e[1])
            names_e[n] = names_e.get(n, 0) + 1
    return per, names_f, names_e, layer_errs, setup_failed_layers, anomalies


def check_obs(case, obs):
    spec = case['spec']
    args = list(spec.get('args', ()))
    res = []
    mode = mode_of(case)
    repeat = opt_int(args, '--repeat', 1)
    v = tw.verbosity(args)
    desc = '%s layers=%s args=%s' % ([t['k'] for t in spec['tests']],
                                     [(ly['name'], ly.get('setUp'), ly.get('tearDown'))
                                      for ly in spec.get('layers', ())], args)
    if obs.exc is not None:
        e = obs.exc
        if (isinstance(e, TypeError) and 'tests_with_failures' in obs.exc_tb
                and any(c == 'usuccess' for t in spec['tests'] for c, _ in tw.model_events(t))):
            return [(US_KEY,
                     'an unexpected success is stored in runner.failures as a bare test (not a '
                     '(test, exc_info) pair); with -v the "Tests with failures" report does '
                     '`for test, exc_info in failures` -> %s: %s escapes Runner.run(); the list '
                     'is cut short and the "Total:" line is never printed'
                     % (type(e).__name__, e))]
        r04 = _c04.check_obs(spec, obs)
        return [(k, s) for k, s in r04[:1]]
    per, names_f, names_e, layer_errs, setup_failed, anomalies = expectations(spec, obs, repeat)
    if anomalies:
        # tests did not run `repeat` times: that is a C04/C16 matter, no ground truth here
        return []
    imp = 1 if case.get('broken') else 0
    parsed = tw.parse_output(obs.out)
    got = {}
    for name, rans in parsed['layers']:
        got.setdefault(name, []).extend(rans)
    for lname, d in per.items():
        lines = got.get(lname, [])
        if len(lines) != repeat:
            res.append(('layer-summary-count:%s' % mode,
                        'layer %s: expected %d "Ran" lines, saw %d; world %s'
                        % (lname, repeat, len(lines), desc)))
            continue
        for (n, f, e, s) in lines:
            bad = []
            if n != d['tests']:
                bad.append('tests %d != %d' % (n, d['tests']))
            if not min(d['fail_d'], d['fail_ev']) <= f <= d['fail_ev']:
                bad.append('failures %d not in [%d..%d]' % (f, d['fail_d'], d['fail_ev']))
            if not min(d['err_d'], d['err_ev']) + imp <= e <= d['err_ev'] + imp:
                bad.append('errors %d not in [%d..%d]' % (e, d['err_d'] + imp, d['err_ev'] + imp))
            if not min(d['skip_d'], d['skip_ev']) <= s <= d['skip_ev']:
                bad.append('skipped %d not in [%d..%d]' % (s, d['skip_d'], d['skip_ev']))
            for b in bad:
                res.append(('layer-summary:%s:%s' % (b.split()[0], mode),
                            'layer %s says %r but %s; world %s'
                            % (lname, (n, f, e, s), b, desc)))
    for lname in got:
        if lname not in per and lname != '.EmptyLayer' and any(x[0] for x in got[lname]):
            res.append(('layer-summary:phantom-tests:%s' % mode,
                        'layer %s reports tests %r but nothing of it ran; world %s'
                        % (lname, got[lname], desc)))
    # totals
    if parsed['total'] is not None:
        n, f, e, s = parsed['total']
        T = sum(d['tests'] for d in per.values())
        Fev = sum(d['fail_ev'] for d in per.values()) * repeat
        Fd = sum(d['fail_d'] for d in per.values()) * repeat
        Eev = sum(d['err_ev'] for d in per.values()) * repeat + layer_errs + setup_failed + imp
        Ed = sum(d['err_d'] for d in per.values()) * repeat + layer_errs + setup_failed + imp
        Sev = sum(d['skip_ev'] for d in per.values()) * repeat
        Sd = sum(d['skip_d'] for d in per.values()) * repeat
        if n != T:
            res.append(('total:tests:%s' % mode,
                        'Total says %d tests, %d really ran (one iteration); world %s'
                        % (n, T, desc)))
        if not min(Fd, Fev) <= f <= Fev:
            res.append(('total:failures:%s' % mode,
                        'Total says %d failures, really %d..%d; world %s' % (f, Fd, Fev, desc)))
        if not min(Ed, Eev) <= e <= Eev:
            res.append(('total:errors:%s' % mode,
                        'Total says %d errors, really %d..%d; world %s' % (e, Ed, Eev, desc)))
        if not min(Sd, Sev) <= s <= Sev:
            layer_s = sum(x[3] for lines in got.values() for x in lines)
            if 'j' in mode or 'resumed' in mode:
                res.append((F4_KEY,
                            'Total says %d skipped but %d..%d tests were really skipped (the '
                            'per-layer lines printed by the children add up to %d): the child '
                            '-> parent protocol transfers ran/failures/errors only; world %s'
                            % (s, Sd, Sev, layer_s, desc)))
            else:
                res.append(('total:skipped:%s' % mode,
                            'Total says %d skipped, really %d..%d; world %s'
                            % (s, Sd, Sev, desc)))
    # name lists
    if v >= 1:
        # setUp layer failures: the runner names the layer it was asked to set up
        listed_e = list(parsed['with_errors'] or [])
        listed_f = list(parsed['with_failures'] or [])
        setup_names = [x for x in listed_e if x.startswith('Layer: ') and x.endswith('.setUp')]
        if len(setup_names) != setup_failed and not ('j' in mode or 'resumed' in mode):
            res.append(('names:errors:layer-setUp:%s' % mode,
                        '%d layer set-ups failed but %r listed; world %s'
                        % (setup_failed, setup_names, desc)))
        listed_e = [x for x in listed_e if x not in setup_names]
        if imp:
            listed_e = [x for x in listed_e if 'StartUpFailure' not in x
                        and not x.startswith('<') and 'broken' not in x]
        has_us = any(c == 'usuccess' for t in spec['tests'] for c, _ in tw.model_events(t))
        for what, listed, exp in (('failures', listed_f, names_f), ('errors', listed_e, names_e)):
            if set(listed) != set(exp) and has_us and ('j' in mode or 'resumed' in mode):
                res.append((US_CHILD_KEY,
                            'an unexpected success in a child process: the child\'s report to the '
                            'parent does `for test, exc_info in failures` on the bare test -> '
                            'TypeError after the count header; the parent then takes traceback / '
                            'interpreter noise lines from the child\'s stderr as test names: '
                            '"Tests with %s" lists %r, really %r' % (what, sorted(set(listed)),
                                                                    sorted(exp))))
            elif set(listed) != set(exp):
                res.append(('names:%s:%s' % (what, mode),
                            '"Tests with %s" lists %r, really %r; world %s'
                            % (what, sorted(set(listed)), sorted(exp), desc)))
            else:
                for name in exp:
                    if listed.count(name) > exp[name] * repeat:
                        res.append(('names:%s:too-often:%s' % (what, mode),
                                    '%s listed %d times but only %d events; world %s'
                                    % (name, listed.count(name), exp[name] * repeat, desc)))
    return res


TRANSFER_NAMES = ['test_a (pkg.tests.T.test_a)', 't\u00ebst \u2713', 'multi\nline id', 'nel\x85ls vt\x0b',
                  'ls\u2028ps\u2029 ff\x0c fs\x1c', 'sub (m.T.sub) [first\u2028second]']


def gen_transfer():
    """the child -> parent transfer of count and names (C12's third anchor), on the real child report code and the real
    parent parser: names with every character str.splitlines() treats as a line boundary, in both lists"""
    from native import c07
    for procs in (1, 2):
        yield c07.base('roundtrip', ran=7, fails=TRANSFER_NAMES, errs=[], processes=procs)
        yield c07.base('roundtrip', ran=7, fails=TRANSFER_NAMES[:2], errs=TRANSFER_NAMES[2:], processes=procs)
        for n in TRANSFER_NAMES[3:]:
            yield c07.base('roundtrip', ran=3, fails=[n, 'after'], errs=['e1', n], processes=procs)


def check(case):
    if case.get('kind') == 'roundtrip':
        from native import c07
        v = c07.check_roundtrip(case)
        return [('transfer:' + v[0], v[1])] if v else []
    spec = case['spec']
    obs = tw.execute(spec, file_based=(case.get('mode') == 'files'),
                     broken_module=bool(case.get('broken')))
    return check_obs(case, obs)


# --------------------------------------------------------------------------

VERB = [[], ['-v'], ['-vv'], ['-vvv']]


def gen_singles():
    for k in ALPHABET:
        for v in VERB:
            for rep in ([], ['--repeat', '2']):
                yield {'spec': {'tests': [{'k': k}, {'k': 'pass', 'layer': 'LA'}],
                                'layers': [{'name': 'LA'}], 'args': v + rep}}


def gen_files():
    L2 = [{'name': 'LA'}, {'name': 'LB'}]
    mix = [{'k': 'fail', 'layer': 'LA'}, {'k': 'skip_body', 'layer': 'LA'},
           {'k': 'pass', 'layer': 'LA'}, {'k': 'error', 'layer': 'LB'},
           {'k': 'skip_deco', 'layer': 'LB'}, {'k': 'sub3', 'layer': 'LB'}]
    yield {'spec': {'layers': L2, 'tests': [{'k': 'skip_body', 'layer': 'LA'},
                                            {'k': 'pass', 'layer': 'LB'}],
                    'args': ['-j2']}, 'mode': 'files'}
    yield {'spec': {'layers': L2, 'tests': mix, 'args': ['-v', '-j2']}, 'mode': 'files'}
    yield {'spec': {'layers': L2, 'tests': [{'k': 'pass', 'layer': 'LA'},
                                            {'k': 'usuccess', 'layer': 'LB'},
                                            {'k': 'error', 'layer': 'LB'}],
                    'args': ['-v', '-j2']}, 'mode': 'files'}
    # resumed: LA cannot be torn down -> LB (and everything after) runs in a child
    yield {'spec': {'layers': [{'name': 'LA', 'tearDown': 'NotImplementedError'}, {'name': 'LB'}],
                    'tests': mix, 'args': ['-v']}, 'mode': 'files'}
    yield {'spec': {'layers': L2, 'tests': [{'k': 'pass', 'layer': 'LA'},
                                            {'k': 'err_err_td', 'layer': 'LB'},
                                            {'k': 'usuccess', 'layer': 'LB'}],
                    'args': ['-j2']}, 'mode': 'files'}
    yield {'spec': {'layers': L2, 'tests': mix, 'args': ['-v']}, 'mode': 'files', 'broken': True}
    yield {'spec': {'layers': [{'name': 'LA', 'setUp': 'ValueError'},
                               {'name': 'LB', 'tearDown': 'WorldError'}],
                    'tests': mix, 'args': ['-vv', '-j2']}, 'mode': 'files'}
    yield {'spec': {'layers': [{'name': 'LA', 'tearDown': 'NotImplementedError'}, {'name': 'LB'},
                               {'name': 'LC'}],
                    'tests': [{'k': 'pass'}, {'k': 'fail', 'layer': 'LA'},
                              {'k': 'sub_fe', 'layer': 'LB'}, {'k': 'pass', 'layer': 'LC'},
                              {'k': 'err_cleanup', 'layer': 'LC'}],
                    'args': ['-v']}, 'mode': 'files'}
    yield {'spec': {'layers': L2, 'tests': mix, 'args': ['-v', '-j2']}, 'mode': 'files',
           'broken': True}


def gen_pairs():
    for a, b in itertools.product(ALPHABET, ALPHABET):
        yield {'spec': {'tests': [{'k': a}, {'k': b}], 'args': ['-v']}}


def gen_triples():
    for a, b, c in itertools.product(REDUCED, REDUCED, REDUCED):
        yield {'spec': {'tests': [{'k': a}, {'k': b, 'layer': 'LA'}, {'k': c, 'layer': 'LA'}],
                        'layers': [{'name': 'LA'}], 'args': ['-vv']}}


def gen_layer_shapes():
    for case in _c04.gen_layer_shapes():
        if '--buffer' in case['spec']['args']:
            continue
        yield case
        c2 = {'spec': dict(case['spec'])}
        c2['spec']['args'] = ['-v', '--repeat', '2']
        yield c2


def gen_random(seed, tier='quick'):
    rng = random.Random(seed)
    alpha_nous = [k for k in ALPHABET if k != 'usuccess']
    p_files = 0.03 if tier == 'thorough' else 0.0
    while True:
        spec = _c04.random_spec(rng, alpha_nous if rng.random() < 0.7 else ALPHABET,
                                max_tests=7, layer_fault_p=0.2)
        spec['args'] = [a for a in spec['args'] if a != '--buffer']
        if rng.random() < p_files:
            # subprocess modes on random worlds (expensive: ~1 s each)
            if spec.get('layers') and rng.random() < 0.5:
                rng.choice(spec['layers'])['tearDown'] = 'NotImplementedError'
            else:
                spec['args'] += ['-j%d' % rng.choice([2, 3])]
            yield {'spec': spec, 'mode': 'files'}
            continue
        if rng.random() < 0.3:
            spec['args'] += ['--repeat', str(rng.choice([2, 3]))]
        yield {'spec': spec}


def nontrivial(case):
    if case.get('kind') == 'roundtrip':
        return True
    return any(t['k'] != 'pass' for t in case['spec']['tests']) or any(
        ly.get('setUp') or ly.get('tearDown') for ly in case['spec'].get('layers', ()))


def run(budget_s, seed, tier):
    phases = [
        ('singles: every kind x -v0..3 x repeat{1,2}', True, gen_singles()),
        ('subprocess modes (-j2, resumed after NotImplementedError, import error), 9 worlds',
         False, gen_files()),
        ('transfer of count and names from a child (real report writer, real parser), names with line-boundary characters',
         True, gen_transfer()),
        ('pairs over the full alphabet', True, gen_pairs()),
        ('triples over reduced alphabet in two layers', True, gen_triples()),
        ('layer shapes x repeat{1,2}', True, gen_layer_shapes()),
        ('random', False, gen_random(seed, tier)),
    ]
    return tw.explore(
        PROPERTY, phases, check, budget_s, nontrivial=nontrivial,
        rule='a case is non-trivial when some test is not a plain pass or a layer hook raises',
        bound='exhaustive: every kind of a %d-kind alphabet alone x -v0..3 x --repeat 1/2; every '
              'ordered pair; every triple over %d kinds spread over two layers; 0..2 layer-hook '
              'faults in a fixed 4-layer graph x --repeat 1/2; 9 fixed worlds in subprocess '
              'modes; then seeded random worlds (2-7 tests, 0-3 layers, --repeat 1..3)'
              % (len(ALPHABET), len(REDUCED)))


def replay(case):
    res = check(case)
    if res:
        return True, '; '.join('%s: %s' % r for r in res)[:2000]
    return False, 'no violation observed'
