"""Bootstrap for running the REAL zope.testrunner code natively (under /venv/bin/python).

/venv has the repo installed in editable mode with a legacy namespace .pth that pins
``zope.__path__`` to /repo/src/zope, which hides zope.interface / zope.exceptions.
We extend the namespace path at run time; nothing in /repo or /venv is changed.
"""
import os
import sys

SITE_ZOPE = '/venv/lib/python3.12/site-packages/zope'
# VERIF_REPO_ROOT: run the oracles against a scratch copy of the repository (seeded-mutant runs); default /repo
REPO_ROOT = os.environ.get('VERIF_REPO_ROOT', '/repo')
REPO_ZOPE = os.path.join(REPO_ROOT, 'src', 'zope')
BOOT = ("import zope; zope.__path__[:] = [%r, %r]; " % (REPO_ZOPE, SITE_ZOPE))
# script_parts for child processes spawned by the runner (resume_tests / -j N)
CHILD_SCRIPT_PARTS = ['-c', BOOT + "from zope.testrunner import run; run()"]


def boot():
    import zope
    zope.__path__[:] = [REPO_ZOPE, SITE_ZOPE]
    import zope.testrunner.runner  # noqa: F401  (fails loudly if the namespace is still broken)
    assert zope.testrunner.runner.__file__.startswith(REPO_ROOT + os.sep), zope.testrunner.runner.__file__
    return zope.testrunner.runner


if __name__ == '__main__':
    r = boot()
    print('ok', r.__file__, sys.version.split()[0])
