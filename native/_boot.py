"""Bootstrap for running the REAL zope.testrunner code natively (under /venv/bin/python).

/venv has the repo installed in editable mode with a legacy namespace .pth that pins
``zope.__path__`` to /repo/src/zope, which hides zope.interface / zope.exceptions.
We extend the namespace path at run time; nothing in /repo or /venv is changed.
"""
import sys

SITE_ZOPE = '/venv/lib/python3.12/site-packages/zope'
BOOT = ("import zope; zope.__path__.append(%r); " % SITE_ZOPE)
# script_parts for child processes spawned by the runner (resume_tests / -j N)
CHILD_SCRIPT_PARTS = ['-c', BOOT + "from zope.testrunner import run; run()"]


def boot():
    import zope
    if SITE_ZOPE not in list(zope.__path__):
        zope.__path__.append(SITE_ZOPE)
    import zope.testrunner.runner  # noqa: F401  (fails loudly if the namespace is still broken)
    return zope.testrunner.runner


if __name__ == '__main__':
    r = boot()
    print('ok', r.__file__, sys.version.split()[0])
