"""C02 - the verdict is 'failed' exactly when something went wrong, in every mode.

Two families of cases on the real code:

hybrid  the real ``Runner.run_tests`` (-> run_layer, run_tests, resume_tests,
        spawn_layer_in_subprocess, tear_down_unneeded) over in-memory layers
        with real unittest tests; every layer the real runner decides to send
        to a subprocess gets a *scripted* child (fake Popen inside runner's
        namespace) whose report is what a correct child would say about that
        layer, optionally with one fault: cannot be started, dies silently /
        with a traceback, report cut in the header / in the names, stderr
        noise (benign, header-like, unterminated), undecodable name.
        Exhaustive over single placements of one bad item (which layer, which
        phase / which child fault) x NotImplementedError-tearDown position x
        mode (sequential, -j2, -j3) for 1..3 layers; then seeded random
        multi-fault worlds.  Verdict observed: ``Runner.failed``.
real    the real CLI ``zope.testrunner.run()`` in a process of its own over
        temp-dir worlds (children are real processes): verdict observed =
        process exit status; sequential, -j2, -j3.

Oracle: verdict == 'failed'  <=>  some test failed / errored / unexpectedly
succeeded, a module could not be imported, a layer setUp / tearDown raised
(NotImplementedError from tearDown excepted), or a layer subprocess could not
be started / died / did not deliver its report.  What tests write to
stdout / stderr must not matter.
"""
import errno
import io
import itertools
import json
import random
import sys
import threading
import time
import types
import unittest

from native import childworld as cw

PROPERTY = 'C02'
MODNAME = 'c02world'

K_SPAWN = 'verdict:spawn-failure-not-failed'
K_TRUNC = 'verdict:truncated-report-not-failed'
K_HDR = 'verdict:header-like-noise:child-failure-lost'
K_HDR_FP = 'verdict:header-like-noise:passing-run-failed'
K_GLUE_FP = 'verdict:unterminated-stderr-noise:passing-run-failed'
K_UNDEC = 'verdict:undecodable-failure-name:child-failure-lost'

BAD_OUTCOMES = ('fail', 'error', 'uxsuccess')
# child faults that are themselves a reason for 'failed'
DEADLY = ('spawn', 'dies', 'dies-noise', 'cut-header', 'cut-names')
# child "faults" that are only bytes on stdout / stderr: must not matter
BENIGN = ('noise', 'hdrnoise0', 'hdrnoise1', 'glue', 'undecodable')
FAULTS = DEADLY + BENIGN


# --------------------------------------------------------------------------
# hybrid
# --------------------------------------------------------------------------

def _world_module():
    mod = sys.modules.get(MODNAME)
    if mod is None:
        mod = types.ModuleType(MODNAME)
        sys.modules[MODNAME] = mod
    return mod


def _make_test_class(lname, outcomes, noisy):
    ns = {}
    for j, oc in enumerate(outcomes):
        def body(self, oc=oc):
            if noisy:
                sys.stdout.write('0 0 0\n1 1 0\n')
                sys.stderr.write('0 0 0\nTraceback (most recent call last)\n')
            if oc in ('fail', 'xfail'):
                self.fail('injected')
            if oc == 'error':
                raise KeyError('injected')
            if oc == 'skip':
                self.skipTest('injected')
        if oc in ('xfail', 'uxsuccess'):
            body = unittest.expectedFailure(body)
        ns['test_%d' % j] = body
    cls = type('T_' + lname, (unittest.TestCase,), ns)
    cls.__module__ = MODNAME
    return cls


def _make_layer(spec):
    def setUp(cls):
        if spec.get('setup') == 'raise':
            raise ValueError('injected setUp failure')

    def tearDown(cls):
        if spec.get('teardown') == 'raise':
            raise ValueError('injected tearDown failure')
        if spec.get('teardown') == 'nie':
            raise NotImplementedError
    ly = type(spec['name'], (object,), {'setUp': classmethod(setUp),
                                        'tearDown': classmethod(tearDown)})
    ly.__module__ = MODNAME
    return ly


def child_model(spec, tcls):
    """what a correct child reports for this layer: (ran, fails, errs)"""
    lid = MODNAME + '.' + spec['name']
    if spec.get('setup') == 'raise':
        return 0, [], ['Layer: %s.setUp' % lid]
    fails, errs = [], []
    for j, oc in enumerate(spec['tests']):
        name = 'test_%d (%s.%s.test_%d)' % (j, MODNAME, tcls.__name__, j)
        if oc in ('fail', 'uxsuccess'):
            fails.append(name)
        elif oc == 'error':
            errs.append(name)
    if spec.get('teardown') == 'raise':
        errs.append('Layer: %s.tearDown' % lid)
    return len(spec['tests']), fails, errs


def child_spec(spec, tcls):
    ran, fails, errs = child_model(spec, tcls)
    fault = spec.get('fault')
    out = 'Running %s tests:\n  Ran %d tests\n' % (spec['name'], ran)
    rep = cw.make_report(ran, fails, errs)
    if fault == 'spawn':
        return {'popen_raises': errno.ENOENT}
    if fault == 'dies':
        return {'stdout': out, 'stderr': ''}
    if fault == 'dies-noise':
        return {'stdout': out,
                'stderr': 'Traceback (most recent call last):\n  File "x"\n'
                          'MemoryError\n'}
    if fault == 'cut-header':
        return {'stdout': out, 'stderr': rep[:rep.index('\n') - 2]}
    if fault == 'cut-names':
        # the header arrives, the names do not (all of them cut off)
        if not (fails or errs):
            # nothing announced: cutting after the header loses nothing;
            # cut inside the header instead
            return {'stdout': out, 'stderr': rep[:1]}
        return {'stdout': out, 'stderr': rep[:rep.index('\n') + 1]}
    if fault == 'noise':
        return {'stdout': out + '0 0 0\n1 1 0\n...\n',
                'stderr': 'some warning: 1 2\n\xff\xfe\n' + rep +
                          'Exception ignored in: x\n9 9 9\n'}
    if fault == 'hdrnoise0':
        return {'stdout': out, 'stderr': '0 0 0\n' + rep}
    if fault == 'hdrnoise1':
        return {'stdout': out, 'stderr': '1 1 0\n' + rep}
    if fault == 'glue':
        return {'stdout': out, 'stderr': 'progress...' + rep}
    if fault == 'undecodable':
        names = fails + errs
        if names:
            rep = cw.make_report(ran, ['caf\xe9 ' + n for n in fails],
                                 ['caf\xe9 ' + n for n in errs])
        return {'stdout': out, 'stderr': rep}
    return {'stdout': out, 'stderr': rep}


def run_hybrid(case):
    runner = cw.rt()
    from zope.testrunner.find import _layer_name_cache
    from zope.testrunner.find import name_from_layer
    from zope.testrunner.options import get_options
    mod = _world_module()
    args = ['test']
    if case['n'] > 1:
        args.append('-j%d' % case['n'])
    if case.get('verbose'):
        args.append('-' + 'v' * case['verbose'])
    specs, spawned = {}, []
    tests_by_layer_name = {}
    created = []
    for spec in case['layers']:
        ly = _make_layer(spec)
        tcls = _make_test_class(spec['name'], spec['tests'],
                                case.get('noisy'))
        setattr(mod, spec['name'], ly)
        setattr(mod, tcls.__name__, tcls)
        created += [spec['name'], tcls.__name__]
        tcls.layer = ly
        suite = unittest.TestSuite(
            [tcls('test_%d' % j) for j in range(len(spec['tests']))])
        lid = name_from_layer(ly)
        tests_by_layer_name[lid] = suite
        specs[lid] = child_spec(spec, tcls)
    factory = cw.PopenFactory(specs)
    orig_call = factory.__call__

    def popen(args_, **kw):
        spawned.append(cw.layer_of_args(args_))
        return orig_call(args_, **kw)

    sink, errsink = cw.TextSink(), io.StringIO()
    tim = types.SimpleNamespace(time=time.time,
                                sleep=lambda s: time.sleep(0.0002))
    import gc as _gc
    gcs = types.SimpleNamespace(collect=lambda *a: 0, garbage=[],
                                get_debug=_gc.get_debug,
                                set_debug=_gc.set_debug,
                                get_referents=_gc.get_referents,
                                DEBUG_SAVEALL=_gc.DEBUG_SAVEALL)
    box = {}

    def call():
        options = get_options(args, [])
        options.testrunner_defaults = []
        options.resume_layer = None
        options.resume_number = None
        r = runner.Runner(options=options, script_parts=['-c', 'pass'],
                          args=args)
        r.tests_by_layer_name = tests_by_layer_name
        if case.get('import_error'):
            r.import_errors = [('broken.module', None)]
        box['runner'] = r
        r.run_tests()
        return r.failed

    with cw._LOCK:
        so, se = sys.stdout, sys.stderr
        hook = threading.excepthook
        escaped = []
        try:
            sys.stdout, sys.stderr = sink, errsink
            threading.excepthook = lambda a: escaped.append(
                a.exc_type.__name__)
            with cw.patched(runner, subprocess=cw.subprocess_shim(popen),
                            time=tim, gc=gcs):
                terminated, exc, failed = cw.call_with_watchdog(
                    call, case.get('timeout', 20.0))
        finally:
            sys.stdout, sys.stderr = so, se
            threading.excepthook = hook
            for n in created:
                if hasattr(mod, n):
                    delattr(mod, n)
            _layer_name_cache.clear()
    r = box.get('runner')
    return {'terminated': terminated,
            'exc': type(exc).__name__ if exc is not None else None,
            'failed': failed, 'spawned': spawned, 'escaped': escaped,
            'failures': [str(f[0]) if isinstance(f, tuple) else str(f)
                         for f in (r.failures if r else [])],
            'errors': [str(e[0]) if isinstance(e, tuple) else str(e)
                       for e in (r.errors if r else [])],
            'out': sink.getvalue().decode('utf-8', 'replace')}


def expected_hybrid(case, spawned):
    """-> (failed?, [reasons])"""
    reasons = []
    if case.get('import_error'):
        reasons.append('import error')
    for spec in case['layers']:
        lid = MODNAME + '.' + spec['name']
        if spec.get('setup') == 'raise':
            reasons.append('%s.setUp raised' % spec['name'])
        else:
            for j, oc in enumerate(spec['tests']):
                if oc in BAD_OUTCOMES:
                    reasons.append('%s test_%d %s' % (spec['name'], j, oc))
            if spec.get('teardown') == 'raise':
                reasons.append('%s.tearDown raised' % spec['name'])
        if lid in spawned and spec.get('fault') in DEADLY:
            reasons.append('%s child: %s' % (spec['name'], spec['fault']))
    return bool(reasons), reasons


def check_hybrid(case):
    obs = run_hybrid(case)
    mode = 'sequential' if case['n'] == 1 else '-j%d' % case['n']
    what = '%s, layers=%s: ' % (mode, json.dumps(case['layers']))
    if not obs['terminated']:
        return 'run:hang:hybrid', what + 'run_tests did not return'
    if obs['exc'] is not None:
        return ('run:exception-escapes-run_tests:%s' % obs['exc'],
                what + 'run_tests raised %s' % obs['exc'])
    want, reasons = expected_hybrid(case, obs['spawned'])
    if bool(obs['failed']) == want:
        return None
    faults = [s['fault'] for s in case['layers']
              if s.get('fault') and
              MODNAME + '.' + s['name'] in obs['spawned']]
    what += ('verdict %s, expected %s (%s); layers sent to a subprocess: %r; '
             'recorded failures=%r errors=%r; exceptions that escaped layer '
             'threads: %r' % (
                 'failed' if obs['failed'] else 'passed',
                 'failed' if want else 'passed',
                 '; '.join(reasons) or 'nothing went wrong',
                 [s.split('.')[-1] for s in obs['spawned']],
                 obs['failures'][:3], obs['errors'][:3], obs['escaped']))
    if want:
        for f, key in (('spawn', K_SPAWN), ('cut-names', K_TRUNC),
                       ('hdrnoise0', K_HDR), ('hdrnoise1', K_HDR),
                       ('undecodable', K_UNDEC)):
            if f in faults:
                return key, what
        return ('verdict:false-pass:%s:%s' % ('+'.join(sorted(set(faults)))
                                              or 'no-child-fault', mode),
                what)
    for f, key in (('glue', K_GLUE_FP), ('hdrnoise1', K_HDR_FP),
                   ('hdrnoise0', K_HDR_FP)):
        if f in faults:
            return key, what
    return ('verdict:false-fail:%s:%s' % ('+'.join(sorted(set(faults)))
                                          or 'no-child-fault', mode), what)


def _layers(k, bad=None, nie=None, benign=None):
    """k layers, all good, then one bad item placed: bad = (layer index,
    phase); nie = index of the layer whose tearDown is not supported"""
    layers = []
    for i in range(k):
        spec = {'name': 'L%d' % i, 'tests': ['pass', 'pass']}
        if nie == i:
            spec['teardown'] = 'nie'
        if benign:
            spec['tests'] = ['pass', 'skip', 'xfail']
        if bad is not None and bad[0] == i:
            ph = bad[1]
            if ph in ('setup', 'teardown'):
                spec[ph] = 'raise'
            elif ph in BAD_OUTCOMES:
                spec['tests'] = spec['tests'][:1] + [ph]
            else:
                spec['fault'] = ph
        layers.append(spec)
    return layers


PHASES = ('setup', 'teardown') + BAD_OUTCOMES + FAULTS


def gen_hybrid_canonical():
    yield {'kind': 'hybrid', 'n': 2, 'canon': 1,
           'layers': _layers(1, (0, 'spawn'))}
    for f in ('cut-names', 'hdrnoise0', 'undecodable'):
        ls = _layers(1, (0, 'fail'))
        ls[0]['fault'] = f
        yield {'kind': 'hybrid', 'n': 2, 'canon': 1, 'layers': ls}
    for f in ('glue', 'hdrnoise1'):
        yield {'kind': 'hybrid', 'n': 2, 'canon': 1,
               'layers': _layers(1, (0, f))}


def gen_hybrid_enumerated():
    for c in gen_hybrid_canonical():
        yield c
    for k in (1, 2, 3):
        for n in (1, 2, 3):
            for nie in [None] + list(range(k)):
                yield {'kind': 'hybrid', 'n': n, 'layers': _layers(k, nie=nie)}
                yield {'kind': 'hybrid', 'n': n, 'noisy': 1, 'verbose': 1,
                       'layers': _layers(k, nie=nie, benign=True)}
                yield {'kind': 'hybrid', 'n': n, 'import_error': 1,
                       'layers': _layers(k, nie=nie)}
                for i in range(k):
                    for ph in PHASES:
                        if nie == i and ph == 'teardown':
                            continue
                        yield {'kind': 'hybrid', 'n': n,
                               'layers': _layers(k, (i, ph), nie=nie)}
    # one bad test in a child together with each child fault / stderr content
    for n in (1, 2):
        for f in FAULTS:
            for oc in BAD_OUTCOMES:
                ls = _layers(2, (1, oc), nie=0)
                ls[1]['fault'] = f
                yield {'kind': 'hybrid', 'n': n, 'layers': ls}


def gen_hybrid_random(rng):
    while True:
        k = rng.randint(1, 5)
        layers = []
        deadly_used = False
        for i in range(k):
            spec = {'name': 'L%d' % i,
                    'tests': [rng.choice(['pass'] * 6 + ['skip', 'xfail'] +
                                         list(BAD_OUTCOMES))
                              for _ in range(rng.randint(0, 3))]}
            r = rng.random()
            if r < 0.08:
                spec['setup'] = 'raise'
            elif r < 0.2:
                spec['teardown'] = rng.choice(['raise', 'nie', 'nie'])
            r = rng.random()
            if r < 0.15 and not deadly_used:
                # at most one not-delivered child per world keeps the
                # attribution of a wrong verdict unambiguous
                spec['fault'] = rng.choice(DEADLY)
                deadly_used = True
            elif r < 0.3:
                spec['fault'] = 'noise'
            layers.append(spec)
        yield {'kind': 'hybrid', 'n': rng.choice([1, 1, 2, 3, 4]),
               'verbose': rng.choice([0, 0, 1, 2]),
               'noisy': rng.choice([0, 1]),
               'import_error': int(rng.random() < 0.05), 'layers': layers}


# --------------------------------------------------------------------------
# real
# --------------------------------------------------------------------------

def _t(name, outcome='pass', do=()):
    return {'name': name, 'outcome': outcome, 'do': [list(a) for a in do]}


NOISE = [('print', '0 0 0\n1 1 0\n'), ('stderr', '0 0 0\n1 1 0\nTraceback\n'),
         ('fd2', 'warning: benign 1 2\n')]


def _abc(**over):
    """unit layer + A, B, C, all passing and noisy; ``over`` replaces layers"""
    layers = []
    for name in (None, 'A', 'B', 'C'):
        key = name or 'unit'
        ly = {'name': name, 'tests': [_t('test_0', 'pass', NOISE),
                                      _t('test_1', 'pass')]}
        ly.update(over.get(key, {}))
        layers.append(ly)
    return layers


def real_worlds(tier):
    ws = [
        ('all-pass-noisy', {'layers': _abc()}, {}),
        ('fail-in-last-layer', {'layers': _abc(
            C={'tests': [_t('test_0', 'pass', NOISE), _t('test_1', 'fail')]})},
         {}),
        ('error-in-middle-layer', {'layers': _abc(
            A={'tests': [_t('test_0', 'error', NOISE)]})}, {}),
        ('unexpected-success', {'layers': _abc(
            B={'tests': [_t('test_0', 'uxsuccess'), _t('test_1', 'xfail'),
                         _t('test_2', 'skip')]})}, {}),
        ('import-error', {'layers': _abc(),
                          'bad_modules': ['import-error']}, {}),
        ('setup-raises', {'layers': _abc(B={'setup': [['raise', 'boom']]})},
         {}),
        ('teardown-raises', {'layers': _abc(
            B={'teardown': [['raise', 'boom']]})}, {}),
        ('teardown-not-supported', {'layers': _abc(
            A={'teardown': [['nie']]})}, {}),
        ('nie-then-fail-in-resumed-child', {'layers': _abc(
            A={'teardown': [['nie']]},
            C={'tests': [_t('test_0', 'fail', NOISE)]})}, {}),
        ('fd2-header-like-then-fail', {'layers': _abc(
            A={'teardown': [['nie']]},
            B={'tests': [_t('test_0', 'fail', [('fd2', '0 0 0\n')])]})},
         {'key': K_HDR}),
        ('exit0-in-test', {'layers': _abc(
            B={'tests': [_t('test_0', 'pass', [('exit', 0)]),
                         _t('test_1', 'pass')]})}, {}),
        ('sigkill-in-test', {'layers': _abc(
            A={'teardown': [['nie']]},
            C={'tests': [_t('test_0', 'pass', [('kill', 'SIGKILL')])]})}, {}),
        ('fd2-unterminated-all-pass', {'layers': _abc(
            B={'tests': [_t('test_0', 'pass', [('fd2', 'progress...')])]})},
         {'key': K_GLUE_FP}),
        ('spawn-cwd-missing', {'layers': _abc()},
         {'cwd': '/nonexistent-ztr-dir', 'key': K_SPAWN}),
    ]
    if tier != 'quick':
        ws += [
            ('syntax-error-module', {'layers': _abc(),
                                     'bad_modules': ['syntax-error']}, {}),
            ('exit-at-import-in-child', {
                'layers': _abc(), 'child_import': [['exit', 'B', 1]]}, {}),
            ('segv-in-setup', {'layers': _abc(
                A={'teardown': [['nie']]},
                B={'setup': [['kill', 'SIGSEGV']]})}, {}),
            ('exit3-in-teardown', {'layers': _abc(
                B={'teardown': [['exit', 3]]})}, {}),
            ('fd2-header-like-all-pass', {'layers': _abc(
                B={'tests': [_t('test_0', 'pass', [('fd2', '1 1 0\n')])]})},
             {'key': K_HDR_FP}),
        ]
    modes = [[], ['-j2'], ['-j3', '-v']] if tier != 'quick' \
        else [[], ['-j2']]
    cases = []
    for name, world, opts in ws:
        for m in modes:
            if opts.get('cwd') and not m:
                continue
            cases.append({'kind': 'real', 'name': name, 'world': world,
                          'args': m, 'opts': opts})
    return cases


def _deadly(acts):
    return any(a[0] in ('exit', 'kill') for a in acts)


def expected_real(case):
    world, args = case['world'], case['args']
    in_child = cw.layers_in_child(world, args)
    reasons = []
    if world.get('bad_modules'):
        reasons.append('module could not be imported')
    for ly, child in zip(world['layers'], in_child):
        nm = ly['name'] or 'unit'
        dies = (_deadly(ly.get('setup', [])) or
                _deadly(ly.get('teardown', [])) or
                any(_deadly(t.get('do', [])) for t in ly['tests']) or
                any(a[1] == nm for a in world.get('child_import', [])))
        if child and (dies or case['opts'].get('cwd')):
            reasons.append('subprocess of %s %s' % (
                nm, 'could not be started' if case['opts'].get('cwd')
                else 'died'))
            continue
        if any(a[0] == 'raise' for a in ly.get('setup', [])):
            reasons.append('%s.setUp raised' % nm)
            continue
        if any(a[0] == 'raise' for a in ly.get('teardown', [])):
            reasons.append('%s.tearDown raised' % nm)
        for t in ly['tests']:
            if t.get('outcome') in BAD_OUTCOMES:
                reasons.append('%s %s %s' % (nm, t['name'], t['outcome']))
    return bool(reasons), reasons, in_child


def check_real(case):
    top = cw.build_world(case['world'])
    try:
        res = cw.run_cli(top, case['args'], cwd=case['opts'].get('cwd'),
                         timeout=case.get('timeout', 60.0))
    finally:
        cw.remove_world(top)
    mode = ' '.join(case['args']) or 'sequential'
    if res['timed_out']:
        return ('run:hang:real:%s' % case['name'],
                '%s %s: CLI did not exit within the watchdog'
                % (case['name'], mode))
    want, reasons, in_child = expected_real(case)
    got = res['status'] != 0
    if got == want:
        return None
    what = ('world %s, %s: exit status %r, expected %s (%s); layers in a '
            'subprocess: %r; tail of output: %r' % (
                case['name'], mode, res['status'],
                'non-zero' if want else '0',
                '; '.join(reasons) or 'nothing went wrong',
                [ly['name'] or 'unit' for ly, c in
                 zip(case['world']['layers'], in_child) if c],
                res['out'][-200:]))
    key = case['opts'].get('key')
    if key is None:
        key = 'verdict:real:%s:%s:%s' % (
            case['name'], mode.replace(' ', ''),
            'false-pass' if want else 'false-fail')
    return key, what


# --------------------------------------------------------------------------

def check(case):
    if case['kind'] == 'hybrid':
        return check_hybrid(case)
    return check_real(case)


def _size(case):
    return (0 if case.get('canon') else 1, len(json.dumps(case)))


def _sig(case):
    return json.dumps({k: v for k, v in case.items()
                       if k not in ('canon', 'timeout')}, sort_keys=True)


def run(budget_s, seed, tier):
    t0 = time.time()
    rng = random.Random(seed)
    findings, seen = {}, set()
    counts = {'hybrid': 0, 'real': 0}
    samples = []

    def record(case, verdict):
        if verdict is None:
            return
        key, summary = verdict
        old = findings.get(key)
        if old is None or _size(case) < _size(old['case']):
            findings[key] = {'key': key, 'summary': summary, 'case': case}

    reals = real_worlds(tier)
    real_results = []
    pool = threading.Thread(
        target=lambda: real_results.extend(cw.run_jobs(
            [lambda c=c: (c, check_real(c)) for c in reals], workers=7,
            deadline=t0 + budget_s * 0.75)), daemon=True)
    pool.start()

    exhaustive = True
    d1 = t0 + budget_s * 0.7
    for case in gen_hybrid_enumerated():
        if time.time() > d1:
            exhaustive = False
            break
        sig = _sig(case)
        if sig in seen:
            continue
        seen.add(sig)
        counts['hybrid'] += 1
        if counts['hybrid'] in (8, 400) and len(samples) < 2:
            samples.append(case)
        record(case, check_hybrid(case))
    n_enum = counts['hybrid']
    d2 = t0 + budget_s * 0.85
    for case in gen_hybrid_random(rng):
        if time.time() > d2:
            break
        sig = _sig(case)
        if sig in seen:
            continue
        seen.add(sig)
        counts['hybrid'] += 1
        record(case, check_hybrid(case))
    pool.join(max(1.0, t0 + budget_s * 1.15 - time.time()))
    if pool.is_alive():
        cw.kill_active()
        pool.join(5)
    for item in real_results:
        if not item or isinstance(item, dict):
            continue
        c, verdict = item
        counts['real'] += 1
        seen.add(_sig(c))
        if len(samples) < 5 and c['args']:
            samples.append({'kind': 'real', 'name': c['name'],
                            'args': c['args']})
        if verdict is not None and verdict[0] in findings and \
                findings[verdict[0]]['case'].get('kind') == 'hybrid':
            if '[also end to end' in findings[verdict[0]]['summary']:
                continue
            findings[verdict[0]]['summary'] += (
                ' [also end to end, exit status of the real CLI: %s]'
                % verdict[1][:300])
        else:
            record(c, verdict)
    return {
        'cases': sum(counts.values()), 'distinct': len(seen),
        'rule': 'distinct = different (layers with their test outcomes, '
                'setUp/tearDown behaviour and child fault, mode, noise, '
                'import error) world; a hybrid case is one execution of the '
                'real Runner.run_tests, a real case one run of the CLI',
        'exhaustive': exhaustive,
        'bound': 'hybrid: 1..3 layers x mode in {sequential, -j2, -j3} x '
                 'position of a tearDown raising NotImplementedError '
                 '(none / each layer) x one bad item placed anywhere: phase '
                 'in {setUp raises, tearDown raises, test fails / errors / '
                 'unexpectedly succeeds} or child fault in %r; plus all-good '
                 'worlds (with skips, expected failures, noise on '
                 'stdout/stderr) and an import error = %d worlds; then %d '
                 'seeded random multi-fault worlds (<= 5 layers, -j up to 4); '
                 '%d of %d real CLI runs (%d worlds x modes)' % (
                     list(FAULTS), n_enum, counts['hybrid'] - n_enum,
                     counts['real'], len(reals),
                     len({c['name'] for c in reals})),
        'counts': counts,
        'samples': samples[:5],
        'findings': sorted(findings.values(), key=lambda f: f['key']),
    }


def replay(case):
    verdict = check(case)
    if verdict is None:
        return False, 'property holds on this case'
    return True, '%s: %s' % verdict
