"""C08 - filter patterns select by any positive match and no negated match.

Oracle: the REAL ``build_filtering_func`` (directly, through ``get_options`` and
end to end through ``Runner``) against an independent reference written from the
property statement (``selworld.ref_accept``: ``re.search`` of every pattern).

Domain: non-empty pattern lists (``get_options`` never produces an empty list; the
empty list is not checked) and names that are non-empty strings without newlines.

Case kinds (field ``kind``):
  direct   {patterns, names}          accept(name) == reference for every name
  algebra  {patterns, extra, names}   order independence; adding a '!'-pattern never
                                      selects; adding a positive pattern never
                                      deselects (checked only when the list already
                                      holds a positive pattern: with only '!'-patterns
                                      the statement's own 'everything' default makes
                                      the corollary false by definition)
  options  {opts, names}              patterns as processed by the real get_options
                                      (-t/-m/--layer, legacy positionals, defaults)
  e2e      {world, opts}              in-process Runner: tests run / layers run are
                                      exactly the accepted ones
  e2e-mod  {world, opts}              real modules in a temp dir: modules imported and
                                      tests run are exactly the accepted ones
"""
import itertools
import json
import random
import time

from native import selworld as W

PROPERTY = "C08"

PATS = ['a', 'b', '^a', 'b$', 'a|b', 'ab', '', '.',
        '!a', '!b', '!^a', '!b$', '!a|b', '!ab', '!', '!.']
NAMES = ['a', 'b', 'ab', 'ba', 'c', 'aab', 'bb', 'x.y', 'A', ' ']

# end-to-end world: names chosen so that PATS discriminate
E2E_WORLD = {
    'layers': [{'name': 'LA', 'bases': []}, {'name': 'LB', 'bases': []},
               {'name': 'LC', 'bases': ['LA']}],
    'modules': [
        {'name': 'm0', 'suite': {'s': [
            {'t': 'a'}, {'t': 'b'}, {'t': 'ab'},
            {'s': [{'t': 'ba'}, {'t': 'c'}], 'layer': 'LA'},
            {'s': [{'t': 'aab'}, {'t': 'bb'}], 'layer': 'LB'},
            {'s': [{'t': 'x.y'}, {'t': 'A'}, {'t': 'a b'}], 'layer': 'LC'},
        ]}}]}
LAYER_PATS = ['LA', 'LB', 'L', 'selw', 'Unit', 'layer', 'LA$', '^zope', 'L[BC]',
              '', '!LA', '!Unit', '!layers', '!L[AB]', '!', '!^selw',
              # a layer's exact dotted name given as a (positive) pattern: it is a pattern like any other
              'selw_layers.LA', 'selw_layers.LB', 'zope.testrunner.layer.UnitTests']

MOD_WORLD = {
    'layers': [{'name': 'LA', 'bases': []}],
    'modules': [
        {'name': 'pa.tests.test_m0', 'suite': {'s': [
            {'t': 'a'}, {'t': 'ab', 'layer': 'LA'}]}},
        {'name': 'pa.tests.test_m1', 'suite': {'s': [
            {'t': 'b'}, {'t': 'ba', 'layer': 'LA'}]}},
        {'name': 'pb.tests.test_m0', 'suite': {'s': [{'t': 'c'}, {'t': 'aab'}]}},
        {'name': 'pb.tests.test_x', 'suite': {'s': [{'t': 'bb', 'layer': 'LA'}]}},
    ]}
MOD_PATS = ['pa', 'pb', 'm0', 'test_x', 'tests', '^pa', 'm1$', 'p[ab].tests.test_m',
            'pa.tests.test_m0$', '.', '', '!pa', '!m0', '!tests', '!.', '!x$', '!',
            # negated patterns that match the dotted name of a PACKAGE but of no module below it (anchored at the end)
            '!tests$', '!^pa$', '!^pb\\.tests$', '!pa\\.tests\\Z', '!tests(?!\\.)']


def _sign(patterns):
    pos = any(not p.startswith('!') for p in patterns)
    neg = any(p.startswith('!') for p in patterns)
    return {(True, False): 'pos-only', (False, True): 'neg-only',
            (True, True): 'pos+neg', (False, False): 'empty'}[(pos, neg)]


def _in_domain(name):
    return bool(name) and '\n' not in name and '\r' not in name


# ---------------------------------------------------------------------------

def check_case(case):
    """-> list of (key, summary)"""
    from zope.testrunner.filter import build_filtering_func
    kind = case['kind']
    v = []
    if kind == 'direct':
        pats = case['patterns']
        accept = build_filtering_func(list(pats))
        for n in case['names']:
            if not _in_domain(n):
                continue
            got, want = bool(accept(n)), W.ref_accept(pats, n)
            if got != want:
                v.append(('filter:direct:%s:%s' % (
                    _sign(pats), 'selected-but-not-accepted' if got
                    else 'accepted-but-not-selected'),
                    'build_filtering_func(%r)(%r) = %r, statement says %r'
                    % (pats, n, got, want)))
    elif kind == 'algebra':
        pats, extra = case['patterns'], case['extra']
        names = [n for n in case['names'] if _in_domain(n)]
        base = build_filtering_func(list(pats))
        sel = [bool(base(n)) for n in names]
        for perm_name, perm in (('reversed', list(reversed(pats))),
                                ('sorted', sorted(pats)),
                                ('rotated', pats[1:] + pats[:1])):
            f = build_filtering_func(perm)
            if [bool(f(n)) for n in names] != sel:
                v.append(('filter:order-dependent:%s' % _sign(pats),
                          'selection of %r differs for %s order %r'
                          % (pats, perm_name, perm)))
        for pos in range(len(pats) + 1):
            more = pats[:pos] + [extra] + pats[pos:]
            f = build_filtering_func(more)
            sel2 = [bool(f(n)) for n in names]
            if extra.startswith('!'):
                bad = [n for n, s1, s2 in zip(names, sel, sel2) if s2 and not s1]
                if bad:
                    v.append(('filter:negative-pattern-selects:%s' % _sign(pats),
                              'adding %r to %r selects %r' % (extra, pats, bad)))
            elif _sign(pats) in ('pos-only', 'pos+neg'):
                bad = [n for n, s1, s2 in zip(names, sel, sel2) if s1 and not s2]
                if bad:
                    v.append(('filter:positive-pattern-deselects:%s' % _sign(pats),
                              'adding %r to %r deselects %r' % (extra, pats, bad)))
    elif kind == 'options':
        from zope.testrunner.options import get_options
        opts = case['opts']
        o = get_options(W.argv(opts, '/nonexistent-selw'), [])
        for what, real, pats in (('test', o.test, W.test_patterns(opts)),
                                 ('module', o.module, W.module_patterns(opts)),
                                 ('layer', o.layer, opts.get('layer'))):
            if what == 'layer' and not pats:
                if real:
                    v.append(('options:layer:filter-without-option',
                              'options.layer = %r for %r' % (real, opts)))
                continue
            accept = build_filtering_func(list(real))
            for n in case['names']:
                got, want = bool(accept(n)), W.ref_accept(pats, n)
                if got != want:
                    v.append(('options:%s:%s%s' % (
                        what, _sign(pats),
                        ':legacy' if opts.get('legacy') else ''),
                        '%s patterns from %r select %r = %r, statement says %r'
                        % (what, W.argv(opts, 'P')[3:], n, got, want)))
    elif kind in ('e2e', 'e2e-mod'):
        world, opts = case['world'], case['opts']
        real = kind == 'e2e-mod'
        if real:
            with W.RealWorld(world) as rw:
                events, out, _r = rw.run_local(opts)
        else:
            events, out, _r = W.run_inproc(world, opts)
        v.extend(_check_e2e(world, opts, events, real))
    else:
        raise ValueError(kind)
    return v


def _check_e2e(world, opts, events, real):
    v = []
    want = W.expected(world, opts, real=real)
    info = {name: (layer, level, mod) for name, layer, level, mod in W.flatten(world)}
    ran = {}
    for _pid, name, _tsu, _up in W.executions(events):
        ran.setdefault(info[name][0], set()).add(name)
    tp, lp, mp = W.test_patterns(opts), opts.get('layer') or [], \
        W.module_patterns(opts)
    arg = W.argv(opts, 'P')[3:]
    for layer in sorted(set(want) | set(ran)):
        w, g = set(want.get(layer, [])), ran.get(layer, set())
        for n in sorted(g - w):
            # ran although not accepted: which predicate says no?
            test_ok = W.ref_accept(tp, n) and W.level_ok(info[n][1], opts)
            mod_ok = not real or W.ref_accept(mp, info[n][2])
            if not mod_ok:
                key = 'e2e:module:%s:extra' % _sign(mp)
            elif not test_ok:
                key = 'e2e:test:%s:extra' % _sign(tp)
            else:
                key = 'e2e:layer:%s:extra' % (_sign(lp) if lp else 'unit-switch')
            v.append((key, 'test %s of layer %s ran but is not accepted (argv %r)'
                      % (n, layer, arg)))
        for n in sorted(w - g):
            # accepted but did not run: blame the layer filter only if the whole
            # layer is missing and a layer filter was given
            if not g and lp:
                key = 'e2e:layer:%s:missing' % _sign(lp)
            else:
                key = 'e2e:test:%s:missing' % _sign(tp)
            v.append((key, 'test %s of layer %s is accepted but did not run '
                      '(argv %r)' % (n, layer, arg)))
    if real:
        want_m = sorted(m['name'] for m in world['modules']
                        if W.ref_accept(mp, m['name']))
        got_m = sorted(n for _p, k, n in events if k == 'import')
        if want_m != got_m:
            v.append(('e2e:module:%s:%s' % (
                _sign(mp), 'missing' if len(got_m) < len(want_m) else 'extra'),
                'modules imported %r, accepted are %r (argv %r)'
                % (got_m, want_m, arg)))
    return v


# ---------------------------------------------------------------------------
# enumeration

def _lists(alphabet, maxlen, minlen=1):
    for n in range(minlen, maxlen + 1):
        for tup in itertools.product(alphabet, repeat=n):
            yield list(tup)


# patterns whose meaning depends on their surroundings when patterns are not compiled one by one: numbered back
# references, global inline flags, named groups -- "any positive matches, no negated matches" is per pattern
CTX_PATS = [r'(a)\1', r'(b)\1', '(?i)a', 'B', '(?P<n>a)x', '(?P<n>b)y', r'!(a)\1', r'!(b)\1', '!(?i)b', '!(?P<n>a)x']
CTX_NAMES = ['aa', 'bb', 'ab', 'B', 'b', 'ax', 'by', 'A', 'a', 'xx']


def _gen_exhaustive():
    for pats in _lists(CTX_PATS, 2, 2):
        yield {'kind': 'direct', 'patterns': pats, 'names': CTX_NAMES}
    for pats in _lists(PATS, 3):
        yield {'kind': 'direct', 'patterns': pats, 'names': NAMES}
    for pats in _lists(PATS, 2):
        for extra in PATS:
            yield {'kind': 'algebra', 'patterns': pats, 'extra': extra,
                   'names': NAMES}
    small = ['a', 'b$', '', '!a', '!a|b', '!']
    for t in _lists(small, 2, 0):
        for leg in (None, ['.'], ['a'], ['!a'], ['.', 'b'], ['a', '!b'],
                    ['!a', '!']):
            # (an empty positional argument means "no filter": not generated)
            yield {'kind': 'options', 'names': NAMES,
                   'opts': {'t': t, 'm': list(reversed(t)), 'layer': t,
                            'legacy': leg}}


REGEX_ATOMS = ['a', 'b', 'c', '.', 'x', '_', 'ab', '[ab]', '[^a]', 'a*', 'b+',
               'a?', '(a|b)', r'\.', r'\w', r'\d', '^', '$', 'test', '1']


def _rand_pattern(rng):
    body = ''.join(rng.choice(REGEX_ATOMS) for _ in range(rng.randint(0, 3)))
    if rng.random() < 0.25:
        body = body + '|' + rng.choice(REGEX_ATOMS)
    return ('!' if rng.random() < 0.4 else '') + body


def _rand_name(rng):
    return ''.join(rng.choice('abcx_.1 tes(')
                   for _ in range(rng.randint(1, 8)))


def _gen_random(rng):
    import re
    while True:
        pats = []
        while len(pats) < rng.randint(1, 6):
            p = _rand_pattern(rng)
            try:
                re.compile(p[1:] if p.startswith('!') else p)
            except re.error:
                continue
            pats.append(p)
        if rng.random() < 0.3:
            pats.append(rng.choice(pats))       # duplicate
        names = [_rand_name(rng) for _ in range(8)]
        if rng.random() < 0.5:
            yield {'kind': 'direct', 'patterns': pats, 'names': names}
        else:
            yield {'kind': 'algebra', 'patterns': pats,
                   'extra': rng.choice(pats + [_safe(rng)]), 'names': names}


def _safe(rng):
    return rng.choice(PATS)


def _gen_e2e(rng):
    """end-to-end cases: first a fixed systematic list, then random"""
    fixed = []
    for t in [[], ['a'], ['!a'], ['a', '!b'], ['!a', '!b'], ['a', 'b'], ['^a', 'b$'],
              [''], ['!'], ['x.y', 'c']]:
        fixed.append({'t': t})
    for lp in [['LA'], ['!LA'], ['L[BC]', 'Unit'], ['!Unit'], ['LA', '!LC'],
               ['!LA', '!LB'], ['layer'], ['!layers'], [''],
               ['selw_layers.LA', 'selw_layers.LB', '!LA'], ['selw_layers.LB', '!L[AB]'],
               ['zope.testrunner.layer.UnitTests', '!Unit', 'LA']]:
        fixed.append({'layer': lp})
    for o in fixed:
        yield {'kind': 'e2e', 'world': E2E_WORLD, 'opts': o}
    while True:
        o = {}
        if rng.random() < 0.8:
            o['t'] = [rng.choice(PATS) for _ in range(rng.randint(1, 3))]
        if rng.random() < 0.6:
            o['layer'] = [rng.choice(LAYER_PATS) for _ in range(rng.randint(1, 3))]
        yield {'kind': 'e2e', 'world': E2E_WORLD, 'opts': o}


def _gen_e2e_mod(rng):
    fixed = [{'m': ['pa']}, {'m': ['!pa']}, {'m': ['m0', '!pb']}, {'m': ['!m0', '!x$']},
             {'legacy': ['pb']}, {'legacy': ['.', 'a']}, {'legacy': ['!pa', '!a']},
             {'m': ['test_x'], 'legacy': ['m1$', 'b']}, {},
             {'m': ['!tests$']}, {'m': ['!^pa$']}, {'m': ['!^pb\\.tests$', 'm0']}, {'m': ['!tests(?!\\.)']}]
    for o in fixed:
        yield {'kind': 'e2e-mod', 'world': MOD_WORLD, 'opts': o}
    while True:
        o = {}
        if rng.random() < 0.8:
            o['m'] = [rng.choice(MOD_PATS) for _ in range(rng.randint(1, 3))]
        if rng.random() < 0.4:
            o['t'] = [rng.choice(PATS) for _ in range(rng.randint(1, 2))]
        if rng.random() < 0.3:
            leg = [rng.choice([p for p in MOD_PATS if p])]
            if rng.random() < 0.5:
                leg.append(rng.choice([p for p in PATS if p]))
            o['legacy'] = leg
        yield {'kind': 'e2e-mod', 'world': MOD_WORLD, 'opts': o}


def _nontrivial(case):
    if case['kind'] in ('direct', 'algebra'):
        return len(case['patterns']) >= 2 or case['patterns'][0].startswith('!')
    o = case['opts']
    return bool(o.get('t') or o.get('m') or o.get('layer') or o.get('legacy'))


def run(budget_s, seed, tier):
    t0 = time.time()
    deadline = t0 + budget_s * 0.92
    rng = random.Random(seed)
    col = W.Collector(_nontrivial)
    exhaustive = True
    # 1. exhaustive small scope (direct + algebra + options); always completes
    for i, case in enumerate(_gen_exhaustive()):
        if time.time() > deadline:
            exhaustive = False
            break
        col.feed(case, check_case)
        if i in (700, 5000):
            col.sample(case)
    # 2. end to end, interleaved by time share: 35% e2e, 30% e2e-mod, rest random
    left = deadline - time.time()
    for gen, share, min_n in ((_gen_e2e(rng), 0.38, 19),
                              (_gen_e2e_mod(rng), 0.34, 9)):
        stop = time.time() + left * share
        n = 0
        for case in gen:
            if (time.time() > stop and n >= min_n) or time.time() > deadline:
                break
            col.feed(case, check_case)
            if n == min_n + 1:
                col.sample(case)
            n += 1
    # 3. seeded random direct/algebra cases over a larger regex vocabulary
    n = 0
    for case in _gen_random(rng):
        if time.time() > deadline:
            break
        col.feed(case, check_case)
        if n == 3:
            col.sample(case)
        n += 1
    return col.result(
        exhaustive,
        'exhaustive: all pattern lists of length 1..3 over %d patterns x %d names '
        '(direct), all lists of length 1..2 x every added pattern at every position '
        '(algebra), -t/-m/--layer lists of length 0..2 over 6 patterns x 7 legacy '
        'positional forms through get_options; then seeded: end-to-end Runner runs '
        '(-t/--layer on a 13-test 4-layer world; -m/-t/legacy filters on 4 real '
        'modules) and random lists of <= 7 patterns over %d regex atoms x 8 random '
        'names, until the budget' % (len(PATS), len(NAMES), len(REGEX_ATOMS)),
        'a case is one check_case() call (1..4 builds of the real filter, or one '
        'get_options call, or one full Runner run); distinct = distinct cases whose '
        'pattern list has >= 2 patterns or a "!"-pattern (direct/algebra) or that '
        'give at least one filter option (options/e2e)')


def replay(case):
    v = check_case(case)
    if v:
        return True, '; '.join('%s: %s' % kv for kv in v[:3])
    return False, 'no violation for this case'
