"""C07 - subprocess result channel: nothing lost, nothing partial trusted, no hang.

Three families of cases, all executing the real code:

fake      real ``runner.spawn_layer_in_subprocess`` against a scripted child
          (``childworld.run_spawn``): exact stdout / stderr bytes, truncation at
          every byte offset, noise before / after the report, Popen raising,
          readline raising EINTR, ...
roundtrip real ``process.SubProcess.global_setup()+report()`` (the child side)
          -> its bytes -> the real parent parser.
real      real ``Runner`` run ``-j2`` over a temp-dir world whose tests write
          noise to fd 2, kill the child, ... (a handful, ~1 s each, overlapped
          with the fake cases on a small thread pool).

Oracle (the statement of C07):
 * the parent terminates (watchdog) and its result is marked done;
 * report delivered  -> num_ran, failure names, error names recorded exactly
   (names compared modulo whitespace - the child itself joins multi-line ids);
 * child not started / died / report cut short -> either the recorded data is
   the complete data anyway (cut only removed the final newline), or an error
   that mentions the layer is recorded and nothing of the partial report is
   used.
"""
import errno
import threading
import json
import random
import time

from native import childworld as cw

PROPERTY = 'C07'
LAYER = 'samplelayers.LayerX'

K_SPAWN = 'spawn:Popen-raises:no-error-recorded'
K_TRUNC = 'report:truncated-after-header:StopIteration-escapes'
K_PARTIAL = 'report:truncated-inside-last-name:partial-name-accepted'
K_UNDEC = 'report:undecodable-name:UnicodeDecodeError-escapes'
K_HDR = 'report:header-like-noise-line:taken-as-header'
K_GLUE_LOST = 'report:unterminated-noise-before-header:report-not-recognised'
K_GLUE_NUM = 'report:unterminated-digit-noise-before-header:wrong-count'
K_CR = 'report:name-with-carriage-return:split-into-two-names'
K_UXS = 'child-report:unexpected-success-entry:TypeError-in-report'


def _real_run_tests_appends_bare_entries():
    """Probe the REAL runner.run_tests: does an unexpected success end up in `failures` as a bare test object
    (the defect behind K_UXS) or as a (test, exc_info) pair?  The bare-entry cases below model what run_tests
    hands to SubProcess.report(); they are only meaningful while the real code still produces such entries."""
    import io
    import types
    import unittest
    from zope.testrunner import runner as _r

    class _Out:
        def __getattr__(self, name):
            return lambda *a, **k: None

    class _T(unittest.TestCase):
        @unittest.expectedFailure
        def test_ux(self):
            pass

    opts = types.SimpleNamespace(repeat=1, output=_Out(), report_refcounts=False, verbose=0, progress=False,
                                 post_mortem=False, buffer=False, stop_on_error=False, resume_layer=None,
                                 gc_after_test=False, ignore_new_threads=[])
    failures, errors, skipped = [], [], []
    try:
        _r.run_tests(opts, unittest.defaultTestLoader.loadTestsFromTestCase(_T), 'zope.testrunner.layer.UnitTests',
                     failures, errors, skipped, [])
    except Exception:
        return True            # cannot tell: keep the cases
    return any(not isinstance(f, tuple) for f in failures)


_BARE = None


def _bare_possible():
    global _BARE
    if _BARE is None:
        _BARE = _real_run_tests_appends_bare_entries()
    return _BARE


# --------------------------------------------------------------------------
# helpers on the input side (features of a case)
# --------------------------------------------------------------------------

def _is_headerlike(line):
    try:
        a = [int(x) for x in line.strip().split()]
    except ValueError:
        return False
    return len(a) == 3


def _noise_has_header(pre):
    b = cw.s2b(pre)
    lines = b.splitlines(True)
    # only complete lines count here; an unterminated tail is glued to the
    # header and handled separately
    if lines and not lines[-1].endswith((b'\n', b'\r')):
        lines = lines[:-1]
    return any(_is_headerlike(ln) for ln in lines)


def _unterminated(pre):
    b = cw.s2b(pre)
    return bool(b) and not b.endswith((b'\n', b'\r'))


def _decodable(name):
    try:
        cw.s2b(name).decode('utf-8')
        return True
    except UnicodeDecodeError:
        return False


def _dec(name):
    return cw.norm(cw.s2b(name).decode('utf-8'))


def fake_stderr(case):
    rep = cw.make_report(case['ran'], case['fails'], case['errs'],
                         case.get('eol', '\n'))
    if case.get('cut') is not None:
        rep = rep[:case['cut']]
    if case.get('no_report'):
        rep = ''
    return case.get('pre', '') + rep + case.get('post', '')


def fake_spec(case):
    return {'stdout': case.get('stdout', ''), 'stderr': fake_stderr(case),
            'popen_raises': case.get('popen_raises'),
            'readline_errors': case.get('readline_errors') or {}}


# --------------------------------------------------------------------------
# oracle for fake / roundtrip cases
# --------------------------------------------------------------------------

def judge(case, obs, want_fails, want_errs, delivered):
    """-> None | (key, summary).  want_*: normalised names, or None when a
    name is not valid UTF-8 (then nothing exact can be demanded)."""
    if not obs['terminated']:
        return ('parent:hang:%s' % case['kind'],
                'spawn_layer_in_subprocess did not return within the watchdog')
    if not obs['done']:
        return ('result:done-not-set', 'result.done stayed False; the '
                'scheduler would wait for ever')
    got_f = [cw.norm(x) for x in obs['failures']]
    got_e = [cw.norm(x) for x in obs['errors']]
    layer_err = [e for e in obs['errors'] if obs['layer_name'] in e]
    exact = (want_fails is not None and obs['exc'] is None and
             obs['num_ran'] == case['ran'] and got_f == want_fails and
             got_e == want_errs)
    if exact:
        return None
    pre = case.get('pre', '')
    if delivered:
        what = ('report delivered in full but parent recorded ran=%r '
                'failures=%r errors=%r exc=%s; child said ran=%r failures=%r '
                'errors=%r' % (obs['num_ran'], got_f[:4], got_e[:4],
                               obs['exc'], case['ran'],
                               (want_fails if want_fails is not None
                                else case['fails'])[:4],
                               (want_errs if want_errs is not None
                                else case['errs'])[:4]))
        if _noise_has_header(pre):
            return K_HDR, what
        if _unterminated(pre):
            if layer_err:
                return K_GLUE_LOST, what
            return K_GLUE_NUM, what
        if want_fails is None or obs['exc'] == 'UnicodeDecodeError':
            if obs['exc'] == 'UnicodeDecodeError' and not layer_err:
                return K_UNDEC, what
            if want_fails is None:
                return None     # nothing exact can be demanded of such names
        if any('\r' in n for n in case['fails'] + case['errs']):
            return K_CR, what
        return ('report:delivered-but-not-recorded-exactly:%s'
                % (obs['exc'] or 'no-exception'), what)
    # not delivered: an error for the layer, and no partial data
    partial = bool(got_f) or [e for e in obs['errors'] if e not in layer_err]
    if layer_err and not partial:
        return None
    what = ('child %s; parent recorded ran=%r failures=%r errors=%r, '
            'exception escaping the thread target: %s' % (
                'could not be started' if case.get('popen_raises') is not None
                else 'report missing or cut short',
                obs['num_ran'], got_f[:4], got_e[:4], obs['exc']))
    if case.get('popen_raises') is not None:
        return K_SPAWN, what
    if _noise_has_header(pre):
        return K_HDR, what
    if obs['exc'] == 'StopIteration':
        return K_TRUNC, what
    if obs['exc'] == 'UnicodeDecodeError':
        return K_UNDEC, what
    if obs['exc'] is None and case.get('cut') is not None:
        return K_PARTIAL, what
    return ('report:not-delivered:no-error-or-partial-data:%s'
            % (obs['exc'] or 'no-exception'), what)


def check_fake(case):
    obs = cw.run_spawn(fake_spec(case), layer_name=LAYER,
                       verbose=case.get('verbose', 0),
                       collector=case.get('collector', 'deferred'),
                       timeout=case.get('timeout', 10.0))
    names = case['fails'] + case['errs']
    if all(_decodable(n) for n in names):
        wf = [_dec(n) for n in case['fails']]
        we = [_dec(n) for n in case['errs']]
    else:
        wf = we = None
    full = cw.make_report(case['ran'], case['fails'], case['errs'],
                          case.get('eol', '\n'))
    delivered = (case.get('popen_raises') is None and
                 not case.get('no_report') and
                 (case.get('cut') is None or case['cut'] >= len(full)))
    if obs.get('children', 0) > 1:
        # one layer, one child: a child that ends without (complete) report may already have run every test of the layer,
        # so starting another one runs them a second time (C03: once each) -- the parent records an error instead
        return ('parent:layer-spawned-again:%d-children' % obs['children'],
                'spawn_layer_in_subprocess started %d child processes for one layer (child output %r / stderr %r)'
                % (obs['children'], fake_spec(case).get('stdout', '')[:60], fake_spec(case).get('stderr', '')[:60]))
    return judge(case, obs, wf, we, delivered)


def check_roundtrip(case):
    wire, exc = cw.real_child_report(
        case['ran'], case['fails'], case['errs'],
        processes=case.get('processes', 2),
        bare_fails=case.get('bare_fails', ()))
    spec = {'stdout': '', 'stderr': case.get('pre', '') + cw.b2s(wire)}
    obs = cw.run_spawn(spec, layer_name=LAYER, verbose=case.get('verbose', 0))
    wf = [cw.norm(n) for n in case['fails'] + list(case.get('bare_fails', ()))]
    we = [cw.norm(n) for n in case['errs']]
    verdict = judge(case, obs, wf, we, True)
    if exc is not None and verdict is not None:
        # the real child side itself raised while writing its report, on
        # a failures list of the shape the real runner builds
        return (K_UXS, 'SubProcess.report() raised %s: %s after writing %r; '
                'parent then recorded ran=%r failures=%r errors=%r exc=%s' % (
                    type(exc).__name__, exc, wire[:60], obs['num_ran'],
                    obs['failures'][:3], obs['errors'][:3], obs['exc']))
    return verdict


# --------------------------------------------------------------------------
# real worlds
# --------------------------------------------------------------------------

def _t(name, outcome='pass', do=()):
    return {'name': name, 'outcome': outcome, 'do': [list(a) for a in do]}


def real_worlds(tier):
    ws = []
    ws.append(('noise-volume', {
        'layers': [
            {'name': 'L1', 'tests': [
                _t('test_a', 'pass', [('big', 'print', 20000),
                                      ('big', 'fd2', 20000)]),
                _t('test_b', 'fail', [('fd2', 'warning: 1 2\nTraceback\n'),
                                      ('stderr', '7 7 7\n'),
                                      ('print', '1 1 1\n')]),
                _t('test_c', 'error', [('fd2', '\xff\xfe garbage \x00\n')])]},
            {'name': 'L2', 'tests': [
                _t('test_é中', 'fail'), _t('test_ok', 'pass'),
                _t('test_skip', 'skip'),
                _t('test_' + 'x' * 3000, 'error')]}]}, ['-j2']))
    ws.append(('fd2-header-like', {
        'layers': [
            {'name': 'L1', 'tests': [
                _t('test_a', 'fail', [('fd2', '0 0 0\n')])]},
            {'name': 'L2', 'tests': [_t('test_a', 'pass')]}]}, ['-j2']))
    ws.append(('exit0-in-test', {
        'layers': [
            {'name': 'L1', 'tests': [_t('test_a', 'pass'),
                                     _t('test_b', 'pass', [('exit', 0)]),
                                     _t('test_c', 'fail')]},
            {'name': 'L2', 'tests': [_t('test_a', 'fail')]}]}, ['-j2']))
    ws.append(('sigkill-in-test', {
        'layers': [
            {'name': 'L1', 'tests': [_t('test_a', 'fail'),
                                     _t('test_b', 'pass',
                                        [('kill', 'SIGKILL')])]},
            {'name': 'L2', 'tests': [_t('test_a', 'error')]}]},
        ['-j3', '-v']))
    ws.append(('unexpected-success', {
        'layers': [
            {'name': 'L1', 'tests': [_t('test_a', 'pass'),
                                     _t('test_ux', 'uxsuccess')]}]}, ['-j2']))
    ws.append(('fd2-unterminated', {
        'layers': [
            {'name': 'L1', 'tests': [
                _t('test_a', 'pass', [('fd2', 'progress...')]),
                _t('test_b', 'fail')]}]}, ['-j2']))
    ws.append(('spawn-cwd-missing', {
        'layers': [
            {'name': 'L1', 'tests': [_t('test_a', 'fail')]}]},
        ['-j2', '@cwd=/nonexistent-ztr-dir']))
    if tier != 'quick':
        ws.append(('many-failures', {
            'layers': [
                {'name': 'L1', 'tests': [
                    _t('test_%04d' % i, 'fail' if i % 2 else 'error')
                    for i in range(400)]}]}, ['-j2']))
        ws.append(('segv-in-setup', {
            'layers': [
                {'name': 'L1', 'setup': [['kill', 'SIGSEGV']],
                 'tests': [_t('test_a', 'pass')]},
                {'name': 'L2', 'tests': [_t('test_a', 'pass')]}]}, ['-j2']))
        ws.append(('exit3-in-teardown', {
            'layers': [
                {'name': 'L1', 'teardown': [['exit', 3]],
                 'tests': [_t('test_a', 'fail')]}]}, ['-j2']))
        ws.append(('exit-at-import', {
            'child_import': [['exit', 'L1', 1]],
            'layers': [
                {'name': 'L1', 'tests': [_t('test_a', 'pass')]},
                {'name': 'L2', 'tests': [_t('test_a', 'fail')]}]}, ['-j2']))
        ws.append(('resumed-after-nie', {
            'layers': [
                {'name': 'L1', 'teardown': [['nie']],
                 'tests': [_t('test_a', 'pass')]},
                {'name': 'L2', 'tests': [
                    _t('test_a', 'error', [('big', 'fd2', 5000)]),
                    _t('test_b', 'pass', [('exit', 0)])]},
                {'name': 'L3', 'tests': [_t('test_a', 'fail')]}]}, []))
    return ws


def _dies(layer):
    def deadly(acts):
        return any(a[0] in ('exit', 'kill') for a in acts)
    return (deadly(layer.get('setup', [])) or deadly(layer.get('teardown', []))
            or any(deadly(t.get('do', [])) for t in layer['tests']))


def check_real(case):
    world = case['world']
    args = [a for a in case['args'] if not a.startswith('@')]
    cwd = None
    for a in case['args']:
        if a.startswith('@cwd='):
            cwd = a[5:]
    top = cw.build_world(world)
    try:
        res = cw.run_world(top, args, timeout=case.get('timeout', 60.0),
                           cwd=cwd)
    finally:
        cw.remove_world(top)
    if res.get('timed_out'):
        return ('parent:hang:real:%s' % case['name'],
                'the run did not end within the watchdog')
    if res['failed'] is None:
        return ('parent:crash:real:%s' % case['name'],
                'driver delivered no result: ' + res['out'][-400:])
    # which layers run in a child?  -j N: all; otherwise those after the
    # first layer whose tearDown is not supported
    jn = any(a.startswith('-j') and a != '-j1' for a in args)
    in_child = []
    seen_nie = False
    for ly in world['layers']:
        in_child.append(jn or seen_nie)
        if any(a[0] == 'nie' for a in ly.get('teardown', [])):
            seen_nie = True
    want_ran, want_f, want_e, dead = 0, set(), set(), []
    spawn_fails = cwd is not None
    for ly, child in zip(world['layers'], in_child):
        lid = cw.layer_id(ly['name'])
        if child and (spawn_fails or _dies(ly) or any(
                lid.endswith('.' + a[1])
                for a in world.get('child_import', []))):
            dead.append(lid)
            continue
        for t in ly['tests']:
            want_ran += 1
            oc = t.get('outcome', 'pass')
            if oc in ('fail', 'uxsuccess'):
                want_f.add(cw.test_id(ly['name'], t['name']))
            elif oc == 'error':
                want_e.add(cw.test_id(ly['name'], t['name']))
    got_f, got_e = set(res['failures']), set(res['errors'])
    extra = got_e - want_e
    missing_layer_errors = [d for d in dead
                            if not any(d in x for x in extra)]
    stray = [x for x in extra if not any(d in x for d in dead)]
    ok = (res['ran'] == want_ran and got_f == want_f and
          want_e <= got_e and not missing_layer_errors and not stray and
          len(res['failures']) == len(got_f))
    if ok:
        return None
    what = ('%s %s: parent recorded ran=%r failures=%r errors=%r exc=%r; '
            'world says ran=%r failures=%r errors=%r dead-layers=%r' % (
                case['name'], args, res['ran'], sorted(got_f)[:3],
                sorted(got_e)[:3], res['exc'], want_ran, sorted(want_f)[:3],
                sorted(want_e)[:3], dead))
    acts = [a for ly in world['layers'] for t in ly['tests']
            for a in t.get('do', [])]
    fd2 = ''.join(a[1] for a in acts if a[0] == 'fd2')
    if spawn_fails:
        return K_SPAWN, what
    if any(t.get('outcome') == 'uxsuccess' for ly in world['layers']
           for t in ly['tests']):
        return K_UXS, what
    if fd2 and _noise_has_header(fd2):
        return K_HDR, what
    if fd2 and _unterminated(fd2):
        return (K_GLUE_LOST if stray or missing_layer_errors or extra
                else K_GLUE_NUM), what
    return 'real:%s:mismatch' % case['name'], what


# --------------------------------------------------------------------------
# case generation
# --------------------------------------------------------------------------

UTF = cw.b2s('tëst ✓ (pkg.Tést.tëst)'.encode('utf-8'))
NAMES = ['test_a (pkg.tests.T.test_a)', 'a name with  blanks', UTF,
         '1 2 3', 'x' * 5000, 'tab\tname', '/path/to/doc.txt', '-', '0']
BAD_UTF = 'caf\xe9 (latin-1 bytes)'
PRE_OK = ['', 'some warning\n', 'Traceback (most recent call last):\n  File\n',
          '\n\n', '1 2\n', '1 2 3 4\n', 'a b c\n', '1 2 x\n', '1.0 2 3\n',
          '\xff\xfe\x00 binary\n', '9' * 5000 + ' 1 1\n', '3 1\r\n']
PRE_HDR = ['0 0 0\n', '  7   0 0  \n', '+1 -0 0\n', '1 2 3\r\n', '5 3 0\n',
           'noise\n0 0 0\nnoise\n', '0\t0\t0\n', '1_0 0 0\n']
PRE_GLUE = ['abc', 'Warning: ', '1', '1 ', 'x\ny']
POST = ['', 'Exception ignored in: <function>\n', '0 0 0\n', '\xff\n',
        'trailing without newline']
STDOUT = ['', 'Running x tests:\n  Ran 1 tests\n', '...\n..\n.\n',
          'no newline at end', '\xff\xfe\n', '.' * 100 + '\r\n', 'a\rb\n']


def base(kind='fake', **kw):
    c = {'kind': kind, 'ran': 3, 'fails': [], 'errs': []}
    c.update(kw)
    return c


def gen_canonical():
    """the smallest telling case of every known defect first (preferred as the
    stored case of its key)"""
    yield base(ran=1, fails=[NAMES[0]], pre='0 0 0\n', canon=1)
    yield base(ran=3, fails=['f1', 'f2'], cut=len('3 2 0\nf1\n'), canon=1)
    yield base(ran=3, fails=['f1', 'f2'], cut=len('3 2 0\nf1\nf'), canon=1)
    yield base(ran=1, fails=[NAMES[0]], popen_raises=errno.ENOENT, canon=1)
    yield base(ran=1, fails=[BAD_UTF], canon=1)
    yield base(ran=1, fails=[NAMES[0]], pre='abc', canon=1)
    yield base(ran=3, pre='1', canon=1)
    yield base(ran=1, fails=['a\rb'], canon=1)
    if _bare_possible():
        yield base('roundtrip', ran=1, bare_fails=['ux (m.T.ux)'], canon=1)


def gen_enumerated(tier):
    for c in gen_canonical():
        yield c
    # A. well-formed reports x noise x collectors
    shapes = [(0, [], []), (1, [], []), (3, [NAMES[0]], []),
              (3, [], [NAMES[0]]), (12, NAMES[:3], NAMES[3:5]),
              (7, [NAMES[3]], [NAMES[3]]), (2, ['', ' '], ['']),
              (10 ** 9, NAMES[5:], NAMES[:2])]
    for ran, f, e in shapes:
        for eol in ('\n', '\r\n'):
            for pre in PRE_OK:
                yield base(ran=ran, fails=f, errs=e, eol=eol, pre=pre)
            for post in POST:
                yield base(ran=ran, fails=f, errs=e, eol=eol, post=post)
        for so in STDOUT:
            for v, col in ((0, 'deferred'), (1, 'deferred'), (2, 'keepalive')):
                yield base(ran=ran, fails=f, errs=e, stdout=so, verbose=v,
                           collector=col)
    # B. header-like / unterminated noise before the report
    for ran, f, e in shapes[:5]:
        for pre in PRE_HDR + PRE_GLUE:
            yield base(ran=ran, fails=f, errs=e, pre=pre)
    # C. truncation at every byte offset
    reports = [(3, [NAMES[0]], []), (5, ['f1', 'f2'], ['e1', 'e2']),
               (10, [], ['e' + str(i) for i in range(10)]),
               (2, [UTF], [UTF]), (120, [], [])]
    for ran, f, e in reports:
        for eol in ('\n', '\r\n'):
            full = cw.make_report(ran, f, e, eol)
            for cut in range(len(full) + 1):
                for pre in ('', 'some warning\n'):
                    yield base(ran=ran, fails=f, errs=e, eol=eol, cut=cut,
                               pre=pre)
    # D. child died / could not be started
    for pre in PRE_OK + PRE_HDR + PRE_GLUE:
        for v in (0, 1, 2):
            yield base(no_report=True, pre=pre, verbose=v, fails=[NAMES[0]])
    yield base(no_report=True, pre='line\n' * 100, verbose=1)
    yield base(no_report=True, pre='line\n' * 100, verbose=2)
    for en in (errno.ENOENT, errno.EAGAIN, errno.ENOMEM, errno.EACCES):
        yield base(popen_raises=en, fails=[NAMES[0]])
    # E. readline interrupted
    for idx in (0, 1, 2):
        yield base(fails=[NAMES[0]], stdout='a\nb\n',
                   readline_errors={str(idx): errno.EINTR})
        yield base(fails=[NAMES[0]], stdout='a\nb\n',
                   readline_errors={str(idx): errno.EIO})
    yield base(fails=[NAMES[0]], stdout='a\nb\n',
               readline_errors={'0': errno.EINTR, '1': errno.EINTR,
                                '3': errno.EINTR})
    # F. undecodable / CR names, volume
    yield base(fails=[BAD_UTF])
    yield base(errs=[BAD_UTF])
    yield base(fails=['ok', BAD_UTF, 'ok2'], errs=['e'])
    yield base(fails=['a\rb'])
    yield base(ran=5000, fails=['f%d (m.C.f%d)' % (i, i) for i in range(3000)],
               errs=['e%d (m.C.e%d)' % (i, i) for i in range(2000)],
               pre='noise line\n' * 3000, stdout='out\n' * 5000)
    yield base(ran=1, pre='x' * (1 << 20) + '\n', stdout='y' * (1 << 20))
    # G. the real child side, round trip
    rt_names = ['test_a (pkg.tests.T.test_a)', 'tëst ✓ \U0001f600',
                'multi\nline\n\nid', 'x' * 20000, '  padded  ', 'tab\tname',
                '0 0 0', '', '/a/b.txt', 'nul\x00byte', 'nel\x85ls vt\x0b']
    for procs in (1, 2):
        yield base('roundtrip', ran=0, processes=procs)
        yield base('roundtrip', ran=10 ** 6, fails=rt_names, errs=[],
                   processes=procs)
        yield base('roundtrip', ran=4, fails=[], errs=rt_names,
                   processes=procs)
        for n in rt_names:
            yield base('roundtrip', ran=2, fails=[n], errs=[n],
                       processes=procs)
            yield base('roundtrip', ran=2, fails=[n], errs=[],
                       pre='warning: x\n', processes=procs)
    if _bare_possible():
        yield base('roundtrip', ran=1, fails=[], errs=[], bare_fails=['ux (m.T.ux)'])
        yield base('roundtrip', ran=3, fails=['f1'], errs=['e1'],
                   bare_fails=['ux (m.T.ux)'])
    yield base('roundtrip', ran=1, fails=['a\rb'], errs=[])
    yield base('roundtrip', ran=1, fails=['a\r\nb'], errs=['c'])
    yield base('roundtrip', ran=1, fails=['one'], errs=[], pre='0 0 0\n')
    yield base('roundtrip', ran=1, fails=['one'], errs=[], pre='abc')
    yield base('roundtrip', ran=3000,
               fails=['f%d' % i for i in range(1500)],
               errs=['e%d' % i for i in range(1500)])


def gen_random(rng):
    while True:
        nf, ne = rng.choice([0, 0, 1, 2, 5]), rng.choice([0, 0, 1, 3])
        pool = NAMES[:4] + NAMES[5:]
        c = base(ran=rng.choice([0, 1, 2, 17, 1000]),
                 fails=[rng.choice(pool) for _ in range(nf)],
                 errs=[rng.choice(pool) for _ in range(ne)],
                 eol=rng.choice(['\n', '\n', '\r\n']),
                 stdout=''.join(rng.choice(STDOUT)
                                for _ in range(rng.randint(0, 3))),
                 verbose=rng.choice([0, 1, 2, 3]),
                 collector=rng.choice(['deferred', 'keepalive']))
        r = rng.random()
        if r < 0.35:
            c['pre'] = ''.join(rng.choice(PRE_OK)
                               for _ in range(rng.randint(0, 4)))
            c['post'] = ''.join(rng.choice(POST[:4])
                                for _ in range(rng.randint(0, 2)))
        elif r < 0.5:
            c['pre'] = rng.choice(PRE_OK) + rng.choice(PRE_HDR + PRE_GLUE)
        elif r < 0.8:
            full = cw.make_report(c['ran'], c['fails'], c['errs'], c['eol'])
            c['cut'] = rng.randint(0, len(full))
            c['pre'] = rng.choice(PRE_OK)
        elif r < 0.9:
            c['no_report'] = True
            c['pre'] = ''.join(rng.choice(PRE_OK)
                               for _ in range(rng.randint(0, 3)))
        else:
            if rng.random() < 0.5:
                c['popen_raises'] = rng.choice([errno.ENOENT, errno.EAGAIN])
            else:
                c['readline_errors'] = {
                    str(rng.randint(0, 3)): errno.EINTR}
        yield c


def signature(case):
    """what makes a case non-trivially distinct"""
    if case['kind'] == 'real':
        return ('real', case['name'])
    return json.dumps({k: v for k, v in case.items()
                       if k not in ('timeout', 'canon')}, sort_keys=True)


def check(case):
    if case['kind'] == 'fake':
        return check_fake(case)
    if case['kind'] == 'roundtrip':
        return check_roundtrip(case)
    return check_real(case)


def _size(case):
    return (0 if case.get('canon') else 1, len(json.dumps(case)))


def run(budget_s, seed, tier):
    t0 = time.time()
    rng = random.Random(seed)
    findings = {}
    seen = set()
    cases = 0
    samples = []

    def record(case, verdict):
        if verdict is None:
            return
        key, summary = verdict
        old = findings.get(key)
        if old is None or _size(case) < _size(old['case']):
            findings[key] = {'key': key, 'summary': summary, 'case': case}

    # real worlds run in the background, overlapped with the fake cases
    reals = [{'kind': 'real', 'name': n, 'world': w, 'args': a}
             for n, w, a in real_worlds(tier)]
    real_deadline = t0 + budget_s * 0.85
    real_results = []
    pool = threading.Thread(
        target=lambda: real_results.extend(cw.run_jobs(
            [lambda c=c: (c, check_real(c)) for c in reals],
            workers=6, deadline=real_deadline)), daemon=True)
    pool.start()

    fake_deadline = t0 + budget_s * (0.8 if tier == 'quick' else 0.9)
    exhaustive = True
    for case in gen_enumerated(tier):
        if time.time() > fake_deadline:
            exhaustive = False
            break
        sig = signature(case)
        if sig in seen:
            continue
        seen.add(sig)
        cases += 1
        if len(samples) < 3 and cases in (5, 700, 1500):
            samples.append(case)
        record(case, check(case))
    n_enum = cases
    for case in gen_random(rng):
        if time.time() > fake_deadline:
            break
        sig = signature(case)
        if sig in seen:
            continue
        seen.add(sig)
        cases += 1
        record(case, check(case))
    pool.join(max(1.0, t0 + budget_s * 1.15 - time.time()))
    if pool.is_alive():
        cw.kill_active()
        pool.join(5)
    n_real = 0
    for item in real_results:
        if not item or isinstance(item, dict):
            continue
        c, verdict = item
        n_real += 1
        cases += 1
        seen.add(signature(c))
        if len(samples) < 5:
            samples.append({'kind': 'real', 'name': c['name'],
                            'args': c['args']})
        if verdict is not None and verdict[0] in findings and \
                findings[verdict[0]]['case'] is not c:
            if '[also end to end' in findings[verdict[0]]['summary']:
                continue
            findings[verdict[0]]['summary'] += (
                ' [also end to end, real -j run of world %r: %s]'
                % (c['name'], verdict[1][:300]))
        else:
            record(c, verdict)
    return {
        'cases': cases, 'distinct': len(seen),
        'rule': 'distinct = different (report, noise, cut offset, stdout, '
                'fault, collector) tuple for fake/roundtrip cases, different '
                'world for real runs; every case executes '
                'spawn_layer_in_subprocess (fake), SubProcess.report + parser '
                '(roundtrip) or a whole -j run (real)',
        'exhaustive': exhaustive,
        'bound': 'enumerated: %d fake/roundtrip cases (8 report shapes x 2 '
                 'line endings x 12 benign / 8 header-like / 5 unterminated '
                 'noise prefixes, 5 suffixes, 7 stdout shapes x 3 collectors; '
                 'every cut offset of 5 reports x 2 line endings x 2 '
                 'prefixes; died / spawn-failure / EINTR / volume cases; 11 '
                 'test-id spellings through the real child side); then '
                 'seeded random combinations until the budget; %d of %d real '
                 '-j runs' % (n_enum, n_real, len(reals)),
        'samples': samples[:5],
        'findings': sorted(findings.values(), key=lambda f: f['key']),
    }


def replay(case):
    verdict = check(case)
    if verdict is None:
        return False, 'property holds on this case'
    return True, '%s: %s' % verdict
