"""Shared bounded scenario (C06): what a child reports is what the parent records -- the same failure / error lists as the
sequential run has.  The real child-side report writer (process.SubProcess.report) and the real parent-side parser
(spawn_layer_in_subprocess) are run back to back on test names that contain every character str.splitlines() treats as a
line boundary besides the newline (the cases of the C12 oracle's transfer phase; '\\r' is left out: a known finding of C07)."""
from native import c12


def cases():
    for case in c12.gen_transfer():
        yield dict(case, extra='childtransfer')


def check_case(case):
    from native import c07
    case = {k: v for k, v in case.items() if k != 'extra'}
    v = c07.check_roundtrip(case)
    return [('transfer:' + v[0], v[1])] if v else []


def run_extra(findings_add):
    n = 0
    for case in cases():
        n += 1
        for key, summary in check_case(case):
            findings_add(key, summary, case)
    return n


def replay(case):
    v = check_case(case)
    if v:
        return True, '; '.join('%s: %s' % x for x in v)
    return False, 'the parent records exactly what the child reported'
