"""C01 - tests run with exactly their layer stack set up; layers nest like a stack.

Bounded oracle on the REAL runner (in-process, see layerworld.py).  The invariant
of the property statement is evaluated on the totally ordered trace of one run:

* whenever a test executes (its setUp / body / tearDown / cleanup), the set of
  layers currently set up == the test's layer plus its transitive bases;
* a layer's setUp hook runs only while that layer is not set up and all of its
  bases are; never after a tearDown raised NotImplementedError;
* a layer's tearDown hook runs only when no layer derived from it is still set
  up, and never a second time for the same set-up;
* at the end of the run no layer is left set up (every set-up got its tear-down
  attempt);
* after a tearDown raised NotImplementedError: no test, no layer setUp, and the
  layers that still had to run were handed to resume_tests (recorded by a stub),
  none of the layers whose tests already ran is handed over again.

"Set up" for a layer WITH a setUp hook starts when the hook returned normally; for
a layer WITHOUT one it starts with the runner's own line "  Set up X in N
seconds." (the only observable there is).  It ends with the call of the tearDown
hook (whatever its outcome) or, for layers without that hook, with the runner's
"  Tear down X " line.  Ordering checks are made on real hook calls only.
"""
import itertools
import json
import random
import time

from . import layerworld as lw

PROPERTY = 'C01'
UNIT = lw.UNIT

CONFIGS = {
    'none': {},
    'ok': {'setUp': 'ok', 'tearDown': 'ok'},
    'su_raise': {'setUp': 'raise', 'tearDown': 'ok'},
    'td_raise': {'setUp': 'ok', 'tearDown': 'raise'},
    'td_nie': {'setUp': 'ok', 'tearDown': 'nie'},
    'su_only': {'setUp': 'ok'},
    'td_only': {'tearDown': 'ok'},
    'td_only_nie': {'tearDown': 'nie'},
}
NAMES = 'ABCDE'
TEST_EVENTS = ('t.setUp', 't.body', 't.tearDown', 't.cleanup')


# --------------------------------------------------------------------------
# the oracle
# --------------------------------------------------------------------------

def check(world):
    """-> list of (key, summary); empty when the trace satisfies C01."""
    ev = lw.events(world)
    spec = world.spec
    viol = []
    up = set()
    torn = set()        # layers torn down since their last set-up
    faults = []         # fault context, in order of first appearance
    nie_idx = None
    mode = []
    if spec.get('child'):
        mode.append('child')
    for a in spec.get('args') or ():
        if a in ('-x', '--repeat', '--shuffle', '-j', '--layer'):
            mode.append(a.lstrip('-'))

    def ctx():
        c = sorted(mode) + sorted('after-' + f for f in faults)
        return ('|' + '+'.join(c)) if c else ''

    def flag(what, detail, i):
        viol.append((what + ctx(),
                     '%s (event #%d %r; set up: %s)' % (
                         detail, i, ev[i], sorted(up))))

    def fault(f):
        if f not in faults:
            faults.append(f)

    for i, e in enumerate(ev):
        kind = e[0]
        if kind == 'out.setup':
            if not world.has_hook(e[1], 'setUp'):
                up.add(e[1])
                torn.discard(e[1])
        elif kind == 'out.teardown':
            if not world.has_hook(e[1], 'tearDown'):
                up.discard(e[1])
                torn.add(e[1])
        elif kind == 'hook' and e[1] == 'setUp':
            name, beh = e[2], e[3]
            if nie_idx is not None:
                flag('layer-setUp:after-NotImplementedError',
                     'setUp of %s ran after a tearDown raised '
                     'NotImplementedError' % name, i)
            if name in up:
                flag('layer-setUp:already-set-up',
                     'setUp of %s ran while it was set up' % name, i)
            missing = sorted(world.stack(name) - {name} - up)
            if missing:
                flag('layer-setUp:base-not-set-up',
                     'setUp of %s ran while its bases %s were not set up'
                     % (name, missing), i)
            torn.discard(name)
            if beh == 'ok':
                up.add(name)
            else:
                fault('setUp-' + beh)
        elif kind == 'hook' and e[1] == 'tearDown':
            name, beh = e[2], e[3]
            still = sorted(world.derived(name) & up)
            if still:
                flag('layer-tearDown:derived-layer-still-set-up',
                     'tearDown of %s ran while derived %s still set up'
                     % (name, still), i)
            if name not in up and name in torn:
                flag('layer-tearDown:attempted-twice',
                     'tearDown of %s attempted again without a new set-up'
                     % name, i)
            up.discard(name)
            torn.add(name)
            if beh == 'nie':
                if nie_idx is None:
                    nie_idx = i
                fault('tearDown-NotImplementedError')
            elif beh != 'ok':
                fault('tearDown-' + beh)
        elif kind in TEST_EVENTS:
            t = world.tests[e[1]]
            want = world.stack(t['layer'])
            if nie_idx is not None:
                flag('test-ran:after-NotImplementedError',
                     'test %s executed after a tearDown raised '
                     'NotImplementedError' % e[1], i)
            if up != want:
                extra, missing = sorted(up - want), sorted(want - up)
                what = ('extra-layer-set-up' if extra else
                        'stack-layer-not-set-up')
                flag('test-ran:' + what,
                     'test %s (layer %s) executed with extra %s / missing %s'
                     % (e[1], t['layer'], extra, missing), i)
        elif kind == 'end':
            if up:
                viol.append(('run-end:layer-left-set-up' + ctx(),
                             'layers %s still set up at the end of the run%s'
                             % (sorted(up), '; runner crashed:\n' + world.crash
                                if world.crash else '')))

    # hand-over of the remaining layers after a NotImplementedError
    if nie_idx is not None and not spec.get('child'):
        owners = {world.full(t['layer']) for t in world.tests.values()}
        owners = lw.selected_by(spec.get('args') or (), owners)
        ran = set()
        headed = []
        last_head = None
        quiet_since_head = True
        for i, e in enumerate(ev[:nie_idx]):
            if e[0] == 'out.running':
                headed.append(world.full(e[1]))
                last_head, quiet_since_head = world.full(e[1]), True
            elif (e[0] in ('out.setup', 'run.enter') or
                  (e[0] == 'hook' and e[1] == 'setUp')):
                quiet_since_head = False
            if e[0] == 'run.enter':
                ran.add(world.full(world.tests[e[1]]['layer']))
        resumed = [e[1] for e in ev[nie_idx:] if e[0] == 'resume']
        handed = set(itertools.chain.from_iterable(resumed))
        if last_head is not None and quiet_since_head:
            # the NotImplementedError came while tearing down layers not
            # needed by `last_head` (nothing of it was set up or run yet): the
            # run loop cannot go on here, `last_head` and all layers not yet
            # started remain.  (Otherwise the error came in the final tear-down
            # after the loop had ended - nothing remains to be run.)
            remaining = ((owners - set(headed)) | {last_head}) & owners
            if remaining - handed:
                viol.append(('NotImplementedError:remaining-layer-not-resumed'
                             + ctx(),
                             'layers %s neither ran here nor were handed to '
                             'resume_tests (handed: %s)'
                             % (sorted(remaining - handed), resumed)))
        if handed & ran:
            viol.append(('NotImplementedError:layer-resumed-although-it-ran'
                         + ctx(),
                         'layers %s ran here and were handed to resume_tests'
                         % sorted(handed & ran)))
    return viol


def collapse(findings):
    """one defect, one key: a key is ``what|context`` (context = options in use
    and layer faults seen before the violation).  Of all variants of the same
    ``what`` only those with a minimal context (as a set) are reported."""
    by_what = {}
    for f in findings:
        what, _, c = f['key'].partition('|')
        by_what.setdefault(what, []).append(
            (frozenset(c.split('+')) if c else frozenset(), f))
    out = []
    for what, items in sorted(by_what.items()):
        for c, f in items:
            if not any(c2 < c for c2, _ in items):
                out.append(f)
    return out


def nontrivial(world):
    return any(e[0] == 'hook' or e[0] in TEST_EVENTS for e in world.trace)


# --------------------------------------------------------------------------
# case generation
# --------------------------------------------------------------------------

def make_spec(graph, kinds, configs, owners, unit, args=(), child=None,
              fail=False, names=None):
    names = names or NAMES[:len(graph)]
    layers = lw.layer_specs(graph, names, kinds,
                            [CONFIGS[c] for c in configs])
    groups = []
    for j, o in enumerate(owners):
        groups.append({'layer': names[o],
                       'via': 'suite' if j % 2 else 'class',
                       'tests': ['pass', 'fail'] if fail else ['pass']})
    if unit:
        groups.insert(len(groups) // 2, {'layer': None, 'tests': ['pass']})
    spec = {'layers': layers, 'groups': groups, 'args': list(args)}
    if child:
        spec['child'] = child
    return spec


def _subsets(n):
    for k in range(1, n + 1):
        yield from itertools.combinations(range(n), k)


def _kind_choices(graph):
    out = []
    if lw.class_buildable(graph):
        out.append(['class'] * len(graph))
    out.append(['instance'] * len(graph))
    return out


def stage_small(cfgs_by_n):
    """all DAGs with n layers x {all-class, all-instance} x config^n x
    non-empty owner subsets x unit tests {no, yes}"""
    for n, (cfgs, units) in sorted(cfgs_by_n.items()):
        for graph in lw.all_dags(n):
            for kinds in _kind_choices(graph):
                for configs in itertools.product(cfgs, repeat=n):
                    for owners in _subsets(n):
                        for unit in units:
                            yield make_spec(graph, kinds, configs, owners,
                                            unit)


OPTION_SETS = (
    ('x', ['-x'], True),
    ('repeat', ['--repeat', '2'], False),
    ('shuffle', ['--shuffle', '--shuffle-seed', '7'], False),
    ('j2', ['-j', '2'], False),
    ('layer', None, False),
    ('child', None, False),
)


def stage_options():
    """all DAGs n<=2 x kinds x {ok, su_raise, td_nie}^n x owner subsets, once
    per option set (-x, --repeat 2, --shuffle, -j 2, --layer X, child mode)"""
    for n in (1, 2):
        for graph in lw.all_dags(n):
            for kinds in _kind_choices(graph):
                for configs in itertools.product(
                        ('ok', 'su_raise', 'td_nie'), repeat=n):
                    for owners in _subsets(n):
                        for oname, args, fail in OPTION_SETS:
                            child = None
                            if oname == 'layer':
                                args = ['--layer',
                                        r'^lw\.%s$' % NAMES[owners[-1]]]
                            elif oname == 'child':
                                args = []
                                child = 'lw.' + NAMES[owners[-1]]
                            yield make_spec(graph, kinds, configs, owners,
                                            True, args=args, child=child,
                                            fail=fail)


def random_spec(rng):
    n = rng.choice((3, 3, 4, 4, 5))
    graph = lw.random_dag(rng, n)
    mode = rng.random()
    if mode < 0.4 and lw.class_buildable(graph):
        kinds = ['class'] * n
    elif mode < 0.7:
        kinds = ['instance'] * n
    else:
        kinds = []
        for i in range(n):
            must_inst = any(kinds[b] == 'instance' for b in graph[i])
            kinds.append('instance' if must_inst or rng.random() < 0.4
                         else 'class')
        if not _mixed_buildable(graph, kinds):
            kinds = ['instance'] * n
    pfault = rng.choice((0.15, 0.3, 0.6))
    configs = []
    for i in range(n):
        if rng.random() < pfault:
            configs.append(rng.choice(('su_raise', 'td_raise', 'td_nie',
                                       'td_only_nie')))
        else:
            configs.append(rng.choice(('ok', 'ok', 'none', 'su_only',
                                       'td_only')))
    owners = [i for i in range(n) if rng.random() < 0.6] or [n - 1]
    rng.shuffle(owners)
    names = list(NAMES[:n])
    rng.shuffle(names)
    args, child, fail = [], None, False
    r = rng.random()
    if r < 0.10:
        args, fail = ['-x'], True
    elif r < 0.18:
        args = ['--repeat', '2']
    elif r < 0.24:
        args = ['--shuffle', '--shuffle-seed', str(rng.randrange(100))]
    elif r < 0.30:
        args = ['--layer', r'^lw\.%s$' % names[rng.choice(owners)]]
    elif r < 0.36:
        child = 'lw.' + names[rng.choice(owners)]
    elif r < 0.39:
        args = ['-j', '2']
    return make_spec(graph, kinds, configs, owners, rng.random() < 0.5,
                     args=args, child=child, fail=fail, names=names)


def _mixed_buildable(graph, kinds):
    built = []
    try:
        for i, bases in enumerate(graph):
            if kinds[i] == 'class':
                built.append(type('X', tuple(built[b] for b in bases), {}))
            else:
                built.append(None)
    except TypeError:
        return False
    return True


# --------------------------------------------------------------------------
# interface
# --------------------------------------------------------------------------

def run_case(spec):
    world = lw.run_world(spec)
    return world, check(world)


def run(budget_s, seed, tier='quick'):
    t0 = time.time()
    hard = t0 + budget_s * 0.92
    rng = random.Random(seed)
    findings = lw.Findings()
    cases = 0
    distinct = set()
    samples = []
    crashes = 0
    if tier == 'quick':
        small = {1: (tuple(CONFIGS), (False, True)),
                 2: (tuple(CONFIGS), (False, True)),
                 3: (('ok', 'none', 'su_raise', 'td_nie'), (True,))}
        bound = ('exhaustive part: all DAGs (ordered bases) with <=2 layers x '
                 '{class, instance} x 8 hook configs per layer x every '
                 'non-empty set of test-owning layers x unit tests yes/no; all '
                 '10 DAGs with 3 layers x {class, instance} x {both hooks ok, '
                 'no hooks, setUp raises, tearDown raises '
                 'NotImplementedError}^3 x every owner set (+ unit tests); DAGs <=2 layers x 6 option sets (-x, --repeat 2, '
                 '--shuffle, -j 2, --layer, resumed-child mode). ')
    else:
        small = {1: (tuple(CONFIGS), (False, True)),
                 2: (tuple(CONFIGS), (False, True)),
                 3: (('ok', 'none', 'su_raise', 'td_raise', 'td_nie'),
                     (False, True))}
        bound = ('exhaustive part: as quick tier, but 3-layer DAGs with 5 '
                 'hook configs per layer and unit tests yes/no. ')
    stages = [('dags<=2', stage_small({n: small[n] for n in (1, 2)})),
              ('options', stage_options()),
              ('dags3', stage_small({3: small[3]}))]
    exhaustive = True
    done = {}

    def one(spec, stage):
        nonlocal cases, crashes
        world, viol = run_case(spec)
        cases += 1
        if world.crash:
            crashes += 1
        if nontrivial(world):
            distinct.add(json.dumps(spec, sort_keys=True))
        for key, summary in viol:
            findings.add(key, summary, spec)
        return world

    for sname, gen in stages:
        k = 0
        for spec in gen:
            if time.time() > hard:
                exhaustive = False
                break
            one(spec, sname)
            k += 1
            if len(samples) < 3 and k == 40:
                samples.append(spec)
        done[sname] = k
    k = 0
    reserve = t0 + budget_s * 0.97
    while time.time() < reserve and (tier != 'quick' or k < 200000):
        spec = random_spec(rng)
        try:
            one(spec, 'random')
        except TypeError:
            continue            # inconsistent MRO: not a buildable world
        k += 1
        if len(samples) < 5 and k in (1, 50, 500):
            samples.append(spec)
    done['random'] = k
    return {
        'cases': cases,
        'distinct': len(distinct),
        'rule': 'distinct world descriptions (graph, kinds, hooks, test '
                'owners, options) whose run invoked at least one layer hook '
                'or executed at least one test in-process',
        'exhaustive': exhaustive,
        'bound': bound + 'Then seeded random worlds with 3-5 layers (mixed '
                 'class/instance, shuffled names, 1-4 faults, random options) '
                 'until the budget is used; runs per stage: %s' % done,
        'samples': samples[:5],
        'findings': collapse(findings.as_list()),
        'notes': 'runner crashes (exception out of Runner.run): %d' % crashes,
    }


def replay(case):
    world, viol = run_case(case)
    if viol:
        return True, '; '.join('%s: %s' % v for v in viol)
    return False, 'no C01 violation on this world'
