"""Shared bounded scenario (C02, C12): a layer tearDown failure is counted whatever happens later in the same tear-down pass.

Worlds on a chain of layers (layerworld, real Runner in process, subprocess hand-over stubbed): a derived layer's tearDown
raises an ordinary exception and, in the SAME tear-down pass, a base's tearDown raises NotImplementedError (so the pass ends
with CanNotTearDown and the remaining layers are handed over) -- plus the variants with only one of the two faults and with
the faulty layers run last (the optional, final pass).  Expected: the run is failed and every raising tearDown is in the
error total (the "Total:" / summary lines are the runner's own counters: len(runner.errors)).
"""
from native import layerworld as lw


def _spec(td_sub, td_base, last):
    layers = lw.layer_specs([[], [0], []], 'ABC', ['class'] * 3,
                            [{'tearDown': td_base} if td_base else {}, {'tearDown': td_sub} if td_sub else {}, {}])
    order = [('B', ['pass']), ('C', ['pass'])]
    groups = [{'layer': n, 'via': 'class', 'tests': t, 'cls': 'T%d' % i} for i, (n, t) in enumerate(order)]
    if last:
        # names sort B < C: to run the faulty pair last, give the healthy layer the name that sorts first
        layers = lw.layer_specs([[], [], [1]], 'ABC', ['class'] * 3,
                                [{}, {'tearDown': td_base} if td_base else {}, {'tearDown': td_sub} if td_sub else {}])
        groups = [{'layer': 'A', 'via': 'class', 'tests': ['pass'], 'cls': 'T0'},
                  {'layer': 'C', 'via': 'class', 'tests': ['pass'], 'cls': 'T1'}]
    return {'layers': layers, 'groups': groups, 'args': []}


def _shared_base_spec(k):
    """a base layer whose setUp raises, with k layers built on it, each owning tests: k failed layers, k errors"""
    graph = [[]] + [[0]] * k
    names = 'ABCDE'[:k + 1]
    layers = lw.layer_specs(graph, names, ['class'] * (k + 1), [{'setUp': 'raise'}] + [{}] * k)
    groups = [{'layer': names[i + 1], 'via': 'class', 'tests': ['pass'], 'cls': 'T%d' % i} for i in range(k)]
    return {'layers': layers, 'groups': groups, 'args': []}


def check_case(case):
    if case.get('shared_base'):
        return _check_shared(case)
    spec = _spec(case.get('sub'), case.get('base'), case.get('last'))
    holder = {}

    def grab(w):
        holder['w'] = w
    import zope.testrunner.runner as R
    orig = R.Runner.run

    def run(self):
        holder['runner'] = self
        return orig(self)
    R.Runner.run = run
    try:
        w = lw.run_world(spec, before_run=grab)
    finally:
        R.Runner.run = orig
    if w.crash:
        return [('teardown-failure:run-raises', 'the run raised: %s' % w.crash.strip().splitlines()[-1])]
    runner = holder['runner']
    want = sum(1 for b in (case.get('sub'), case.get('base')) if b == 'raise')
    got = len(runner.errors)
    v = []
    if got < want:
        v.append(('teardown-failure:not-counted:%s' % ('final-pass' if case.get('last') else 'pass-ending-in-CanNotTearDown'
                                                        if case.get('base') == 'nie' else 'plain'),
                  'layer tearDown behaviours sub=%r base=%r (faulty layers %s): %d tearDown exception(s) were raised and '
                  'printed, the runner counts %d error(s)' % (case.get('sub'), case.get('base'),
                                                              'last' if case.get('last') else 'first', want, got)))
    if want and not getattr(w, 'failed', True):
        v.append(('teardown-failure:verdict-not-failed', 'a layer tearDown raised but the run is not failed (sub=%r base=%r)'
                  % (case.get('sub'), case.get('base'))))
    return v


def _run(spec):
    holder = {}
    import zope.testrunner.runner as R
    orig = R.Runner.run

    def run(self):
        holder['runner'] = self
        return orig(self)
    R.Runner.run = run
    try:
        w = lw.run_world(spec)
    finally:
        R.Runner.run = orig
    return w, holder.get('runner')


def _check_shared(case):
    k = case['shared_base']
    w, runner = _run(_shared_base_spec(k))
    if w.crash:
        return [('setup-failure:run-raises', 'the run raised: %s' % w.crash.strip().splitlines()[-1])]
    got = len(runner.errors)
    if got != k:
        return [('setup-failure:failed-layer-not-counted',
                 '%d layers are built on a base layer whose setUp raises: none of their tests can run, each is a failed layer; '
                 'the runner counts %d error(s)' % (k, got))]
    return []


def cases():
    for k in (2, 3):
        yield {'extra': 'teardownlost', 'shared_base': k}
    for last in (False, True):
        for sub in ('raise', None):
            for base in ('nie', 'raise', None):
                if sub or base:
                    yield {'extra': 'teardownlost', 'sub': sub, 'base': base, 'last': last}


def run_extra(findings_add):
    n = 0
    for case in cases():
        n += 1
        for key, summary in check_case(case):
            findings_add(key, summary, case)
    return n


def replay(case):
    v = check_case(case)
    if v:
        return True, '; '.join('%s: %s' % x for x in v)
    return False, 'every raising tearDown is counted'
