"""C13 - buffered output is attributed correctly; std streams are always restored.

Every generated test writes unique tokens (<<Tnn:k>>) to sys.stdout / sys.stderr
in chosen phases (setUp / body / tearDown / cleanup) and styles (with / without
trailing newline, print(), several lines, bytes through .buffer).  The harness
replaces sys.stdout / sys.stderr by two Capture objects (the "original streams",
which - like a real terminal stream - have no getvalue()) that log every write in
temporal order together with out-of-band marks for 'test Tnn begins / ended'.

With --buffer:
  (a) tokens of a test without failure/error (pass, skip, expected failure) occur
      nowhere in the runner's output;
  (b) every token of a failing / erroring test occurs at least once, and every
      occurrence lies inside that test's own time window; what was written before
      the test's first result event (and hence was captured) must moreover come
      after that test's own "Failure in test <it>" / "Error in test <it>" header
      (= shown completely, attributed to that test and to no other);
  (c) at every 'between tests' point (just before / after each TestCase.run, in
      layer testSetUp / testTearDown) and after Runner.run() returned or raised,
      sys.stdout / sys.stderr are the original objects.
Without --buffer: at all those points and inside every test phase the streams are
the original objects.
An escaping exception is classified (F1: second result event; F7: KeyboardInterrupt).
The TypeError of the -v report after an unexpected success (see C12) is tolerated
here: it happens after all tests ran and the streams can still be judged.
"""
import itertools
import random

from native import testworld as tw
from native import c04 as _c04

PROPERTY = 'C13'

F1_KEY = 'buffer:second-result-event:AttributeError-aborts-run'
F7_KEY = 'buffer:KeyboardInterrupt:streams-not-restored'

KINDS13 = ['pass', 'fail', 'error', 'sysexit', 'skip_body', 'skip_setup', 'xfail', 'usuccess',
           'sub1', 'sub_skip', 'err_td', 'err_cleanup', 'err_setup', 'fail_setup',
           'err_err_td', 'sub2', 'skip_err_td']
REDUCED = ['pass', 'fail', 'error', 'skip_body', 'xfail', 'usuccess', 'err_td', 'skip_deco']
PHASES = ['setUp', 'body', 'tearDown', 'cleanup']
STYLES = ['nl', 'nonl', 'print', 'multi', 'bytes']
FULL_OUT = [['setUp', 'out', 'nonl'], ['body', 'out', 'nl'], ['body', 'err', 'nonl'],
            ['tearDown', 'err', 'nl'], ['cleanup', 'out', 'nonl']]
EARLY_OUT = [['setUp', 'out', 'nonl'], ['body', 'out', 'nl'], ['body', 'err', 'nonl']]


def phase_runs(t, phase):
    """does this phase of the test execute at all?"""
    k = tw.kind_of(t)
    if k['deco'] == 'skip':
        return False
    if phase == 'setUp':
        return True
    if phase in ('body', 'tearDown'):
        return k['setup'] == 'ok'
    return True     # cleanup registered first thing in setUp


def first_event_phase(t):
    """phase in which the first result event of the test is delivered
    (events are delivered immediately in 3.12, success-like ones at the very end)"""
    k = tw.kind_of(t)
    if k['setup'] != 'ok':
        return 'setUp'
    if k['deco'] == 'xfail':
        if k['teardown'] != 'ok':
            return 'tearDown'
        return 'cleanup' if k['cleanup'] != 'ok' else 'end'
    if any(s != 'ok' for s in k['subs']) or k['body'] != 'ok':
        return 'body'
    if k['teardown'] != 'ok':
        return 'tearDown'
    if k['cleanup'] != 'ok':
        return 'cleanup'
    return 'end'


def rel(t, phase):
    order = ['setUp', 'body', 'tearDown', 'cleanup', 'end']
    fe = first_event_phase(t)
    return 'before-first-event' if order.index(phase) <= order.index(fe) else 'after-first-event'


def outcome_class(t):
    cats = [c for c, _ in tw.model_events(t)]
    if any(c in tw.BAD for c in cats):
        return 'bad'
    if 'skip' in cats:
        return 'skipped'
    if 'xfail' in cats:
        return 'expected-failure'
    return 'passing'


def check_obs(case, obs):
    spec = case['spec']
    args = list(spec.get('args', ()))
    buffered = '--buffer' in args
    res = []
    tests = spec['tests']
    desc = '%s args=%s' % ([(t['k'], t.get('out')) for t in tests], args)
    has_kb = any(t['k'] == 'kbint' for t in tests)
    aborted = False
    if obs.exc is not None:
        e = obs.exc
        multi = [t['k'] for t in tests if _c04.restore_events(t) >= 2]
        badbytes = any(o[2] == 'badbytes' for t in tests for o in t.get('out', ()))
        if isinstance(e, KeyboardInterrupt) and has_kb:
            pass        # the interrupt is supposed to propagate; streams judged below
        elif (isinstance(e, AttributeError) and 'getvalue' in str(e) and buffered and multi
              and '_restoreStdStreams' in obs.exc_tb):
            res.append((F1_KEY,
                        'with --buffer the second result event of one test (%s) calls '
                        '_restoreStdStreams when sys.stdout already is the original stream: '
                        'AttributeError (getvalue) aborts the run; the report of the second '
                        'event and all later tests are lost' % multi[0]))
            aborted = True
        elif isinstance(e, UnicodeDecodeError) and buffered and badbytes:
            res.append(('buffer:undecodable-bytes:UnicodeDecodeError-aborts-run',
                        'a test writes bytes that are not valid in the stream encoding to '
                        'sys.stdout.buffer; with --buffer getvalue() decodes strictly in '
                        '_restoreStdStreams: %s escapes Runner.run()' % type(e).__name__))
            aborted = True
        elif isinstance(e, TypeError) and 'tests_with_failures' in obs.exc_tb:
            pass        # C12 finding (unexpected success + -v), after all tests
        else:
            r = _c04.check_obs(spec, obs)
            res.extend(r[:1])
            aborted = True
    # ---- (c) identity of the streams ------------------------------------
    kinds = {('T%02d' % i): t['k'] for i, t in enumerate(tests)}
    last_tid = None
    for e in obs.trace:
        if e[0] == 'run':
            last_tid = e[1]
        if e[0] != 'streams':
            continue
        _, where, tid, out_ok, err_ok, tn_out, tn_err = e
        if out_ok and err_ok:
            continue
        inside = where.startswith('in:')
        if buffered and inside:
            continue
        k = kinds.get(tid or last_tid, '?')
        if buffered and k == 'kbint' and where in ('post',) or (
                buffered and has_kb and where.startswith('layer_testTearDown')
                and kinds.get(last_tid) == 'kbint'):
            continue        # judged once, after the run (F7)
        if buffered and aborted:
            continue
        which = 'stdout' if not out_ok else 'stderr'
        res.append((('buffer:streams-replaced:%s:after-%s' % (where.split(':')[0], k))
                    if buffered else ('nobuffer:streams-replaced:%s' % where.split(':')[0]),
                    'at point %r (test %s, kind %s) sys.%s is a %s, not the original object; '
                    'world %s' % (where, tid or last_tid, k, which,
                                  tn_out if not out_ok else tn_err, desc)))
        break
    if not (obs.after_out_is_orig and obs.after_err_is_orig):
        if buffered and has_kb and isinstance(obs.exc, KeyboardInterrupt):
            res.append((F7_KEY,
                        'KeyboardInterrupt raised inside a test under --buffer propagates out '
                        'of Runner.run() (no add* event, hence no restore): afterwards '
                        'sys.stdout/sys.stderr are %s/%s instead of the original streams'
                        % obs.after_types))
        elif not (buffered and aborted):
            res.append(('%s:streams-replaced:after-run' % ('buffer' if buffered else 'nobuffer'),
                        'after Runner.run() sys.stdout/sys.stderr are %s/%s; world %s'
                        % (obs.after_types + (desc,))))
    if not buffered or aborted:
        return res
    # ---- (a)/(b) tokens ---------------------------------------------------
    # text with offsets, and the time window(s) of every test
    text = []
    pos = 0
    windows = {}
    open_at = {}
    for tag, payload in obs.sink:
        if tag == 'mark':
            if payload[0] == 'run':
                open_at[payload[1]] = pos
            elif payload[0] == 'ran':
                windows.setdefault(payload[1], []).append((open_at.pop(payload[1], pos), pos))
            continue
        text.append(payload)
        pos += len(payload)
    text = ''.join(text)
    for tid, start in open_at.items():      # run that never returned (interrupt)
        windows.setdefault(tid, []).append((start, len(text)))
    emitted = {}
    for e in obs.trace:
        if e[0] == 'emit':
            emitted.setdefault(e[1], set()).add(e[2])
    for i, t in enumerate(tests):
        tid = 'T%02d' % i
        if t['k'] == 'kbint':
            continue
        cls = outcome_class(t)
        name = 'test_x (%s.%s.test_x)' % (obs.modname, tid)
        for n, (phase, stream, style) in enumerate(t.get('out', ())):
            if n not in emitted.get(tid, ()) or style == 'empty':
                continue
            tok = '<<%s:%d>>' % (tid, n)
            occ = []
            at = text.find(tok)
            while at >= 0:
                occ.append(at)
                at = text.find(tok, at + 1)
            if cls != 'bad':
                if occ:
                    res.append(('buffer:%s-test:output-%s:shown' % (cls, rel(t, phase)),
                                'a %s test (%s) wrote %r to sys.std%s in %s (%s) and it appears '
                                'in the runner output; world %s'
                                % (cls, t['k'], tok, stream, phase, rel(t, phase), desc)))
                continue
            if not occ:
                cats = [c for c, _ in tw.model_events(t)]
                if cats and cats[0] == 'skip' and rel(t, phase) == 'before-first-event':
                    res.append(('buffer:erroring-test-output-lost:discarded-by-earlier-skip-event',
                                'test %s (%s) first records a skip (which drains and discards '
                                'the buffers) and later a failure/error: what it wrote before '
                                'the skip (%r, std%s, %s) is shown nowhere although the test '
                                'ends up failing/erroring; world %s'
                                % (tid, t['k'], tok, stream, phase, desc)))
                else:
                    res.append(('buffer:bad-test-output-lost:%s:std%s' % (rel(t, phase), stream),
                                'failing/erroring test %s (%s) wrote %r (%s, std%s, %s) but it '
                                'is nowhere in the output; world %s'
                                % (tid, t['k'], tok, style, stream, phase, desc)))
                continue
            if style == 'ctrl' and rel(t, phase) == 'before-first-event' and tw.ctrl_payload(tok) not in text:
                res.append(('buffer:bad-test-output-altered:line-boundary-characters',
                            'failing/erroring test %s (%s) wrote %r (std%s, %s); the report shows the token but not the '
                            'text as written (\\r, \\f, \\x1d, \\x85, U+2028 are not line ends); world %s'
                            % (tid, t['k'], tw.ctrl_payload(tok), stream, phase, desc)))
            for at in occ:
                win = [w for w in windows.get(tid, ()) if w[0] <= at <= w[1]]
                if not win:
                    res.append(('buffer:bad-test-output-misplaced:outside-own-window:%s'
                                % rel(t, phase),
                                '%r of %s (%s) is shown outside the time window of its test; '
                                'world %s' % (tok, tid, t['k'], desc)))
                    break
                seg = text[win[0][0]:at]
                # what was captured before the first event is echoed in the report of
                # that event, i.e. after its header; later (direct) writes only have to
                # stay inside the window of their test
                if rel(t, phase) != 'before-first-event':
                    continue
                if ('Failure in test ' + name) not in seg and ('Error in test ' + name) not in seg:
                    res.append(('buffer:bad-test-output-misplaced:before-own-header:%s'
                                % rel(t, phase),
                                '%r of %s (%s) is shown before any "Failure/Error in test %s" '
                                'header; world %s' % (tok, tid, t['k'], name, desc)))
                    break
    return res


def check(case):
    obs = tw.execute(case['spec'])
    res = check_obs(case, obs)
    if any(t.get('own_stdout') or t.get('own_stderr') for t in case['spec']['tests']):
        # a test that swaps sys.stdout takes the runner's own report with it (the formatter prints to whatever sys.stdout
        # is): attribution is the test's doing there; what the property still demands is that the streams are restored
        res = [r for r in res if 'streams-replaced' in r[0] or 'aborts-run' in r[0]]
    return res


# --------------------------------------------------------------------------

NOISE_BEFORE = {'k': 'pass', 'out': [['body', 'out', 'nonl'], ['tearDown', 'err', 'nonl']]}
NOISE_AFTER = {'k': 'pass', 'out': [['setUp', 'out', 'nl'], ['body', 'err', 'nonl']]}


def gen_minimal():
    """a single test of every kind writing in every phase (smallest witnesses)"""
    for k in KINDS13 + ['skip_deco', 'sub_skip2', 'kbint']:
        for out in (FULL_OUT, [['tearDown', 'out', 'nl']], [['body', 'out', 'nl']]):
            yield {'spec': {'tests': [{'k': k, 'out': out}], 'args': ['--buffer']}}


def gen_single_writes():
    """one write (phase x stream x style) in a test of every kind, between two noisy passing
    tests, with --buffer"""
    for k in KINDS13:
        for phase in PHASES:
            for stream in ('out', 'err'):
                for style in STYLES:
                    t = {'k': k, 'out': [[phase, stream, style]]}
                    if not phase_runs(t, phase):
                        continue
                    yield {'spec': {'tests': [dict(NOISE_BEFORE), t, dict(NOISE_AFTER)],
                                    'args': ['-vv', '--buffer']}}


def gen_ctrl():
    """captured text with characters that are line boundaries for str.splitlines() only: echoed as written"""
    for k in ('fail', 'error', 'sub1'):
        for stream in ('out', 'err'):
            for args in (['--buffer'], ['-vv', '--buffer']):
                t = {'k': k, 'out': [['body', stream, 'ctrl']]}
                yield {'spec': {'tests': [dict(NOISE_BEFORE), t, dict(NOISE_AFTER)], 'args': args}}


def gen_own_stdout():
    """a test that replaces sys.stdout by a stream of its own (saving the one it found) and puts the saved one back in a
    cleanup, i.e. after its result events: between tests the streams must be the originals all the same"""
    for k in ('fail', 'error', 'pass', 'err_td', 'sub1', 'skip_body', 'usuccess'):
        for args in (['--buffer'], ['-vv', '--buffer'], []):
            t = {'k': k, 'own_stdout': True, 'out': [['body', 'err', 'nl']]}
            yield {'spec': {'tests': [dict(NOISE_BEFORE), t, dict(NOISE_AFTER)], 'args': args}}
            yield {'spec': {'tests': [dict(NOISE_BEFORE), t], 'args': args}}
            yield {'spec': {'tests': [t, {'k': 'fail', 'out': [['body', 'out', 'nl']]}], 'args': args}}
            # ... and a test that does so with sys.stderr only
            t2 = {'k': k, 'own_stderr': True, 'out': [['body', 'out', 'nl']]}
            yield {'spec': {'tests': [dict(NOISE_BEFORE), t2, dict(NOISE_AFTER)], 'args': args}}
            yield {'spec': {'tests': [dict(NOISE_BEFORE), t2], 'args': args}}


def gen_nobuffer():
    for k in KINDS13 + ['skip_deco', 'kbint']:
        for v in ([], ['-vv']):
            t = {'k': k, 'out': [['setUp', 'out', 'nl'], ['body', 'err', 'bytes'],
                                 ['tearDown', 'out', 'nonl']], 'probe_streams': True}
            for layer in (None, 'LA'):
                tests = [dict(NOISE_BEFORE, probe_streams=True), t,
                         dict(NOISE_AFTER, probe_streams=True)]
                spec = {'tests': tests, 'args': v}
                if layer:
                    spec['layers'] = [{'name': 'LA'}]
                    spec['tests'] = [dict(x, layer='LA') for x in tests]
                yield {'spec': spec}


def gen_interrupt():
    for pos in range(3):
        for buf in (['--buffer'], []):
            for v in ([], ['-vv']):
                for layer in (None, 'LA'):
                    tests = [dict(NOISE_BEFORE), dict(NOISE_AFTER), dict(NOISE_BEFORE)]
                    tests[pos] = {'k': 'kbint', 'out': [['body', 'out', 'nl']]}
                    spec = {'tests': tests, 'args': v + buf}
                    if layer:
                        spec['layers'] = [{'name': 'LA'}]
                        spec['tests'] = [dict(x, layer='LA') for x in tests]
                    yield {'spec': spec}


def gen_triples():
    """all sequences of 3 kinds; every test writes (before its outcome) to both streams;
    run inside a layer so that testSetUp/testTearDown observe the streams"""
    for ks in itertools.product(REDUCED, repeat=3):
        tests = [{'k': k, 'out': EARLY_OUT, 'layer': 'LA'} for k in ks]
        yield {'spec': {'layers': [{'name': 'LA'}], 'tests': tests, 'args': ['--buffer']}}


def gen_pairs_full():
    for ks in itertools.product(KINDS13 + ['skip_deco'], repeat=2):
        tests = [{'k': k, 'out': FULL_OUT} for k in ks]
        yield {'spec': {'tests': tests, 'args': ['-v', '--buffer']}}


def gen_badbytes():
    for k in ('pass', 'fail'):
        for stream in ('out', 'err'):
            for buf in (['--buffer'], []):
                yield {'spec': {'tests': [{'k': k, 'out': [['body', stream, 'badbytes']]},
                                          {'k': 'pass'}], 'args': buf}}


def gen_random(seed):
    rng = random.Random(seed)
    single = [k for k in tw.KINDS if k != 'kbint' and _c04.restore_events({'k': k}) < 2]
    every = [k for k in tw.KINDS if k != 'kbint']
    while True:
        alpha = single if rng.random() < 0.8 else every
        spec = _c04.random_spec(rng, alpha, max_tests=6, layer_fault_p=0.1)
        for t in spec['tests']:
            outs = []
            for _ in range(rng.choice([0, 1, 1, 2, 3])):
                outs.append([rng.choice(PHASES), rng.choice(['out', 'err']),
                             rng.choice(STYLES + ['empty'])])
            if outs:
                t['out'] = outs
            if '--buffer' not in spec['args']:
                t['probe_streams'] = True
        if rng.random() < 0.7 and '--buffer' not in spec['args']:
            spec['args'].append('--buffer')
            for t in spec['tests']:
                t.pop('probe_streams', None)
        yield {'spec': spec}


def nontrivial(case):
    return any(t.get('out') for t in case['spec']['tests'])


def run(budget_s, seed, tier):
    phases = [
        ('every kind alone, --buffer', True, gen_minimal()),
        ('captured text with \\r \\f \\x1d \\x85 U+2028 (line boundaries for splitlines only): 3 kinds x 2 streams x 2 verbosities',
         True, gen_ctrl()),
        ('one write: %d kinds x 4 phases x 2 streams x %d styles, --buffer'
         % (len(KINDS13), len(STYLES)), True, gen_single_writes()),
        ('a test that replaces sys.stdout itself and restores what it found in a cleanup: 7 kinds x 3 option sets x 3 positions',
         True, gen_own_stdout()),
        ('KeyboardInterrupt at 3 positions x buffer x -v x layer', True, gen_interrupt()),
        ('no --buffer: every kind x -v x layer, streams probed inside every phase', True,
         gen_nobuffer()),
        ('undecodable bytes', True, gen_badbytes()),
        ('all triples over %d kinds in a layer, --buffer' % len(REDUCED), True, gen_triples()),
        ('all pairs over %d kinds, writes in every phase, --buffer' % (len(KINDS13) + 1), True,
         gen_pairs_full()),
        ('random', False, gen_random(seed)),
    ]
    return tw.explore(
        PROPERTY, phases, check, budget_s, nontrivial=nontrivial,
        rule='a case is non-trivial when at least one test writes to a std stream',
        bound='exhaustive: a single write (4 phases x stdout/stderr x 5 styles) in a test of each '
              'of %d kinds between two writing passing tests; all 3-sequences over %d kinds and '
              'all 2-sequences over %d kinds with writes in several phases; KeyboardInterrupt at '
              'every position of 3; every kind without --buffer; then seeded random worlds'
              % (len(KINDS13), len(REDUCED), len(KINDS13) + 1))


def replay(case):
    res = check(case)
    if res:
        return True, '; '.join('%s: %s' % r for r in res)[:2000]
    return False, 'no violation observed'
