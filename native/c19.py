"""C19 - threads left behind by a test are reported precisely.

Worlds: every test may (1) release threads leaked by earlier tests and wait until
they are really gone, then (2) start threads through threading.Thread or
_thread.start_new_thread; a started thread either stays blocked on an Event
(leaked; released by a later test or by the harness at the end of the case) or is
finished and joined before the test body ends.  Threads are daemonic; names are
chosen to match / not match the --ignore-new-thread patterns (regex *match*, i.e.
anchored at the start of the name) or left to the default.

Ground truth (the world's own trace): for every test, the set of threads it
started that are still running when its TestCase.run() returns.  The oracle parses
the "The following test left new threads behind:" blocks, identifies the reported
threads by their ident (unique among the threads alive at that moment) and
requires for every test:   reported  ==  started-in-this-test & still-running &
name-matches-no-pattern.
Threads started through _thread have no name of their own; when a pattern could
match the runner's synthetic "Dummy-<ident>" name, either answer is accepted.
"""
import itertools
import random
import re

from native import testworld as tw
from native import c04 as _c04

PROPERTY = 'C19'

HEADER = 'The following test left new threads behind:'
IDENT_RES = [re.compile(r'started (?:daemon )?(\d+)\)>'), re.compile(r'DummyThread (\d+),')]

PATTERN_SETS = [[], ['ign'], ['ign-', 'other.*'], ['k.*p-1$', 'ign'],
                # each pattern is matched on its own: an inline flag of one pattern says nothing about the others
                ['(?i)IGN', 'KEEP'], ['ign', '(?i)XIGN-']]
NAME_KINDS = ['keep', 'ign', 'xign', None]


def patterns_of(args):
    pats = []
    for i, a in enumerate(args):
        if a == '--ignore-new-thread' and i + 1 < len(args):
            pats.append(args[i + 1])
        elif a.startswith('--ignore-new-thread='):
            pats.append(a.split('=', 1)[1])
    return pats


def pat_args(pats):
    out = []
    for n, p in enumerate(pats):
        out += (['--ignore-new-thread', p] if n % 2 == 0 else ['--ignore-new-thread=' + p])
    return out


def parse_blocks(text):
    """-> list of (test name line, [idents], raw line)"""
    lines = text.split('\n')
    blocks = []
    for i, ln in enumerate(lines):
        if ln.endswith(HEADER) and i + 2 < len(lines):
            name = lines[i + 1].strip()
            raw = lines[i + 2]
            idents = []
            for rx in IDENT_RES:
                idents += [int(x) for x in rx.findall(raw)]
            blocks.append((name, idents, raw))
    return blocks


def check_obs(case, obs):
    spec = case['spec']
    args = list(spec.get('args', ()))
    pats = patterns_of(args)
    tests = spec['tests']
    res = []
    desc = '%s args=%s' % ([(t['k'], t.get('release'), t.get('threads')) for t in tests], args)
    if obs.exc is not None:
        if isinstance(obs.exc, TypeError) and 'tests_with_failures' in obs.exc_tb:
            pass
        else:
            return _c04.check_obs(spec, obs)[:1]
    recs = {}           # rec id -> dict(test, ident, name, api)
    started_in = {}     # tid -> [rec ids]
    ended_in = {}       # tid -> [rec ids]
    alive_at_end = {}   # tid -> {ident: rec id}
    alive_at_start = {}
    cur_alive = {}
    order = []
    for e in obs.trace:
        if e[0] == 'run':
            alive_at_start[e[1]] = dict(cur_alive)
            order.append(e[1])
        elif e[0] == 'thread_start':
            _, tid, rid, ident, name = e
            recs[rid] = {'test': tid, 'ident': ident, 'name': name}
            started_in.setdefault(tid, []).append(rid)
            cur_alive[ident] = rid
        elif e[0] == 'thread_end':
            _, tid, rid, ident = e
            ended_in.setdefault(tid, []).append(rid)
            if cur_alive.get(ident) == rid:
                del cur_alive[ident]
        elif e[0] == 'ran':
            alive_at_end[e[1]] = {int(i): r for i, r in e[2]}
    for r in obs.trecs:
        if r['id'] in recs:
            recs[r['id']]['api'] = r['api']
    blocks = parse_blocks(obs.out)
    by_name = {}
    for name, idents, raw in blocks:
        by_name.setdefault(name, []).append((idents, raw))
    known_names = set()
    for i, t in enumerate(tests):
        tid = 'T%02d' % i
        name = 'test_x (%s.%s.test_x)' % (obs.modname, tid)
        known_names.add(name)
        if tid not in alive_at_end:
            continue
        alive = alive_at_end[tid]
        must, may = set(), set()
        for rid in started_in.get(tid, ()):
            rec = recs[rid]
            if alive.get(rec['ident']) != rid:
                continue        # finished before the end of the test
            if rec['name'] is None:     # started through _thread: no name of its own
                if any(re.match(p, 'Dummy-%d' % rec['ident']) or re.match(p, 'Dummy-1')
                       for p in pats):
                    may.add(rid)
                else:
                    must.add(rid)
            elif not any(re.match(p, rec['name']) for p in pats):
                must.add(rid)
        reported = set()
        got = by_name.get(name, [])
        if len(got) > 1:
            res.append(('thread:reported-twice',
                        '%d report blocks for test %s; world %s' % (len(got), tid, desc)))
        for idents, raw in got:
            for ident in idents:
                rid = alive.get(ident)
                if rid is None:
                    res.append(('thread:reported:not-a-running-world-thread',
                                'test %s: reported ident %d is not one of the threads of the '
                                'world running at the end of the test (%r); world %s'
                                % (tid, ident, raw, desc)))
                else:
                    reported.add(rid)
        for rid in sorted(reported - must - may):
            rec = recs[rid]
            if rec['test'] != tid:
                cat = 'pre-existing-thread-of-earlier-test'
            elif rec['name'] is not None and any(re.match(p, rec['name']) for p in pats):
                cat = 'ignored-name'
            else:
                cat = 'other'
            res.append(('thread:wrongly-reported:%s' % cat,
                        'test %s: thread #%d (%s, name %r, started in %s) reported; patterns %r; '
                        'world %s' % (tid, rid, rec.get('api'), rec['name'], rec['test'], pats,
                                      desc)))
        for rid in sorted(must - reported):
            rec = recs[rid]
            reused_from = [r for r in ended_in.get(tid, ())
                           if recs[r]['ident'] == rec['ident'] and r != rid
                           and alive_at_start[tid].get(rec['ident']) == r]
            if reused_from:
                res.append(('thread:not-reported:ident-reused-from-thread-that-ended-in-same-test',
                            'test %s first let thread #%d (leaked by %s, in the start-of-test '
                            'snapshot) finish and then started thread #%d (%s, name %r) which got '
                            'the same ident %d and is still running at the end of the test; the '
                            'runner compares threads by ident against the snapshot and does not '
                            'report it; world %s'
                            % (tid, reused_from[0], recs[reused_from[0]]['test'], rid,
                               rec.get('api'), rec['name'], rec['ident'], desc)))
            else:
                res.append(('thread:not-reported:%s:%s' % (rec.get('api'),
                                                          'named' if rec['name'] else 'unnamed'),
                            'test %s started thread #%d (%s, name %r, ident %d), it is still '
                            'running at the end of the test and matches none of %r, but it is not '
                            'reported; world %s' % (tid, rid, rec.get('api'), rec['name'],
                                                    rec['ident'], pats, desc)))
    for name in by_name:
        if name not in known_names:
            res.append(('thread:reported-for-unknown-test',
                        'a thread report names %r which is no test of the world; world %s'
                        % (name, desc)))
    return res


def check(case):
    obs = tw.execute(case['spec'])
    return check_obs(case, obs)


# --------------------------------------------------------------------------

def atoms():
    out = []
    for nk in NAME_KINDS:
        for mode in ('blocked', 'joined'):
            out.append(('threading', nk, mode))
    for mode in ('blocked', 'joined'):
        out.append(('_thread', None, mode))
    return out


ATOMS = atoms()


class Namer:
    def __init__(self):
        self.n = 0

    def thread(self, atom):
        api, nk, mode = atom
        self.n += 1
        th = {'api': api, 'mode': mode}
        if nk:
            th['name'] = '%s-%d' % (nk, self.n)
        return th


def gen_minimal():
    """test0 leaks a; test1 lets it finish and then leaks b (the 'has just ended' history)"""
    blocked = [a for a in ATOMS if a[2] == 'blocked' and a[1] in ('keep', None)]
    for a, b in itertools.product(blocked, blocked):
        nm = Namer()
        yield {'spec': {'tests': [{'k': 'pass', 'threads': [nm.thread(a)]},
                                  {'k': 'pass', 'release': [0], 'threads': [nm.thread(b)]}],
                        'args': []}}


def gen_layer_helper():
    """the layer's own testSetUp starts a helper thread before the k-th test: it exists when that test starts"""
    for k in (0, 1, 2):
        for kinds in (('pass', 'pass', 'pass'), ('pass', 'fail', 'pass')):
            yield {'spec': {'layers': [{'name': 'LH', 'helper_before': k}],
                            'tests': [{'k': kd, 'layer': 'LH'} for kd in kinds], 'args': []}}


def gen_singles():
    for atom in ATOMS:
        for pats in PATTERN_SETS:
            for kind in ('pass', 'fail', 'skip_body'):
                nm = Namer()
                yield {'spec': {'tests': [{'k': kind, 'threads': [nm.thread(atom)]},
                                          {'k': 'pass'}],
                                'args': ['-v'] + pat_args(pats)}}


def gen_two():
    """test0 starts a; test1 optionally releases a first, then starts b; test2 releases the
    rest"""
    for a, b in itertools.product(ATOMS, ATOMS):
        for rel1 in (False, True):
            for pats in ([], ['ign']):
                nm = Namer()
                t0 = {'k': 'pass', 'threads': [nm.thread(a)]}
                t1 = {'k': 'pass', 'threads': [nm.thread(b)]}
                if rel1:
                    t1['release'] = [0]
                t2 = {'k': 'pass', 'release': [0, 1]}
                t3 = {'k': 'pass'}
                yield {'spec': {'tests': [t0, t1, t2, t3], 'args': pat_args(pats)}}


def gen_release_points():
    """a thread leaked by test 0 is released in test r (1..3) while tests 1..3 each
    leak / join another one"""
    blocked = [a for a in ATOMS if a[2] == 'blocked']
    for a in blocked:
        for r in (1, 2, 3):
            for others in itertools.product([('threading', 'keep', 'blocked'),
                                             ('_thread', None, 'blocked'),
                                             ('threading', 'keep', 'joined'), None], repeat=2):
                nm = Namer()
                ts = [{'k': 'pass', 'threads': [nm.thread(a)]}]
                for j in (1, 2, 3):
                    t = {'k': 'pass'}
                    o = others[j - 1] if j - 1 < len(others) else None
                    if o:
                        t['threads'] = [nm.thread(o)]
                    if j == r:
                        t['release'] = [0]
                    ts.append(t)
                yield {'spec': {'tests': ts, 'args': ['--ignore-new-thread', 'ign']}}


def gen_multi():
    blocked_or_joined = ATOMS
    for combo in itertools.combinations(range(len(blocked_or_joined)), 3):
        nm = Namer()
        t0 = {'k': 'pass', 'threads': [nm.thread(blocked_or_joined[i]) for i in combo]}
        yield {'spec': {'tests': [t0, {'k': 'pass'}], 'args': ['-vv', '--ignore-new-thread=ign']}}


def gen_random(seed):
    rng = random.Random(seed)
    kinds = ['pass'] * 5 + ['fail', 'error', 'skip_body', 'err_td', 'xfail', 'skip_deco']
    while True:
        nm = Namer()
        ts = []
        total = 0
        for i in range(rng.randint(2, 6)):
            t = {'k': rng.choice(kinds)}
            if t['k'] != 'skip_deco':
                if total and rng.random() < 0.5:
                    t['release'] = sorted(rng.sample(range(total), rng.randint(1, min(2, total))))
                n = rng.choice([0, 1, 1, 2, 3])
                if n:
                    t['threads'] = [nm.thread(rng.choice(ATOMS)) for _ in range(n)]
                    total += n
            ts.append(t)
        spec = {'tests': ts, 'args': list(rng.choice([[], ['-v'], ['-vv']]))
                + pat_args(rng.choice(PATTERN_SETS))}
        if rng.random() < 0.3:
            spec['layers'] = [{'name': 'LA'}]
            for t in ts[len(ts) // 2:]:
                t['layer'] = 'LA'
        yield {'spec': spec}


def nontrivial(case):
    return any(t.get('threads') for t in case['spec']['tests'])


def run(budget_s, seed, tier):
    phases = [
        ('leak, then release + leak in the next test: 3x3 kinds', True, gen_minimal()),
        ('layer hook starts a helper thread before the k-th test: 3 positions x 2 outcome rows', True, gen_layer_helper()),
        ('one thread: 10 atoms (api x name kind x blocked/joined) x 4 pattern sets x 3 outcomes',
         True, gen_singles()),
        ('two tests: 10x10 atoms x release-before-start / not x 2 pattern sets', True, gen_two()),
        ('release points: leak of test 0 released in test 1..3 while others leak', True,
         gen_release_points()),
        ('three threads in one test: all 3-subsets of the atoms', True, gen_multi()),
        ('random', False, gen_random(seed)),
    ]
    return tw.explore(
        PROPERTY, phases, check, budget_s, nontrivial=nontrivial,
        rule='a case is non-trivial when at least one test starts a thread',
        bound='exhaustive: one thread of each of 10 kinds (threading named keep/ign/xign/default or '
              '_thread; blocked or joined) x 4 ignore-pattern sets x 3 test outcomes; all ordered '
              'pairs of kinds over two consecutive tests with and without releasing the first leak '
              'before the second start; every release point 1..3 for a leak of test 0; all '
              '3-subsets in one test; then seeded random worlds (2-6 tests, 0-3 threads each, '
              'random release points)')


def replay(case):
    res = check(case)
    if res:
        return True, '; '.join('%s: %s' % r for r in res)[:2000]
    return False, 'no violation observed'
