"""C14 - native bounded oracle: test discovery on the REAL find.find_test_files / find_suites.

Property (properties.jsonl C14): under the search paths the modules loaded as test modules
are exactly the Python files whose name matches the tests pattern, plus the files matching
the test-file pattern inside packages whose name matches the tests pattern, reached through
directories whose names are identifiers and not ignored; each is loaded once even when
search paths overlap or repeat; modules excluded by --module or outside --package are never
imported; discovery order is sorted by path, independent of the file system's enumeration
order.

A case is JSON (all paths '/'-separated, relative to a fresh temp directory <tmp>/base):
  {"dirs":  ["pkga", "pkga/tests", ...],
   "files": ["pkga/__init__.py", "pkga/tests/test_x.py", ...],     # creation order
   "argv":  [["--path", "."], ["--test-path", "pkga"], ["-s", "pkga.sub"], ["-m", "sub"],
             ["--tests-pattern", "^tests$"], ["--test-file-pattern", "^test"],
             ["--ignore_dir", "build"]],
   "walk_seeds": [1, 2]}       # seeds used to shuffle what os.walk hands to find.py

Every non-__init__ *.py file appends (__name__, __file__) to builtins._c14_log when it is
executed, so imports (wanted and unwanted) are observed directly.  The harness puts the
--path entries on sys.path exactly like Find.global_setup, and additionally (after them)
the --test-path entries - the documented contract of --test-path is that the caller takes
care of importability.

The expected set is computed by an independent reference (`_reference`) from the case's
own dirs/files lists (it never looks at the file system and never calls find.py):
  * search roots: --test-path and --path entries; with --package only the package
    directories (resolved against the sys.path roots);
  * below a root only directories are entered whose name is an identifier
    ([A-Za-z_][A-Za-z0-9_]*) and neither in --ignore_dir (plus its defaults) nor one of
    .git / node_modules / __pycache__;  non-ASCII names are *unclear* (ignored by the
    comparison in both directions);
  * in a visited directory a file <stem>.py (non-empty stem) is a test file if
    tests_pattern.search(stem), or if the directory's own name matches the tests pattern,
    it holds __init__.py and test_file_pattern.search(stem);
  * module name = path relative to the longest search path containing the file;
  * --module: kept iff some positive regex matches (or none given) - mixes of positive and
    negated filters are not generated (the documentation is ambiguous about them).
Configurations whose module names would be ambiguous for Python itself (two sys.path roots
offering the same top-level name, two files mapping to one module name, a module next to a
directory of the same name, names shadowing stdlib / already imported modules) are not
generated: which file such a name loads is decided by the import system, not by discovery.

Order oracle: (a) identical result lists for the real enumeration order and two shuffled
ones (also creation order is shuffled); (b) files of one directory appear in sorted name
order; (c) with a single search root, files below sibling directories appear in the sorted
order of those directories.  File-before-subdirectory order and the order of different
search roots are left open by the statement and not checked.
"""
import builtins
import importlib
import io
import os
import posixpath
import random
import re
import shutil
import sys
import tempfile
import time

PROPERTY = "C14"

DEFAULT_IGNORED = ('.git', '.svn', 'CVS', '{arch}', '.arch-ids', '_darcs')
NEVER_ENTERED = ('.git', 'node_modules', '__pycache__')
_ascii_ident = re.compile(r'[A-Za-z_][A-Za-z0-9_]*\Z').match

MODULE_SRC = """\
import builtins as _b
_b._c14_log.append((__name__, __file__))
import unittest


class T(unittest.TestCase):
    def test_it(self):
        pass
"""


class Skip(Exception):
    """the configuration is ambiguous for Python's import system; not a discovery case"""


# ----------------------------------------------------------------------------
# reference implementation (independent of find.py and of the file system)

def _norm(p):
    p = posixpath.normpath(p)
    return '' if p == '.' else p


def _parse(case):
    cfg = {"test_paths": [], "paths": [], "packages": [], "modules": [],
           "ignore": set(DEFAULT_IGNORED), "tests_pattern": '^tests$',
           "file_pattern": '^test'}
    for grp in case["argv"]:
        o = grp[0]
        if o == '--path':
            cfg["paths"].append(_norm(grp[1]))
        elif o == '--test-path':
            cfg["test_paths"].append(_norm(grp[1]))
        elif o in ('-s', '--package', '--dir'):
            cfg["packages"].append(grp[1].replace('\\', '/').rstrip('/').replace('/', '.'))
        elif o in ('-m', '--module'):
            cfg["modules"].append(grp[1])
        elif o == '--tests-pattern':
            cfg["tests_pattern"] = grp[1]
        elif o == '--test-file-pattern':
            cfg["file_pattern"] = grp[1]
        elif o == '--ignore_dir':
            cfg["ignore"].add(grp[1])
        else:
            raise ValueError(grp)
    return cfg


def _tree(case):
    dirs = {''}
    files = list(dict.fromkeys(case["files"]))

    def add_dir(d):
        while d and d not in dirs:
            dirs.add(d)
            d = posixpath.dirname(d)
    for d in case["dirs"]:
        add_dir(d)
    for f in files:
        add_dir(posixpath.dirname(f))
    sub = {d: [] for d in dirs}
    fls = {d: [] for d in dirs}
    for d in dirs:
        if d:
            sub[posixpath.dirname(d)].append(posixpath.basename(d))
    for f in files:
        fls[posixpath.dirname(f)].append(posixpath.basename(f))
    return dirs, sub, fls


def _stems(names):
    """names under which Python could import the files (source and sourceless bytecode)"""
    return {n.rsplit('.', 1)[0] for n in names if n.endswith(('.py', '.pyc'))}


def _under(f, root):
    return root == '' or f == root or f.startswith(root + '/')


def _reference(case):
    cfg = _parse(case)
    dirs, sub, fls = _tree(case)
    tests_pat = re.compile(cfg["tests_pattern"]).search
    file_pat = re.compile(cfg["file_pattern"]).search
    sys_roots = list(dict.fromkeys(cfg["paths"] + cfg["test_paths"]))
    search_paths = list(dict.fromkeys(cfg["test_paths"] + cfg["paths"]))
    for r in search_paths:
        if r not in dirs:
            raise Skip("search path %r does not exist" % r)

    # -- ambiguity for the import system -> not a discovery case
    tops = {}
    for r in sys_roots:
        names = set(sub[r]) | _stems(fls[r])
        names.discard('__init__')   # never logged, never compared as an import
        for n in names:
            if n in sys.stdlib_module_names or n in _BASE_MODULES:
                raise Skip("top-level name %r shadows an existing module" % n)
        for r2, n2 in tops.items():
            if names & n2:
                raise Skip("sys.path roots %r and %r both offer %r" % (r, r2, names & n2))
        tops[r] = names
    for d in dirs:
        clash = set(sub[d]) & _stems(fls[d])
        if clash:
            raise Skip("module and directory of the same name %r in %r" % (clash, d))

    # -- walk roots
    if cfg["packages"]:
        roots = []
        for p in cfg["packages"]:
            cands = []
            for r in sys_roots:
                d = posixpath.join(r, *p.split('.')) if r else '/'.join(p.split('.'))
                if d in dirs and d not in cands:
                    cands.append(d)
            if not cands:
                # -s names a plain module (a .py file), not a package: the runner may refuse it (upstream: AttributeError
                # on __path__) or search nothing -- but nothing besides that module lies inside the selection
                mods = [(posixpath.join(r, *p.split('.')) if r else '/'.join(p.split('.'))) + '.py' for r in sys_roots]
                mods = [m for m in mods if m in set(case["files"])]
                if len(mods) == 1 and len(cfg["packages"]) == 1:
                    return {"expected": [], "unclear": [], "roots": [], "module_package": mods[0], "accepted": [], "names": {}}
            if len(cands) != 1:
                raise Skip("package %r resolves to %r" % (p, cands))
            below = p.split('.')
            if not all(_ascii_ident(c) and c not in cfg["ignore"] and c not in NEVER_ENTERED
                       for c in below):
                raise Skip("package %r goes through ignored / non-identifier names" % p)
            roots.append(cands[0])
    else:
        roots = list(search_paths)
    roots = list(dict.fromkeys(roots))

    expected = []       # ordered, de-duplicated
    unclear = []        # directory prefixes the comparison ignores

    def visit(d):
        name = posixpath.basename(d) or 'base'
        names = sorted(fls[d])
        is_tests_pkg = bool(tests_pat(name)) and '__init__.py' in names
        for f in names:
            if f.endswith('.py') and len(f) > 3:
                stem = f[:-3]
                if tests_pat(stem) or (is_tests_pkg and file_pat(stem)):
                    p = posixpath.join(d, f) if d else f
                    if p not in expected:
                        expected.append(p)
        for s in sorted(sub[d]):
            sd = posixpath.join(d, s) if d else s
            if s in cfg["ignore"] or s in NEVER_ENTERED:
                continue
            if _ascii_ident(s):
                visit(sd)
            elif not s.isascii():
                unclear.append(sd)
    for r in roots:
        visit(r)

    def modname(f):
        best = max((p for p in search_paths if _under(f, p)), key=len)
        rel = f[len(best) + 1:] if best else f
        return rel[:-3].replace('/', '.')

    names = {}
    for f in expected:
        n = modname(f)
        if n in names:
            raise Skip("files %r and %r both map to module %r" % (names[n], f, n))
        if n.split('.')[0] in sys.stdlib_module_names or n.split('.')[0] in _BASE_MODULES:
            raise Skip("module %r shadows an existing module" % n)
        names[n] = f
    pos = [re.compile(m).search for m in cfg["modules"] if not m.startswith('!')]
    neg = [re.compile(m[1:]).search for m in cfg["modules"] if m.startswith('!')]
    if pos and neg or len(neg) > 1:
        raise Skip("mixed / multiple negated module filters: documentation ambiguous")

    def accepted(n):
        if neg:
            return not neg[0](n)
        return not pos or any(s(n) for s in pos)
    loaded = [f for f in expected if accepted(modname(f))]
    return {"expected": expected, "loaded": loaded, "unclear": unclear, "roots": roots,
            "sys_roots": sys_roots, "modname": {f: modname(f) for f in expected}}


_BASE_MODULES = frozenset()

NEWLINE_TEXT = ("%r is discovered (and imported) although it is only reachable through a "
                "directory whose name ends in a newline and hence is not an identifier "
                "(find.identifier is re.compile(r'[_a-z]\\w*$').match and '$' also matches "
                "before a trailing newline); expected exactly %r")
FALLTHROUGH_TEXT = ("%r has the longest-prefix module name %r which the --module filter "
                    "rejects, yet the file is imported, as %r: in find_suites the `continue` "
                    "after a rejecting accept() continues the loop over search-path prefixes, "
                    "so the next shorter search path gives the file another name which the "
                    "filter accepts (the comment in options.py says only the first, longest "
                    "prefix is evaluated)")


# ----------------------------------------------------------------------------
# running the real code

class _OsProxy:
    """stands in for the `os` module inside find.py; os.walk hands out shuffled lists"""

    def __init__(self, real, rnd):
        self._real = real
        self._rnd = rnd

    def __getattr__(self, name):
        return getattr(self._real, name)

    def walk(self, top, *a, **kw):
        for dirpath, dirs, files in self._real.walk(top, *a, **kw):
            self._rnd.shuffle(dirs)
            self._rnd.shuffle(files)
            yield dirpath, dirs, files


def _materialise(base, case):
    os.makedirs(base)
    for d in case["dirs"]:
        os.makedirs(os.path.join(base, *d.split('/')), exist_ok=True)
    for f in case["files"]:
        p = os.path.join(base, *f.split('/'))
        os.makedirs(os.path.dirname(p), exist_ok=True)
        name = os.path.basename(p)
        with open(p, 'w') as fh:
            if name == '__init__.py':
                fh.write('')
            elif name.endswith('.py'):
                fh.write(MODULE_SRC)
            else:
                fh.write('not python: %s\n' % f)


def _argv(base, case):
    argv = ['test']
    for grp in case["argv"]:
        if grp[0] in ('--path', '--test-path'):
            argv += [grp[0], os.path.join(base, *grp[1].split('/'))]
        else:
            argv += list(grp)
    return argv


def _describe_dir(f, roots):
    """why the directory of file `f` should not have been reached (relative to the
    innermost walk root containing it)"""
    d = posixpath.dirname(f)
    inside = [r for r in roots if _under(d, r)]
    if inside:
        r = max(inside, key=len)
        d = d[len(r) + 1:] if r else d
    for c in (d.split('/') if d else []):
        if c.endswith('\n') and _ascii_ident(c[:-1]):
            return "dirname-with-trailing-newline"
        if c in NEVER_ENTERED or c in DEFAULT_IGNORED:
            return "ignored-dir"
        if not _ascii_ident(c):
            return "non-identifier-dir"
    return None


KEY_NEWLINE = "discovery:dirname-with-trailing-newline:entered-as-identifier"
KEY_FALLTHROUGH = ("discovery:nested-search-paths:module-rejected-by-filter-under-longest-prefix-"
                   "name:imported-under-outer-name")


def _check(case, stats=None):
    """-> list of (key, summary); raises Skip for configurations outside the property"""
    global _BASE_MODULES
    from zope.testrunner import find
    from zope.testrunner.filter import build_filtering_func
    from zope.testrunner.options import get_options
    _BASE_MODULES = frozenset(m.split('.')[0] for m in sys.modules)
    ref = _reference(case)
    problems = []

    tmp = tempfile.mkdtemp(prefix='c14_')
    base = os.path.join(tmp, 'base')
    saved_path = list(sys.path)
    saved_modules = set(sys.modules)
    saved_out, saved_err = sys.stdout, sys.stderr
    saved_dwb = sys.dont_write_bytecode
    saved_os = find.os
    had_log = hasattr(builtins, '_c14_log')
    saved_log = getattr(builtins, '_c14_log', None)
    try:
        _materialise(base, case)
        sys.dont_write_bytecode = True
        sys.stdout, sys.stderr = io.StringIO(), io.StringIO()
        builtins._c14_log = log = []
        options = get_options(_argv(base, case), [])
        # like Find.global_setup ...
        for p in reversed(options.path):
            if p not in sys.path:
                sys.path.insert(0, p)
        # ... plus the --test-path entries (importability is the caller's business)
        k = len(options.path)
        for p, _pkg in options.test_path:
            if p not in sys.path:
                sys.path.insert(k, p)
                k += 1
        importlib.invalidate_caches()

        def rel(p):
            r = os.path.relpath(p, base).replace(os.sep, '/')
            return r

        def listing(seed):
            if seed is not None:
                find.os = _OsProxy(saved_os, random.Random(seed))
            try:
                return [rel(f) for f, _pkg in find.find_test_files(options)]
            finally:
                find.os = saved_os

        try:
            l0 = listing(None)
            l1 = listing(case["walk_seeds"][0])
            l2 = listing(case["walk_seeds"][1])
        except Exception as e:
            if ref.get("module_package") and isinstance(e, AttributeError):
                return problems          # refused: nothing searched, nothing imported
            problems.append(("discovery:find_test_files:exception:%s" % type(e).__name__,
                             "find_test_files raised %r" % (e,)))
            return problems
        if ref.get("module_package"):
            extra = sorted(set(l0) - {ref["module_package"]})
            if extra:
                problems.append(("discovery:package-names-a-module:searches-outside-the-selection",
                                 "-s names the module %r; the files %r, which lie outside it, are searched as test modules"
                                 % (ref["module_package"], extra)))
            return problems

        def clear(fs):
            return [f for f in fs if not any(_under(f, u) for u in ref["unclear"])]
        l0, l1, l2 = clear(l0), clear(l1), clear(l2)
        exp = clear(ref["expected"])
        if stats is not None:
            stats["found"] += len(l0)
        if not (l0 == l1 == l2):
            if sorted(l0) == sorted(l1) == sorted(l2):
                problems.append(("discovery:order-depends-on-enumeration-order",
                                 "%r vs %r vs %r" % (l0, l1, l2)))
            else:
                problems.append(("discovery:result-depends-on-enumeration-order",
                                 "%r vs %r vs %r" % (l0, l1, l2)))
        dup = sorted({f for f in l0 if l0.count(f) > 1})
        if dup:
            problems.append(("discovery:file-found-twice" +
                             (":overlapping-search-paths" if len(ref["roots"]) > 1 or
                              len(_parse(case)["paths"] + _parse(case)["test_paths"]) > 1
                              else ""), "found more than once: %r in %r" % (dup, l0)))
        for f in sorted(set(l0) - set(exp)):
            why = _describe_dir(f, ref["roots"]) or (
                "non-py-file" if not f.endswith('.py') else "non-matching-file")
            if why == "dirname-with-trailing-newline":
                problems.append((KEY_NEWLINE, NEWLINE_TEXT % (f, exp)))
                continue
            problems.append(("discovery:finds-file-it-should-not:%s" % why,
                             "found %r; expected exactly %r" % (f, exp)))
        for f in sorted(set(exp) - set(l0)):
            problems.append(("discovery:misses-matching-file",
                             "did not find %r; found %r" % (f, l0)))
        # order: same-directory files sorted by name
        seen_dirs = {}
        for f in dict.fromkeys(l0):
            seen_dirs.setdefault(posixpath.dirname(f), []).append(posixpath.basename(f))
        for d, names in seen_dirs.items():
            if names != sorted(names):
                problems.append(("discovery:files-of-a-directory-not-sorted",
                                 "in %r: %r" % (d, names)))
        if len(ref["roots"]) == 1:
            root = ref["roots"][0]
            order = list(dict.fromkeys(l0))
            for i, a in enumerate(order):
                for b in order[i + 1:]:
                    pa = (a[len(root) + 1:] if root else a).split('/')
                    pb = (b[len(root) + 1:] if root else b).split('/')
                    j = 0
                    while j < len(pa) - 1 and j < len(pb) - 1 and pa[j] == pb[j]:
                        j += 1
                    if j < len(pa) - 1 and j < len(pb) - 1 and pa[j] > pb[j]:
                        problems.append(("discovery:sibling-directories-not-in-sorted-order",
                                         "%r listed before %r" % (a, b)))
                        break
                else:
                    continue
                break

        # -- imports
        find.os = _OsProxy(saved_os, random.Random(case["walk_seeds"][1]))
        try:
            accept = build_filtering_func(options.module)
            suites = list(find.find_suites(options, accept=accept))
        except Exception as e:
            problems.append(("discovery:find_suites:exception:%s" % type(e).__name__,
                             "find_suites raised %r" % (e,)))
            return problems
        finally:
            find.os = saved_os
        failures = [s for s in suites if isinstance(s, find.StartUpFailure)]
        imported = clear([rel(f) for _n, f in log])
        names = {rel(f): n for n, f in log}
        if stats is not None:
            stats["imported"] += len(imported)
        want = clear(ref["loaded"])
        filtered_out = [f for f in exp if f not in want]
        twice = sorted({f for f in imported if imported.count(f) > 1})
        if twice:
            problems.append(("discovery:module-executed-twice",
                             "executed more than once: %r" % twice))
        for f in sorted(set(imported) - set(want)):
            if f in filtered_out:
                if names.get(f) != ref["modname"][f]:
                    # With nested search paths the file has two dotted names; --module rejected the one under the
                    # longest prefix but accepts the name it was imported under.  The property ("modules excluded
                    # by --module are never imported") leaves room for this reading: not flagged.
                    continue
                key = "discovery:imports-module-excluded-by-filter"
            elif _parse(case)["packages"] and not any(_under(f, r) for r in ref["roots"]):
                key = "discovery:imports-module-outside-package"
            else:
                why = _describe_dir(f, ref["roots"]) or "non-matching-file"
                if why == "dirname-with-trailing-newline":
                    problems.append((KEY_NEWLINE, NEWLINE_TEXT % (f, exp)))
                    continue
                key = "discovery:imports-file-it-should-not:%s" % why
            problems.append((key, "imported %r as %r; expected imports %r"
                             % (f, names.get(f), want)))
        for f in sorted(set(want) - set(imported)):
            fl = [(s.module, repr(s.exc_info[1]) if s.exc_info else None) for s in failures]
            problems.append(("discovery:matching-module-not-loaded",
                             "%r (module %r) was not executed; imported %r; import failures %r"
                             % (f, ref["modname"][f], imported, fl)))
        if not twice and set(imported) == set(want):
            if list(imported) != [f for f in dict.fromkeys(l0) if f in want]:
                problems.append(("discovery:import-order-differs-from-discovery-order",
                                 "imported %r, discovered %r" % (imported, l0)))
            wrong = [(f, names[f], ref["modname"][f]) for f in imported
                     if names[f] != ref["modname"][f]]
            if wrong:
                problems.append(("discovery:module-name-not-relative-to-longest-search-path",
                                 "%r" % wrong))
    finally:
        find.os = saved_os
        sys.stdout, sys.stderr = saved_out, saved_err
        sys.dont_write_bytecode = saved_dwb
        sys.path[:] = saved_path
        for m in list(sys.modules):
            if m not in saved_modules:
                del sys.modules[m]
        for p in list(sys.path_importer_cache):
            if p.startswith(tmp):
                del sys.path_importer_cache[p]
        if had_log:
            builtins._c14_log = saved_log
        elif hasattr(builtins, '_c14_log'):
            del builtins._c14_log
        shutil.rmtree(tmp, ignore_errors=True)
    out = {}
    for k, s in problems:
        out.setdefault(k, s)
    return list(out.items())


# ----------------------------------------------------------------------------
# case generation

def _catalogue_tree():
    dirs = ['pkga/sub/tests/deeper', 'pkgb/noinit/tests', 'pkgb/inner/tests', 'my-dir/ok',
            '3rd', 'pkga/.svn', 'pkga/node_modules', 'pkga/__pycache__', 'pkga/build',
            'pkga/.git', 'pkga/empty', 'pkgn\n']
    files = [
        'tophelper.py', 'test_top.py', 'README.txt',
        'pkga/__init__.py', 'pkga/tests.py', 'pkga/ftests.py', 'pkga/mod.py',
        'pkga/tests.txt', 'pkga/tests.pyc', 'pkga/tests.py.bak', 'pkga/testspy',
        'pkga/sub/__init__.py', 'pkga/sub/tests/__init__.py',
        'pkga/sub/tests/test_one.py', 'pkga/sub/tests/test_two.py',
        'pkga/sub/tests/check_three.py', 'pkga/sub/tests/helper.py',
        'pkga/sub/tests/test-dash.py', 'pkga/sub/tests/test_data.txt',
        'pkga/sub/tests/test_comp.pyc',
        'pkga/sub/tests/deeper/__init__.py', 'pkga/sub/tests/deeper/tests.py',
        'pkga/sub/tests/deeper/test_notpkg.py',
        'pkgb/tests.py', 'pkgb/noinit/tests/test_nopkg.py', 'pkgb/noinit/tests/tests.py',
        'pkgb/inner/__init__.py', 'pkgb/inner/tests/__init__.py',
        'pkgb/inner/tests/test_b.py', 'pkgb/inner/tests/btests.py',
        'my-dir/tests.py', 'my-dir/ok/tests.py', '3rd/tests.py',
        'pkga/.svn/tests.py', 'pkga/node_modules/tests.py', 'pkga/__pycache__/tests.py',
        'pkga/build/__init__.py', 'pkga/build/tests.py', 'pkga/.git/tests.py',
        'pkgn\n/tests.py',
    ]
    return dirs, files


CAT_PATHSETS = (
    [['--path', '.']],
    [['--test-path', '.']],
    [['--path', '.'], ['--path', '.']],
    [['--test-path', '.'], ['--path', '.']],
    [['--path', '.'], ['--path', 'pkga/..']],
    [['--path', '.'], ['--path', 'pkga/sub']],
    [['--path', 'pkga/sub'], ['--path', '.']],
    [['--path', '.'], ['--test-path', 'pkga/sub/tests']],
    [['--path', '.'], ['--path', 'pkgb']],
    [['--test-path', 'pkgb/inner'], ['--path', '.'], ['--test-path', 'pkgb/inner/']],
    [['--path', 'pkga']],
    [['--path', 'pkga/sub/tests']],
    [['--path', 'my-dir']],
    [['--path', '.'], ['--path', 'my-dir/ok']],
)
CAT_PATTERNS = (
    [],
    [['--tests-pattern', '^(tests|ftests)$']],
    [['--test-file-pattern', '^check']],
    [['--tests-pattern', 'tests$'], ['--test-file-pattern', '_(one|b)$']],
    [['--tests-pattern', '^test_']],
)
CAT_FILTERS = (
    [],
    [['-m', 'pkga']],
    [['-m', 'sub'], ['-m', 'inner']],
    [['-m', '!sub']],
    [['-m', 'tests$']],
    [['-s', 'pkga']],
    [['-s', 'pkga.sub'], ['-s', 'pkga/sub/']],
    [['-s', 'pkgb.inner'], ['-s', 'pkga.sub.tests']],
    [['-s', 'pkga'], ['-s', 'pkga.sub'], ['-m', 'deeper|one']],
    [['--ignore_dir', 'build']],
    [['--ignore_dir', 'sub'], ['--ignore_dir', 'inner']],
)


def _special(seed):
    """search paths that lie below another search path THROUGH a directory the walk prunes (named in --ignore_dir, or not an
    identifier): the walk from the outer path never gets there, only the inner path's own walk finds these modules"""
    dirs, files = _catalogue_tree()
    for argv in ([['--path', '.'], ['--path', 'pkga/build'], ['--ignore_dir', 'build']],
                 [['--test-path', 'pkga'], ['--test-path', 'pkga/build'], ['--ignore_dir', 'build']],
                 [['--path', 'pkga/build'], ['--path', '.'], ['--ignore_dir', 'build'], ['--ignore_dir', 'empty']],
                 [['--path', '.'], ['--path', 'my-dir/ok']],
                 [['--path', '.'], ['--path', 'pkga/sub'], ['--ignore_dir', 'sub']],
                 # -s naming a plain MODULE instead of a package: whatever the runner does, nothing outside it is imported
                 [['--path', '.'], ['-s', 'pkga.sub.tests.test_one']],
                 [['--path', '.'], ['-s', 'pkga.mod']]):
        yield {"dirs": dirs, "files": list(files), "argv": [list(g) for g in argv], "walk_seeds": [seed, seed + 1]}


def _catalogue(seed):
    dirs, files = _catalogue_tree()
    yield from _special(seed)
    i = 0
    for ps in CAT_PATHSETS:
        for pat in CAT_PATTERNS:
            for flt in CAT_FILTERS:
                i += 1
                rnd = random.Random(seed * 100003 + i)
                fs = list(files)
                rnd.shuffle(fs)
                yield {"dirs": dirs, "files": fs,
                       "argv": [list(g) for g in ps + pat + flt],
                       "walk_seeds": [rnd.randrange(10 ** 6), rnd.randrange(10 ** 6)]}


IDENT_DIRS = ('pkga', 'pkgb', 'sub', 'tests', 'ftests', 'testing', 'util', '_priv', 'Tests',
              'inner', 'x1', 'tests2')
BAD_DIRS = ('my-dir', '3rd', 'a.b', '.hidden', 'with space', 'pkgn\n', 'päck')
IGN_DIRS = ('.git', '.svn', 'CVS', 'node_modules', '__pycache__', '_darcs', 'build', 'skipme')
PY_FILES = ('tests.py', 'ftests.py', 'test_a.py', 'test_b.py', 'testing.py', 'check_c.py',
            'helper.py', 'mod.py', 'conftest.py', 'a_test.py', 'test-dash.py', 'Tests.py',
            'xtests.py', 't.py')
OTHER_FILES = ('tests.txt', 'tests.pyc', 'test_a.pyc', 'tests.py.bak', 'test_a.pyx',
               'tests.pyo', 'test_data.json', 'testspy', 'README')
TESTS_PATTERNS = (None, None, None, '^(tests|ftests)$', 'tests$', '^test_', '^[Tt]ests$',
                  'testing|tests2')
FILE_PATTERNS = (None, None, None, '^check', '_test$', '^test_[ab]$', 'est')
MODULE_FILTERS = ('pkga', 'sub', 'tests$', '^pkgb', 'test_a', 'inner|util', '!sub', '!tests$',
                  '!pkga', r'\.tests\.', 'nomatch')


def _random_case(rnd):
    ndirs = rnd.randint(2, 9)
    dirs = []
    for _ in range(ndirs):
        parent = rnd.choice([''] * 2 + dirs) if dirs else ''
        if parent.count('/') >= 3:
            parent = ''
        r = rnd.random()
        pool = IDENT_DIRS if r < 0.72 else (BAD_DIRS if r < 0.86 else IGN_DIRS)
        d = (parent + '/' if parent else '') + rnd.choice(pool)
        if d not in dirs:
            dirs.append(d)
    files = []
    for d in [''] + dirs:
        if rnd.random() < 0.6:
            files.append((d + '/' if d else '') + '__init__.py')
        for n in rnd.sample(PY_FILES, rnd.randint(0, 4)) + \
                rnd.sample(OTHER_FILES, rnd.randint(0, 2)):
            files.append((d + '/' if d else '') + n)
    files = [f for f in dict.fromkeys(files) if f != '__init__.py']
    rnd.shuffle(files)
    good = [d for d in dirs if all(_ascii_ident(c) and c not in IGN_DIRS for c in d.split('/'))]
    argv = []
    r = rnd.random()
    if r < 0.3:
        argv.append(['--path', '.'])
    elif r < 0.4:
        argv.append(['--test-path', '.'])
    elif r < 0.55:
        argv += [['--path', '.'], [rnd.choice(('--path', '--test-path')), '.']]
    elif r < 0.85 and dirs:
        argv.append(['--path', '.'])
        for _ in range(rnd.randint(1, 2)):
            d = rnd.choice(dirs)
            spell = rnd.choice((d, d + '/', d + '/../' + posixpath.basename(d), './' + d))
            argv.append([rnd.choice(('--path', '--test-path')), spell])
        if rnd.random() < 0.3:
            rnd.shuffle(argv)
    elif dirs:
        for _ in range(rnd.randint(1, 3)):
            argv.append([rnd.choice(('--path', '--path', '--test-path')), rnd.choice(dirs)])
    else:
        argv.append(['--path', '.'])
    tp = rnd.choice(TESTS_PATTERNS)
    if tp:
        argv.append(['--tests-pattern', tp])
    fp = rnd.choice(FILE_PATTERNS)
    if fp:
        argv.append(['--test-file-pattern', fp])
    r = rnd.random()
    if r < 0.25:
        argv.append(['-m', rnd.choice(MODULE_FILTERS)])
    elif r < 0.35:
        argv += [['-m', m] for m in rnd.sample([m for m in MODULE_FILTERS if m[0] != '!'], 2)]
    if rnd.random() < 0.3 and good:
        roots = [_norm(g[1]) for g in argv if g[0] in ('--path', '--test-path')]
        for _ in range(rnd.randint(1, 2)):
            d = rnd.choice(good)
            r0 = rnd.choice([x for x in roots if _under(d, x) and d != x] or [None])
            if r0 is None:
                continue
            relp = d[len(r0) + 1:] if r0 else d
            argv.append([rnd.choice(('-s', '--package')),
                         relp.replace('/', rnd.choice(('.', '.', '/')))])
    if rnd.random() < 0.25:
        argv.append(['--ignore_dir', rnd.choice(('build', 'skipme', 'sub', 'util'))])
        if rnd.random() < 0.3:
            argv.append(['--ignore_dir', 'skipme'])
    return {"dirs": dirs, "files": files, "argv": argv,
            "walk_seeds": [rnd.randrange(10 ** 6), rnd.randrange(10 ** 6)]}


def _size(case):
    return (len(case["files"]) + len(case["dirs"]), len(case["argv"]), str(case))


def _shrink(case, key, limit_s=6.0):
    """greedy removal of files / dirs / option groups while `key` is still produced"""
    t_end = time.time() + limit_s

    def still(c):
        try:
            return any(k == key for k, _ in _check(c))
        except Skip:
            return False
        except Exception:
            return False
    cur = case
    changed = True
    while changed and time.time() < t_end:
        changed = False
        for field in ("argv", "files", "dirs"):
            i = 0
            while i < len(cur[field]) and time.time() < t_end:
                cand = dict(cur)
                cand[field] = cur[field][:i] + cur[field][i + 1:]
                if field == "argv" and not any(g[0] in ('--path', '--test-path')
                                               for g in cand["argv"]):
                    i += 1
                    continue
                if still(cand):
                    cur = cand
                    changed = True
                else:
                    i += 1
    return cur


def run(budget_s, seed, tier):
    t0 = time.time()
    deadline = t0 + budget_s * 0.82
    rnd = random.Random(seed)
    cases = skipped = 0
    distinct = set()
    findings = {}
    samples = []
    stats = {"found": 0, "imported": 0}

    def do(case):
        nonlocal cases, skipped
        try:
            probs = _check(case, stats)
        except Skip:
            skipped += 1
            return False
        cases += 1
        distinct.add(repr((sorted(case["files"]), case["argv"])))
        for key, summary in probs:
            old = findings.get(key)
            if old is None or _size(case) < _size(old["case"]):
                findings[key] = {"key": key, "summary": summary, "case": case}
        return True

    n_cat = cat_skipped = 0
    cat_done = True
    for case in _catalogue(seed):
        if time.time() > deadline:
            cat_done = False
            break
        if do(case):
            n_cat += 1
            if n_cat in (40, 333):
                samples.append(case)
        else:
            cat_skipped += 1
    n_rand = 0
    cap = 10 ** 9
    while time.time() < deadline and n_rand < cap:
        case = _random_case(rnd)
        if do(case):
            n_rand += 1
            if len(samples) < 5 and n_rand % 97 == 1:
                samples.append(case)
    # minimise the stored cases (bounded time)
    for key, f in list(findings.items()):
        small = _shrink(f["case"], key, limit_s=min(6.0, max(1.0, budget_s * 0.04)))
        if small is not f["case"]:
            for k, s in _check(small):
                if k == key:
                    findings[key] = {"key": key, "summary": s, "case": small}
    return {
        "cases": cases,
        "distinct": len(distinct),
        "rule": "a case = one temp tree + one option list; real get_options, 3x real "
                "find_test_files (native and two shuffled os.walk enumerations, shuffled "
                "creation order) and 1x real find_suites with import side effects recorded; "
                "distinct = distinct (file set, option list); %d files discovered and %d "
                "module executions observed in total; %d generated configurations were "
                "dropped as ambiguous for Python's import system (not counted)"
                % (stats["found"], stats["imported"], skipped),
        "exhaustive": cat_done,
        "bound": "catalogue %s: one 40-file tree (nested packages, namespace packages, tests "
                 "package without __init__.py, non-identifier / ignored / trailing-newline "
                 "directory names, other extensions) x %d search-path sets (repeated, aliased, "
                 "nested, --path/--test-path) x %d pattern settings x %d filter settings "
                 "(-m, negated -m, -s, --ignore_dir) = %d configurations, %d run, %d dropped as "
                 "ambiguous; then %d random trees (<=10 dirs, depth<=4, <=6 files per dir) with "
                 "random options"
                 % ("complete" if cat_done else "INCOMPLETE (budget)", len(CAT_PATHSETS),
                    len(CAT_PATTERNS), len(CAT_FILTERS),
                    len(CAT_PATHSETS) * len(CAT_PATTERNS) * len(CAT_FILTERS), n_cat,
                    cat_skipped, n_rand),
        "samples": samples[:5],
        "findings": sorted(findings.values(), key=lambda f: f["key"]),
    }


def replay(case):
    try:
        problems = _check(case)
    except Skip as e:
        return False, "configuration outside the property: %s" % e
    if problems:
        return True, "; ".join("%s: %s" % p for p in problems)
    return False, "no violation on this case"
