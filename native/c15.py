"""C15 - native bounded oracle: stale-bytecode cleanup on the REAL find.remove_stale_bytecode.

Property (properties.jsonl C15): a file is deleted only if it is a .pyc/.pyo file lying
directly in a searched source directory (not inside __pycache__ or an ignored directory)
with no same-named .py file beside it; every such orphan is deleted; no other file is
removed or modified; with --keepbytecode or --usecompiled nothing is deleted at all.

A case is JSON:
  {"dirs":  ["a", "a/__pycache__", ...],          # relative to the temp root, '/'-separated
   "files": ["a/x.py", "a/x.pyc", ...],           # created in this order
   "argv":  [["--path", "a"], ["--test-path", "."], ["-k"], ["--ignore_dir", "build"]]}
            # option groups; a path value is relative to the temp root

Classification used by the oracle (written from the statement, not from find.py):
  * a directory is *searched* if, for some search path, it is the search path itself or
    lies below it; it is *excluded* (for that search path) if a component below the search
    path is `__pycache__` or one of the ignored directory names (--ignore_dir, defaults
    .git .svn CVS {arch} .arch-ids _darcs); it is *clearly searched* if it is not excluded
    and no component below the search path is a non-identifier name or one of the names
    that discovery never enters (node_modules); anything else is *unclear*: the statement
    leaves room, orphans there may or may not be removed.
  * an *orphan* is a regular file whose name ends with .pyc or .pyo, has a non-empty stem,
    and for which <name minus the trailing c/o> (the same-named .py) is not a file in the
    same directory.  The bare names '.pyc' / '.pyo' are look-alikes with an empty stem:
    unclear, never required, never forbidden when there is no '.py' beside them.
  MUST be deleted : orphans in clearly searched directories (no -k / --usecompiled)
  MAY  be deleted : orphans (incl. bare '.pyc') in directories that are searched and not
                    excluded for at least one search path
  everything else must be byte-for-byte and mtime/mode identical afterwards.
"""
import hashlib
import io
import itertools
import os
import random
import re
import shutil
import sys
import tempfile
import time

PROPERTY = "C15"

DEFAULT_IGNORED = ('.git', '.svn', 'CVS', '{arch}', '.arch-ids', '_darcs')
NEVER_ENTERED_BY_DISCOVERY = ('.git', 'node_modules', '__pycache__')
_ident = re.compile(r'[_a-zA-Z]\w*$').match


# ----------------------------------------------------------------------------
# materialise / snapshot

def _materialise(root, case):
    for d in case["dirs"]:
        os.makedirs(os.path.join(root, *d.split('/')), exist_ok=True)
    for i, f in enumerate(case["files"]):
        p = os.path.join(root, *f.split('/'))
        os.makedirs(os.path.dirname(p), exist_ok=True)
        with open(p, 'wb') as fh:
            fh.write(("content %d of %s\n" % (i, f)).encode())
        # distinct, old mtimes so that a rewrite would be visible
        t = 1_500_000_000 + i * 7
        os.utime(p, (t, t))


def _snapshot(root):
    snap = {}
    for dirpath, dirs, files in os.walk(root):
        rel = os.path.relpath(dirpath, root).replace(os.sep, '/')
        st = os.lstat(dirpath)
        snap[rel + '/'] = ('dir', st.st_mode)
        for f in files:
            p = os.path.join(dirpath, f)
            st = os.lstat(p)
            with open(p, 'rb') as fh:
                h = hashlib.sha1(fh.read()).hexdigest()
            key = f if rel == '.' else rel + '/' + f
            snap[key] = ('file', st.st_mode, st.st_size, st.st_mtime_ns, h)
    return snap


# ----------------------------------------------------------------------------
# reference classification

def _args(case):
    flags = set()
    paths = []
    ignored = set(DEFAULT_IGNORED)
    for grp in case["argv"]:
        if grp[0] in ('-k', '--keepbytecode'):
            flags.add('keep')
        elif grp[0] == '--usecompiled':
            flags.add('usecompiled')
        elif grp[0] in ('--path', '--test-path'):
            paths.append(os.path.normpath(grp[1]).replace(os.sep, '/'))
        elif grp[0] == '--ignore_dir':
            ignored.add(grp[1])
        else:
            raise ValueError(grp)
    return flags, paths, ignored


def _classify(case):
    """-> (must_delete, may_delete) sets of relative file names"""
    flags, paths, ignored = _args(case)
    if flags:
        return set(), set()
    files = set(case["files"])
    must, may = set(), set()
    for f in files:
        d, _, name = f.rpartition('/')
        if not (name.endswith('.pyc') or name.endswith('.pyo')):
            continue
        source = (d + '/' if d else '') + name[:-1]
        if source in files:
            continue  # same-named .py beside it
        bare = name in ('.pyc', '.pyo')
        dparts = d.split('/') if d else []
        clearly = possibly = False
        for sp in paths:
            sparts = [] if sp == '.' else sp.split('/')
            if dparts[:len(sparts)] != sparts:
                continue
            below = dparts[len(sparts):]
            if any(c == '__pycache__' or c in ignored for c in below):
                continue
            possibly = True
            # every directory below a search path is searched by the clean-up, whether or not test discovery would enter
            # it (non-identifier names, node_modules, .git when not ignored): the statement excepts __pycache__ and the
            # ignored directories only
            clearly = True
        if possibly:
            may.add(f)
        if clearly and not bare:
            must.add(f)
    return must, may


# ----------------------------------------------------------------------------
# running the real code

def _argv(root, case):
    argv = ['test']
    for grp in case["argv"]:
        if grp[0] in ('--path', '--test-path'):
            argv += [grp[0], os.path.normpath(os.path.join(root, *grp[1].split('/')))]
        else:
            argv += list(grp)
    return argv


def _check(case, stats=None):
    from zope.testrunner import find
    from zope.testrunner.options import get_options
    problems = []
    root = tempfile.mkdtemp(prefix='c15_')
    old_out, old_err = sys.stdout, sys.stderr
    try:
        _materialise(root, case)
        before = _snapshot(root)
        sys.stdout = io.StringIO()
        sys.stderr = io.StringIO()
        try:
            options = get_options(_argv(root, case), [])
            exc = None
            try:
                find.remove_stale_bytecode(options)
            except Exception as e:
                exc = e
        finally:
            sys.stdout, sys.stderr = old_out, old_err
        after = _snapshot(root)
        if exc is not None:
            problems.append(("stale-bytecode:exception:%s" % type(exc).__name__,
                             "remove_stale_bytecode raised %r" % (exc,)))
        flags, paths, ignored = _args(case)
        must, may = _classify(case)
        deleted = {k for k in before if k not in after}
        if stats is not None:
            stats["deleted"] += len(deleted)
            stats["cases_with_required_deletion"] += bool(must)
        created = {k for k in after if k not in before}
        changed = {k for k in before if k in after and before[k] != after[k]}
        if created:
            problems.append(("stale-bytecode:creates-files", "created %s" % sorted(created)))
        if changed:
            problems.append(("stale-bytecode:modifies-other-files",
                             "modified %s" % sorted(changed)))
        if flags and deleted:
            problems.append(("stale-bytecode:deletes-despite-%s" % '+'.join(sorted(flags)),
                             "deleted %s" % sorted(deleted)))
        elif not flags:
            for f in sorted(deleted - may):
                problems.append((_why_forbidden(f, case, paths, ignored),
                                 "deleted %r which the property protects" % f))
            for f in sorted(must - deleted):
                problems.append(("stale-bytecode:orphan-kept:%s" % _shape(f),
                                 "orphan %r in a searched source directory was not deleted"
                                 % f))
    finally:
        sys.stdout, sys.stderr = old_out, old_err
        shutil.rmtree(root, ignore_errors=True)
    # one key once
    seen = {}
    for k, s in problems:
        seen.setdefault(k, s)
    return list(seen.items())


def _shape(f):
    name = f.rpartition('/')[2]
    if name.endswith('.pyc'):
        return 'pyc'
    if name.endswith('.pyo'):
        return 'pyo'
    return 'other'


def _why_forbidden(f, case, paths, ignored):
    d, _, name = f.rpartition('/')
    files = set(case["files"])
    if f.endswith('/'):
        return "stale-bytecode:deletes-directory"
    if not (name.endswith('.pyc') or name.endswith('.pyo')):
        ext = name.rpartition('.')[2] if '.' in name else 'noext'
        return "stale-bytecode:deletes-non-bytecode-file:%s" % ext[:12]
    if (d + '/' if d else '') + name[:-1] in files:
        return "stale-bytecode:deletes-bytecode-with-source-beside"
    dparts = d.split('/') if d else []
    if '__pycache__' in dparts:
        return "stale-bytecode:deletes-inside-__pycache__"
    if any(c in ignored for c in dparts):
        return "stale-bytecode:deletes-inside-ignored-dir"
    return "stale-bytecode:deletes-outside-search-paths"


# ----------------------------------------------------------------------------
# case generation

FLAG_COMBOS = ([], [['-k']], [['--usecompiled']], [['--keepbytecode'], ['--usecompiled']])

# single-directory name universe (subsets enumerated exhaustively)
UNIVERSE = ('m.py', 'm.pyc', 'm.pyo', '.pyc', 'm.pyc.bak', 'M.PYC', 'pyc')
# directory contexts for the single directory, with the path configuration used
CONTEXTS = (
    ('.', None),                     # the search path itself
    ('pkg', None),                   # plain sub-directory
    ('pkg/sub/deep', None),          # nested
    ('__pycache__', None),
    ('pkg/__pycache__', None),
    ('pkg/__pycache__/inner', None),
    ('.svn', None),                  # default ignored dir
    ('pkg/CVS/x', None),
    ('build', 'build'),              # ignored via --ignore_dir build
    ('pkg/build/x', 'build'),
    ('my-dir', None),                # not an identifier: unclear
    ('node_modules', None),          # unclear
    ('outside', 'OUTSIDE'),          # not under any search path (search path is 'in')
)

LOOKALIKES = ('x.pyc.bak', '.pyc', '.pyo', 'pyc', 'pyo', 'X.PYC', 'Y.PYO', 'opyc', 'h.pycc',
              'f.pyc~', 'data.pyc.txt', 'README.txt', 'a.pyd', 'a.pyx', 'Makefile', 'n.py.orig')
BYTECODE = ('a.pyc', 'a.pyo', 'b.pyc', 'c.pyo', 'd.pyo', 'g.py.pyc', 'i.cpython-312.pyc',
            '__init__.pyc', 'tests.pyc', 'e.tar.pyo', '-.pyc', 'z z.pyc')
SOURCES = ('a.py', 'd.py', '__init__.py', 'tests.py', 'g.py', 'i.py', 'b.pyw', 'c.py.bak')
DIRNAMES = ('pkg', 'sub', 'tests', 'my-dir', '.hidden', 'node_modules', '__pycache__',
            '.git', '.svn', 'CVS', '_darcs', '{arch}', 'build', 'x.pyc', 'Pkg2', '_p', '3rd')


def _systematic():
    """single directory context x every subset of UNIVERSE x flag combos x option kind"""
    for (ctx, special), r in itertools.product(CONTEXTS, range(1 << len(UNIVERSE))):
        names = [UNIVERSE[i] for i in range(len(UNIVERSE)) if r >> i & 1]
        prefix = '' if ctx == '.' else ctx + '/'
        for fi, flags in enumerate(FLAG_COMBOS):
            # full subset enumeration without flags; with flags only when bytecode present
            if flags and not any(n.endswith(('.pyc', '.pyo')) for n in names):
                continue
            opt = '--path' if (r + fi) % 2 == 0 else '--test-path'
            if special == 'OUTSIDE':
                dirs = ['in', 'outside']
                argv = [[opt, 'in']]
                files = ['outside/' + n for n in names] + ['in/keep.py']
            else:
                dirs = [] if ctx == '.' else [ctx]
                argv = [[opt, '.']]
                if special:
                    argv.append(['--ignore_dir', special])
                files = [prefix + n for n in names]
            yield {"dirs": dirs, "files": files, "argv": argv + [list(f) for f in flags]}


def _kitchen_sink():
    """one tree with every directory kind holding every file group, x flags x path configs"""
    dirs = ['src', 'src/pkg', 'src/pkg/sub', 'src/pkg/__pycache__', 'src/pkg/.svn',
            'src/pkg/build', 'src/pkg/my-dir', 'src/node_modules', 'src/pkg/x.pyc',
            'other', 'other/pkg', 'src/pkg/sub/__pycache__/deep', 'src/pkg/CVS/below',
            'src-extra', 'src-extra/pkg', 'srcx']        # siblings whose path strings have 'src' as a proper prefix
    names = ('a.py', 'a.pyc', 'a.pyo', 'b.pyc', 'c.pyo', '.pyc', 'x.pyc.bak', 'X.PYC', 'pyc',
             'notes.txt')
    files = [d + '/' + n for d in dirs for n in names]
    pathsets = (
        [['--path', 'src']],
        [['--test-path', 'src']],
        [['--path', 'src'], ['--path', 'src']],
        [['--path', 'src'], ['--test-path', 'src/pkg']],
        [['--test-path', 'src/pkg/sub'], ['--path', 'other']],
        [['--path', 'src/pkg']],
        [['--path', 'other'], ['--test-path', 'other/pkg']],
        [['--path', '.']],
        [['--test-path', 'src/pkg/sub']],
        [['--path', 'src/pkg/my-dir']],
        [['--path', 'src'], ['--ignore_dir', 'build']],
        [['--path', 'src'], ['--ignore_dir', 'build'], ['--ignore_dir', 'sub']],
        # search directories that are string prefixes of each other without being nested, in both orders and spellings
        [['--path', 'src'], ['--path', 'src-extra']],
        [['--path', 'src-extra'], ['--test-path', 'src']],
        [['--test-path', 'src'], ['--test-path', 'srcx'], ['--path', 'src-extra/pkg']],
        [['--path', 'src/pkg'], ['--path', 'src'], ['--path', 'src-extra']],
    )
    for ps in pathsets:
        for flags in FLAG_COMBOS:
            yield {"dirs": dirs, "files": files, "argv": [list(g) for g in ps] +
                   [list(f) for f in flags]}


def _random_case(rnd):
    ndirs = rnd.randint(1, 7)
    dirs = []
    for _ in range(ndirs):
        parent = rnd.choice([''] + dirs) if dirs else ''
        depth = parent.count('/') + 1 if parent else 0
        if depth >= 4:
            parent = ''
        name = rnd.choice(DIRNAMES)
        d = (parent + '/' if parent else '') + name
        if d not in dirs:
            dirs.append(d)
    files = []
    for d in [''] + dirs:
        k = rnd.randint(0, 6)
        pool = list(BYTECODE) * 2 + list(SOURCES) + list(LOOKALIKES)
        for n in rnd.sample(pool, k):
            f = (d + '/' if d else '') + n
            if f not in files and f not in dirs:
                files.append(f)
    rnd.shuffle(files)
    # search paths: never inside __pycache__ / ignored directories (statement leaves room)
    ok = [d for d in dirs if not any(c == '__pycache__' or c in DEFAULT_IGNORED or c == 'build'
                                     for c in d.split('/'))]
    argv = []
    for _ in range(rnd.randint(1, 3)):
        argv.append([rnd.choice(('--path', '--test-path')), rnd.choice(['.'] * 2 + ok)])
    if rnd.random() < 0.3:
        argv.append(['--ignore_dir', 'build'])
    if rnd.random() < 0.1:
        argv.append(['--ignore_dir', rnd.choice(('pkg', 'sub', 'tests'))])
        # a search path below a now-ignored name would be unclear: drop such paths
        ign = argv[-1][1]
        argv = [g for g in argv if not (g[0] in ('--path', '--test-path') and
                                        ign in g[1].split('/'))] or [['--path', '.']] + argv[-1:]
        if not any(g[0] in ('--path', '--test-path') for g in argv):
            argv.insert(0, ['--path', '.'])
    r = rnd.random()
    if r < 0.12:
        argv.append(['-k'])
    elif r < 0.2:
        argv.append(['--usecompiled'])
    elif r < 0.24:
        argv += [['--keepbytecode'], ['--usecompiled']]
    rnd.shuffle(argv)
    return {"dirs": dirs, "files": files, "argv": argv}


def _nontrivial(case):
    return any(f.endswith(('.pyc', '.pyo')) for f in case["files"])


def _size(case):
    return (len(case["files"]), len(case["dirs"]), len(case["argv"]), str(case))


def run(budget_s, seed, tier):
    t0 = time.time()
    deadline = t0 + budget_s * 0.9
    rnd = random.Random(seed)
    cases = 0
    distinct = set()
    findings = {}
    samples = []
    stats = {"deleted": 0, "cases_with_required_deletion": 0}

    def do(case):
        nonlocal cases
        cases += 1
        if _nontrivial(case):
            distinct.add(repr(case))
        for key, summary in _check(case, stats):
            old = findings.get(key)
            if old is None or _size(case) < _size(old["case"]):
                findings[key] = {"key": key, "summary": summary, "case": case}

    sys_done = True
    n_sys = 0
    # the kitchen-sink tree (every directory kind x every file group x the path sets) is small: first; then the systematic part
    for case in itertools.chain(_kitchen_sink(), _systematic()):
        if time.time() > deadline:
            sys_done = False
            break
        do(case)
        n_sys += 1
        if n_sys in (700, 2500):
            samples.append(case)
    n_rand = 0
    cap = 3000 if tier == "quick" else 10 ** 9
    while time.time() < deadline and n_rand < cap:
        case = _random_case(rnd)
        do(case)
        n_rand += 1
        if len(samples) < 5 and n_rand % 211 == 1:
            samples.append(case)
    return {
        "cases": cases,
        "distinct": len(distinct),
        "rule": "a case is one temp tree + one option list, one real remove_stale_bytecode() "
                "call, full before/after snapshot (content hash, size, mtime, mode); "
                "non-trivial = the tree holds at least one *.pyc/*.pyo file; "
                "%d cases required at least one deletion, %d files were deleted in total"
                % (stats["cases_with_required_deletion"], stats["deleted"]),
        "exhaustive": sys_done,
        "bound": "systematic part %s (%d cases): %d directory contexts (search root, nested, "
                 "__pycache__, default-ignored, --ignore_dir, non-identifier, node_modules, "
                 "outside the search path) x all %d subsets of %s x {no flag, -k, --usecompiled, "
                 "both} x --path/--test-path, plus a kitchen-sink tree x 16 path sets (incl. sibling directories whose names are string prefixes of each other) "
                 "(duplicated/nested/overlapping) x 4 flag combos; then %d random trees "
                 "(<=8 dirs, depth<=4, <=6 files per dir)"
                 % ("complete" if sys_done else "INCOMPLETE (budget)", n_sys, len(CONTEXTS),
                    1 << len(UNIVERSE), list(UNIVERSE), n_rand),
        "samples": samples[:5],
        "findings": sorted(findings.values(), key=lambda f: f["key"]),
    }


def replay(case):
    problems = _check(case)
    if problems:
        return True, "; ".join("%s: %s" % p for p in problems)
    return False, "no violation on this case"
