"""C10 - layer run order: deterministic, unit tests first, bases first, once each.

Bounded oracle on the REAL code, two observation points:

* ``direct``: ``zope.testrunner.runner.order_by_bases`` called on generated layer
  graphs, once per permutation of the input list;
* ``e2e``: the real runner driven in-process (see layerworld.py) on worlds whose
  test groups are discovered in every (or sampled) order; the run order is the
  sequence of layers of the executed tests, cross-checked against the
  ``Running X tests:`` headers (each exactly once).

Checked, exactly as the statement says: the order is the same for every
discovery / input / ``--layer`` option order and for every PYTHONHASHSEED (child
interpreters with other seeds recompute a batch of the same cases); the unit-test
layer is first; no layer comes before one of its (transitive) bases that is also
in the run; every selected layer appears exactly once, as one contiguous group.
"""
import itertools
import json
import os
import random
import subprocess
import sys
import time

from . import _boot
from . import layerworld as lw

PROPERTY = 'C10'
UNIT = lw.UNIT
NAME_POOLS = (('A', 'B', 'C', 'D', 'E'), ('Z', 'a', 'Za', 'ZA', '_'))
HASH_SEEDS = ('1', '2', '4242')


# --------------------------------------------------------------------------
# running one case
# --------------------------------------------------------------------------

def _perms(items, limit, rng):
    """all permutations if there are at most `limit`, else identity, reverse
    and seeded random ones (limit in total)"""
    items = list(items)
    n = len(items)
    total = 1
    for i in range(2, n + 1):
        total *= i
    if total <= limit:
        return [list(p) for p in itertools.permutations(items)]
    out = [items, items[::-1]]
    while len(out) < limit:
        p = items[:]
        rng.shuffle(p)
        if p not in out:
            out.append(p)
    return out


def direct_orders(case, only_first=False):
    """-> list of (input order, result) with layers given by name"""
    R = _boot.boot()
    import zope.testrunner.layer
    unit = zope.testrunner.layer.UnitTests
    world = lw.World({'layers': case['layers'], 'groups': []})
    objs = {n: world.layers[n] for n in world.layers}
    objs[UNIT] = unit
    names = {id(o): n for n, o in objs.items()}
    rng = random.Random(case.get('perm_seed', 0))
    perms = _perms(case['input'], case.get('max_perms', 24), rng)
    if only_first:
        perms = perms[:1]
    out = []
    for perm in perms:
        res = R.order_by_bases([objs[n] for n in perm])
        out.append((perm, [names.get(id(o), '?' + repr(o)) for o in res]))
    return world, out


def e2e_orders(case, only_first=False):
    """-> world of the first run, list of (group order, observed dict)"""
    spec = case['spec']
    rng = random.Random(case.get('perm_seed', 0))
    idx = list(range(len(spec['groups'])))
    perms = _perms(idx, case.get('max_perms', 24), rng)
    arg_variants = [list(spec.get('args') or ())]
    if case.get('permute_layer_options'):
        a = arg_variants[0]
        pairs = [a[i:i + 2] for i in range(0, len(a), 2)]
        arg_variants.append([x for p in reversed(pairs) for x in p])
    if only_first:
        perms, arg_variants = perms[:1], arg_variants[:1]
    out = []
    world0 = None
    for args in arg_variants:
        for perm in perms:
            s = dict(spec, groups=[spec['groups'][i] for i in perm],
                     args=args)
            for gi, g in enumerate(s['groups']):
                g.setdefault('cls', 'T%d' % spec['groups'].index(g))
            world = lw.run_world(s)
            world0 = world0 or world
            ev = lw.events(world)
            seq = [world.tests[e[1]]['layer'] for e in ev
                   if e[0] == 'run.enter']
            comp = [k for k, _ in itertools.groupby(seq)]
            heads = [e[1] for e in ev if e[0] == 'out.running']
            # layers handed to resume_tests (after a tearDown raised NotImplementedError) run in child processes, in the
            # order handed over: they continue the run order (the stub records the names instead of spawning)
            short = {world.full(ld['name']): ld['name'] for ld in s['layers']}
            short[UNIT] = UNIT
            resumed = [short.get(n, n) for e in ev if e[0] == 'resume' for n in e[1]]
            comp = comp + resumed
            # (the parent has already printed the header of the layer it then could not start: count each name once)
            heads = heads + [n for n in resumed if n not in heads]
            out.append(({'groups': perm, 'args': args},
                        {'order': comp, 'headers': heads,
                         'crash': world.crash}))
    return world0, out


def _order_checks(world, order, selected, prefix, viol, where):
    if len(order) != len(set(order)):
        dup = sorted({n for n in order if order.count(n) > 1})
        viol.append((prefix + ':layer-appears-twice',
                     '%s: %s more than once in %s' % (where, dup, order)))
    if set(order) != set(selected):
        miss = sorted(set(selected) - set(order))
        extra = sorted(set(order) - set(selected))
        viol.append((prefix + (':selected-layer-missing' if miss else
                               ':unselected-layer-present'),
                     '%s: missing %s, extra %s in %s'
                     % (where, miss, extra, order)))
    if UNIT in order and order[0] != UNIT:
        viol.append((prefix + ':unit-layer-not-first',
                     '%s: %s' % (where, order)))
    for i in range(len(order)):
        for j in range(i + 1, len(order)):
            a, b = order[i], order[j]
            if a != b and a != UNIT and b != UNIT and b in world.stack(a):
                viol.append((prefix + ':layer-before-its-base',
                             '%s: %s before its base %s in %s'
                             % (where, a, b, order)))


def _alias_run(a_first):
    """two registered layer names denoting ONE layer object (a dotted-name alias given as a string next to the class),
    discovered in the given order; -> the order in which the two groups' tests ran"""
    import io
    import shutil
    import tempfile
    from contextlib import redirect_stdout, redirect_stderr
    import zope.testrunner
    d = tempfile.mkdtemp(prefix='c10alias')
    pkg = 'c10alias_%d' % (abs(hash(d)) % 100000)
    try:
        os.mkdir(os.path.join(d, pkg))
        w = lambda n, t: open(os.path.join(d, pkg, n), 'w').write(t)
        w('__init__.py', '')
        w('layers.py', 'class L:\n    @classmethod\n    def setUp(cls): pass\n    @classmethod\n    def tearDown(cls): pass\n')
        w('alias.py', 'from %s.layers import L as L2\n' % pkg)
        w('tests.py', 'import unittest\nfrom %s.layers import L\nRAN = []\n'
          'class A(unittest.TestCase):\n    layer = L\n    def test_a(self): RAN.append("a")\n'
          'class B(unittest.TestCase):\n    layer = %r\n    def test_b(self): RAN.append("b")\n'
          'def test_suite():\n    l = unittest.defaultTestLoader.loadTestsFromTestCase\n'
          '    return unittest.TestSuite([l(A), l(B)] if %r else [l(B), l(A)])\n'
          % (pkg, pkg + '.alias.L2', bool(a_first)))
        out = io.StringIO()
        with redirect_stdout(out), redirect_stderr(out):
            zope.testrunner.run_internal(['--path', d, '--tests-pattern', '^tests$'], ['run'])
        return list(sys.modules[pkg + '.tests'].RAN)
    finally:
        for m in [m for m in sys.modules if m == pkg or m.startswith(pkg + '.')]:
            del sys.modules[m]
        shutil.rmtree(d, ignore_errors=True)


def check_case(case):
    """-> (executions, [(key, summary)])"""
    viol = []
    if case['mode'] == 'alias':
        first, second = _alias_run(True), _alias_run(False)
        if sorted(first) != ['a', 'b'] or sorted(second) != ['a', 'b']:
            viol.append(('alias:group-not-run-exactly-once', 'ran %s / %s' % (first, second)))
        elif first != second:
            viol.append(('alias:depends-on-discovery-order',
                         'two names of one layer: groups ran as %s when discovered A,B but %s when discovered B,A' % (first, second)))
        return 2, viol
    if case['mode'] == 'direct':
        world, outs = direct_orders(case)
        first = outs[0][1]
        for perm, res in outs:
            _order_checks(world, res, case['input'], 'direct', viol,
                          'order_by_bases(%s)' % perm)
            if res != first:
                viol.append(('direct:depends-on-input-order',
                             'order_by_bases(%s) = %s but order_by_bases(%s) '
                             '= %s' % (outs[0][0], first, perm, res)))
        return len(outs), _dedupe(viol)
    world, outs = e2e_orders(case)
    spec = case['spec']
    owners = {g['layer'] if g['layer'] is not None else UNIT
              for g in spec['groups']}
    full = {world.full(o): o for o in owners}
    selected = {full[f] for f in lw.selected_by(spec.get('args') or (), full)}
    first = outs[0][1]['order']
    for how, obs in outs:
        where = 'run with groups %s args %s' % (how['groups'], how['args'])
        if obs['crash']:
            viol.append(('e2e:runner-crash', where + ':\n' + obs['crash']))
            continue
        _order_checks(world, obs['order'], selected, 'e2e', viol, where)
        heads = obs['headers']
        if sorted(heads) != sorted(set(heads)) or set(heads) != selected:
            viol.append(('e2e:running-header-not-exactly-once-per-layer',
                         '%s: headers %s, selected %s'
                         % (where, heads, sorted(selected))))
        if obs['order'] != first:
            key = ('e2e:depends-on-option-order'
                   if how['args'] != outs[0][0]['args']
                   else 'e2e:depends-on-discovery-order')
            viol.append((key, 'order %s for %s, but %s for %s'
                         % (first, outs[0][0], obs['order'], how)))
    return len(outs), _dedupe(viol)


def _dedupe(viol):
    seen, out = set(), []
    for k, s in viol:
        if k not in seen:
            seen.add(k)
            out.append((k, s))
    return out


def canonical_order(case):
    """the order for the case's own (first) permutation - what a child
    interpreter with another hash seed recomputes"""
    if case['mode'] == 'direct':
        return direct_orders(case, only_first=True)[1][0][1]
    return e2e_orders(case, only_first=True)[1][0][1]['order']


def child_main():
    _boot.boot()
    batch = json.load(sys.stdin)
    sys.__stdout__.write('@@ORDERS@@' + json.dumps(
        [canonical_order(c) for c in batch]) + '\n')


def hashseed_check(batch, seeds, deadline, findings):
    """recompute the batch under other PYTHONHASHSEEDs; -> executions"""
    if not batch:
        return 0, []
    mine = [canonical_order(c) for c in batch]
    execs = len(batch)
    used = []
    root = os.path.dirname(os.path.dirname(os.path.abspath(__file__)))
    code = ("import sys; sys.path.insert(0, %r); from native import c10; "
            "c10.child_main()" % root)
    for hs in seeds:
        left = deadline - time.time()
        if left < 2.0:
            break
        env = dict(os.environ, PYTHONHASHSEED=hs)
        try:
            p = subprocess.run([sys.executable, '-W', 'ignore', '-c', code],
                               input=json.dumps(batch), text=True, env=env,
                               capture_output=True, timeout=left)
        except subprocess.TimeoutExpired:
            break
        if '@@ORDERS@@' not in p.stdout:
            raise RuntimeError('hash-seed child failed: %s' % p.stderr[-2000:])
        theirs = json.loads(p.stdout.split('@@ORDERS@@')[1])
        used.append(hs)
        execs += len(batch)
        for c, a, b in zip(batch, mine, theirs):
            if a != b:
                findings.add('%s:depends-on-hash-seed' % c['mode'],
                             'order %s here, %s under PYTHONHASHSEED=%s'
                             % (a, b, hs), dict(c, hashseed=hs),
                             size=_size(c))
    return execs, used


# --------------------------------------------------------------------------
# case generation
# --------------------------------------------------------------------------

def _layers(graph, names, kinds):
    return lw.layer_specs(graph, names, kinds, [{}] * len(graph))


def _kind_choices(graph):
    out = []
    if lw.class_buildable(graph):
        out.append(['class'] * len(graph))
    out.append(['instance'] * len(graph))
    return out


def _subsets(n):
    for k in range(1, n + 1):
        yield from itertools.combinations(range(n), k)


def direct_case(graph, names, kinds, owners, unit, max_perms=24, seed=0):
    inp = [names[o] for o in owners] + ([UNIT] if unit else [])
    return {'mode': 'direct', 'layers': _layers(graph, names, kinds),
            'input': inp, 'max_perms': max_perms, 'perm_seed': seed}


def e2e_case(graph, names, kinds, owner_groups, unit, args=(), max_perms=24,
             seed=0, permute_layer_options=False):
    """owner_groups: list of node indices, one test group each (a node may
    appear more than once: its tests are then discovered in separate places)"""
    groups = [{'layer': names[o], 'via': 'suite' if j % 2 else 'class',
               'tests': ['pass', 'pass']} for j, o in enumerate(owner_groups)]
    if unit:
        groups.append({'layer': None, 'tests': ['pass']})
    for gi, g in enumerate(groups):
        g['cls'] = 'T%d' % gi
    case = {'mode': 'e2e',
            'spec': {'layers': _layers(graph, names, kinds), 'groups': groups,
                     'args': list(args)},
            'max_perms': max_perms, 'perm_seed': seed}
    if permute_layer_options:
        case['permute_layer_options'] = True
    return case


def stage_e2e_ntd():
    """worlds in which one layer's tearDown raises NotImplementedError, so that the rest of the run is handed to
    subprocesses: every DAG on 3..4 layers, the first / each root layer refusing its tearDown, all layers owning tests"""
    for n in (3, 4):
        for graph in lw.all_dags(n):
            for kinds in _kind_choices(graph)[:1]:
                for names in list(itertools.permutations(NAME_POOLS[0][:n]))[:6]:
                    for bad in range(n):
                        if graph[bad]:
                            continue                      # a root layer refuses (the others do not build on it or do)
                        case = e2e_case(graph, names, kinds, list(range(n)), True, max_perms=4)
                        case['spec']['layers'][bad]['hooks'] = {'tearDown': 'nie'}
                        yield case


def stage_direct(max_n):
    """all DAGs <= max_n layers x {class, instance} x every assignment of the
    names of 2 pools to the nodes x every non-empty subset of layers x unit
    layer in/out x every permutation of the input list"""
    for n in range(1, max_n + 1):
        for graph in lw.all_dags(n):
            for kinds in _kind_choices(graph):
                for pool in NAME_POOLS:
                    for names in itertools.permutations(pool[:n]):
                        for owners in _subsets(n):
                            for unit in (False, True):
                                yield direct_case(graph, names, kinds, owners,
                                                  unit)


def stage_direct4():
    """all DAGs with 4 layers x kinds x all namings (pool 1) x non-empty subsets
    + unit layer; <=24 input permutations (all for <=3 inputs + unit)"""
    for graph in lw.all_dags(4):
        for kinds in _kind_choices(graph):
            for names in itertools.permutations(NAME_POOLS[0][:4]):
                for owners in _subsets(4):
                    yield direct_case(graph, names, kinds, owners, True)


def stage_e2e(max_n):
    """all DAGs <= max_n layers x {class, instance} x every assignment of the
    names A.. to the nodes x every non-empty set of test-owning layers, unit
    tests present; every order of the test groups"""
    for n in range(1, max_n + 1):
        for graph in lw.all_dags(n):
            for kinds in _kind_choices(graph):
                for names in itertools.permutations(NAME_POOLS[0][:n]):
                    for owners in _subsets(n):
                        yield e2e_case(graph, names, kinds, owners, True)


def random_case(rng):
    n = rng.choice((3, 4, 4, 5, 5))
    graph = lw.random_dag(rng, n)
    if rng.random() < 0.5 and lw.class_buildable(graph):
        kinds = ['class'] * n
    else:
        kinds = ['instance'] * n
        if rng.random() < 0.4:
            cut = rng.randrange(n)
            cand = ['class'] * cut + ['instance'] * (n - cut)
            if lw.kinds_ok(graph, cand) and lw.class_buildable(graph[:cut]):
                kinds = cand
    names = list(rng.choice(NAME_POOLS)[:n])
    rng.shuffle(names)
    owners = [i for i in range(n) if rng.random() < 0.7] or [n - 1]
    rng.shuffle(owners)
    unit = rng.random() < 0.6
    seed = rng.randrange(10 ** 6)
    if rng.random() < 0.5:
        return direct_case(graph, names, kinds, owners, unit, max_perms=12,
                           seed=seed)
    groups = list(owners)
    for o in owners:                    # tests of one layer in several places
        if rng.random() < 0.3:
            groups.insert(rng.randrange(len(groups) + 1), o)
    args, plo = [], False
    if rng.random() < 0.3:
        chosen = rng.sample(owners, min(len(owners), rng.choice((1, 2, 2))))
        for o in chosen:
            args += ['--layer', r'^lw\.%s$' % names[o]]
        if unit and rng.random() < 0.5:
            args += ['--layer', 'UnitTests$']
        plo = len(args) > 2
    return e2e_case(graph, names, kinds, groups, unit, args=args, max_perms=6,
                    seed=seed, permute_layer_options=plo)


def _size(case):
    if case['mode'] == 'alias':
        return (1, 2, 0, 0)
    if case['mode'] == 'direct':
        return (len(case['layers']), len(case['input']), 0, 0)
    return lw.spec_size(case['spec'])


def _nontrivial(case):
    if case['mode'] == 'alias':
        return True
    if case['mode'] == 'direct':
        return len(case['input']) >= 2
    owners = {g['layer'] for g in case['spec']['groups']}
    return len(owners) >= 2


# --------------------------------------------------------------------------
# interface
# --------------------------------------------------------------------------

def run(budget_s, seed, tier='quick'):
    t0 = time.time()
    rng = random.Random(seed)
    findings = lw.Findings()
    cases = 0
    distinct = set()
    samples = []
    hash_batch = []
    hs_reserve = min(8.0, budget_s * 0.25)
    hard = t0 + (budget_s - hs_reserve) * 0.80
    exhaustive = True
    done = {}
    stages = [('alias', iter([{'mode': 'alias'}])), ('ntd', itertools.islice(stage_e2e_ntd(), 40 if tier == 'quick' else 100000)),
              ('direct', stage_direct(3)), ('e2e', stage_e2e(3))]
    extra = ''
    if tier != 'quick':
        stages.append(('direct4', stage_direct4()))
        extra = ('thorough tier adds: direct, all 160 DAGs with 4 layers x '
                 '{class, instance} x all 24 namings x every non-empty subset '
                 '+ unit layer, <=24 input permutations each. ')

    def one(case, stage, k):
        nonlocal cases
        n, viol = check_case(case)
        cases += n
        if _nontrivial(case):
            distinct.add(json.dumps(case, sort_keys=True))
            if case['mode'] != 'alias' and ((stage == 'random' and len(hash_batch) < 400) or (
                    stage != 'random' and k % 40 == 0)):
                hash_batch.append(case)
        for key, summary in viol:
            findings.add(key, summary, case, size=_size(case))

    for sname, gen in stages:
        k = 0
        for case in gen:
            if time.time() > hard:
                exhaustive = False
                break
            one(case, sname, k)
            k += 1
            if len(samples) < 4 and k in (60, 900):
                samples.append(case)
        done[sname] = k
    k = 0
    end_random = t0 + (budget_s - hs_reserve) * 0.97
    while time.time() < end_random:
        case = random_case(rng)
        try:
            one(case, 'random', k)
        except TypeError:
            continue                # inconsistent MRO: not a buildable world
        k += 1
        if len(samples) < 5 and k == 10:
            samples.append(case)
    done['random'] = k
    n, used = hashseed_check(hash_batch, HASH_SEEDS,
                             t0 + budget_s * 0.97, findings)
    cases += n
    done['hashseed'] = '%d cases x seeds %s' % (len(hash_batch), used)
    return {
        'cases': cases,
        'distinct': len(distinct),
        'rule': 'distinct (graph, naming, layer kinds, set of layers to order '
                '/ test groups, options) descriptions with at least two '
                'layers to order; a case execution is one order_by_bases call '
                'or one Runner.run (each permutation counts)',
        'exhaustive': exhaustive,
        'bound': 'exhaustive part: direct order_by_bases on all DAGs (ordered '
                 'bases) with <=3 layers x {class, instance} x every '
                 'assignment of names from 2 pools x every non-empty subset '
                 'of layers x unit layer in/out x every input permutation; '
                 'end-to-end runs on all DAGs <=3 layers x {class, instance} '
                 'x every naming x every non-empty owner set (+ unit tests) x '
                 'every discovery order of the test groups; worlds on 3-4 layers in '
                 'which a root layer refuses its tearDown (NotImplementedError) so '
                 'that the remaining layers are handed to subprocesses (the order '
                 'handed over continues the run order; first 40 in the quick tier). '
                 + extra + 'Then seeded '
                 'random cases with 3-5 layers (direct: <=12 input '
                 'permutations; e2e: layers with tests in several places, '
                 '--layer selections with permuted option order, <=6 '
                 'discovery orders). A sample of all of these is recomputed '
                 'in child interpreters under PYTHONHASHSEED %s (own seed: '
                 '%s). Executions per stage: %s'
                 % (list(HASH_SEEDS),
                    os.environ.get('PYTHONHASHSEED', 'random'), done),
        'samples': samples[:5],
        'findings': findings.as_list(),
    }


def replay(case):
    case = dict(case)
    hs = case.pop('hashseed', None)
    n, viol = check_case(case)
    if hs is not None:
        f = lw.Findings()
        hashseed_check([case], (hs,), time.time() + 60, f)
        viol = viol + [(x['key'], x['summary']) for x in f.as_list()]
    if viol:
        return True, '; '.join('%s: %s' % v for v in viol)
    return False, 'no C10 violation on this case'
