"""Shared bounded scenario (C01, C03, C06, C10): which layers a CHILD process keeps.

A child is started with ``--resume-layer NAME`` for exactly one entry of the parent's layer order; the parent relies on
the child restricting itself to the layer registered under exactly that name (string equality).  The real
``Filter.global_setup`` is called on a stub runner whose registry holds NAME together with *confusable* names:
names of which NAME is a suffix / prefix / substring, names that NAME matches when read as a regular expression
('a.b' vs 'aXb'), and names containing regular-expression metacharacters (layer *instances* may have any __name__).
Expected: exactly the entry NAME stays (or, when NAME is not registered, nothing stays and one error is recorded).
Never counted as proved: a fixed catalogue plus every pair of a small alphabet of name shapes.
"""
import io
import itertools
import types

FAMILIES = {
    'suffix': ['zlay.L', 'pa.zlay.L', 'pb.zlay.L'],
    'prefix': ['pkg.layers.Web', 'pkg.layers.WebAdmin', 'Layer1', 'Layer11'],
    'substring': ['a.Web', 'x.a.WebAdmin.y'],
    'dot-wildcard': ['a.b', 'aXb', 'a.b.c', 'aXbXc'],
    'metachar': ['Browser(chrome)', 'db[pg]', 'c++', 'L*', 'opt?', 'a|b', 'a', 'b', 'x^y', 'cost$', '{m}', 'back\\slash'],
    'case': ['pkg.Layer', 'pkg.layer'],
    'empty-ish': ['L', 'LL', ''],
}


class _Out:
    def __init__(self):
        self.errors = []

    def error_with_banner(self, msg):
        self.errors.append(msg)

    def info(self, msg):
        pass

    def __getattr__(self, name):
        return lambda *a, **k: None


def check_case(case):
    """case = {'extra': 'childsel', 'names': [...], 'resume': NAME} -> list of (key, summary)"""
    from zope.testrunner.filter import Filter
    names, resume = case['names'], case['resume']
    out = _Out()
    registry = {n: ['tests of %s' % n] for n in names}
    options = types.SimpleNamespace(resume_layer=resume, layer=None, unit=False, non_unit=False, verbose=0, all=False,
                                    at_level=1, only_level=None, output=out, test=[], module=[])
    runner = types.SimpleNamespace(options=options, tests_by_layer_name=registry, errors=[])
    f = Filter(runner)
    try:
        f.global_setup()
    except Exception as e:        # noqa: BLE001 - reported as a finding
        return [('child-selection:%s:raises:%s' % (case.get('family', '?'), type(e).__name__),
                 'Filter.global_setup raised %r in a child resumed for %r among %r' % (e, resume, names))]
    kept = sorted(runner.tests_by_layer_name)
    want = [resume] if resume in names else []
    v = []
    if kept != want:
        what = 'extra' if set(want) <= set(kept) else 'missing'
        v.append(('child-selection:%s:%s' % (case.get('family', '?'), what),
                  'a child started with --resume-layer %r keeps the layers %r of %r; it must keep exactly %r'
                  % (resume, kept, sorted(names), want)))
    if not want and not runner.errors:
        v.append(('child-selection:%s:no-error-for-unknown-layer' % case.get('family', '?'),
                  'a child resumed for the unregistered layer %r recorded no error' % (resume,)))
    return v


def cases():
    for fam, names in FAMILIES.items():
        for resume in names:
            yield {'extra': 'childsel', 'family': fam, 'names': names, 'resume': resume}
        yield {'extra': 'childsel', 'family': fam, 'names': names[1:], 'resume': names[0]}      # resumed name not registered
    shapes = ['L', 'L1', 'p.L', 'p.L1', 'q.p.L', 'L.x', 'pXL', '(L)', 'L+', '[L]', 'L$', '^L']
    for a, b in itertools.permutations(shapes, 2):
        yield {'extra': 'childsel', 'family': 'pairs', 'names': [a, b], 'resume': a}


def run_extra(findings_add):
    n = 0
    for case in cases():
        n += 1
        for key, summary in check_case(case):
            findings_add(key, summary, case)
    return n


def replay(case):
    v = check_case(case)
    if v:
        return True, '; '.join('%s: %s' % x for x in v)
    return False, 'the child keeps exactly its own layer in this case'
