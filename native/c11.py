"""C11 - shuffle is a seed-determined permutation inside each layer.

Oracle: the REAL ``shuffle.Shuffle`` feature (directly on a stub runner, and end to
end through ``Runner`` runs, ``--list-tests``, ``--layer`` filtering, ``-j N`` and
resumed layers in real child processes) against an independent re-implementation
of the documented algorithm (``selworld.ref_shuffle``: ``random.Random(seed)``,
``seed(seed, version=1)``, layers in sorted name order, explicit Fisher-Yates on
``rng.random()``) - this replaces "on every supported Python version", which
cannot be observed here.

Case kinds:
  direct  {sizes, seed, order}   Shuffle.global_setup()/report() on a stub runner with
                                 len(sizes) layers of the given sizes registered in
                                 the given order; seed null = clock seed
  e2e     {world, opts}          in-process Runner: run, --list-tests (also with -j 2),
                                 run with a --layer filter, re-run; opts without seed:
                                 re-run with the reported seed
  real    {world, opts}          real modules, the runner in its own process group;
                                 -j N / resumed layers execute in real children
"""
import itertools
import random
import time
import types
import unittest

from native import selworld as W

PROPERTY = "C11"


class _T(unittest.TestCase):
    def __init__(self, name):
        unittest.TestCase.__init__(self, 'runTest')
        self.name = name

    def runTest(self):
        pass

    def __str__(self):
        return self.name


def check_case(case):
    kind = case['kind']
    if kind == 'direct':
        return _check_direct(case)
    if kind == 'e2e':
        return _check_e2e(case['world'], case['opts'])
    if kind == 'real':
        return _check_real(case['world'], case['opts'])
    raise ValueError(kind)


def _shape(sizes):
    return 'one-layer' if len(sizes) == 1 else 'several-layers'


def _check_direct(case):
    from zope.testrunner.shuffle import Shuffle
    sizes, seed, order = case['sizes'], case['seed'], case.get('order')
    names = ['sel.L%d' % i for i in range(len(sizes))]
    orig = {n: ['%s.t%d' % (n, k) for k in range(sz)]
            for n, sz in zip(names, sizes)}
    reg = [names[i] for i in order] if order else names
    lines = []
    out = types.SimpleNamespace(info=lines.append)
    runner = types.SimpleNamespace(
        options=types.SimpleNamespace(shuffle=True, shuffle_seed=seed, output=out),
        tests_by_layer_name={n: unittest.TestSuite([_T(t) for t in orig[n]])
                             for n in reg})
    feature = Shuffle(runner)
    feature.global_setup()
    feature.report()
    got = {n: [str(t) for t in s] for n, s in runner.tests_by_layer_name.items()}
    v = []
    sh = _shape(sizes)
    if sorted(got) != sorted(orig):
        v.append(('shuffle:direct:layers-changed', '%r -> %r' % (sorted(orig),
                                                                 sorted(got))))
        return v
    for n in names:
        if sorted(got[n]) != sorted(orig[n]):
            foreign = [t for t in got[n] if not t.startswith(n + '.')]
            v.append(('shuffle:direct:%s:%s' % (
                'crosses-layers' if foreign else 'not-a-permutation', sh),
                'layer %s: %r -> %r (seed %r)' % (n, orig[n], got[n], seed)))
    seeds = W.reported_seeds('\n'.join(lines))
    if len(seeds) != 1 or (seed is not None and seeds[0] != seed):
        v.append(('shuffle:direct:seed-not-reported',
                  'seed %r, report lines %r' % (seed, lines)))
        return v
    want = W.ref_shuffle(orig, seeds[0])
    if not v and got != want:
        v.append(('shuffle:direct:%s:%s' % (
            'differs-from-documented-algorithm' if seed is not None
            else 'clock-seed:reported-seed-does-not-reproduce', sh),
            'seed %r sizes %r registered %r: got %r, documented algorithm gives %r'
            % (seeds[0], sizes, reg, got, want)))
    return v


def _ran_by_layer(world, events):
    own = {name: layer for name, layer, _lv, _m in W.flatten(world)}
    ran = {}
    for _pid, name, _tsu, _up in W.executions(events):
        ran.setdefault(own[name], []).append(name)
    return ran


def _listed(out):
    return {layer: names for layer, names in W.parse_listing(out) if names}


def _cmp(v, key, what, got, want, opts):
    if got != want:
        if {k: sorted(x) for k, x in got.items()} != \
                {k: sorted(x) for k, x in want.items()}:
            key += ':set-differs'
        v.append((key, '%s: got %r, expected %r (argv %r)'
                  % (what, got, want, W.argv(opts, 'P')[3:])))


def _check_e2e(world, opts):
    assert opts.get('shuffle')
    v = []
    events, out, _r = W.run_inproc(world, opts)
    ran = _ran_by_layer(world, events)
    seeds = sorted(set(W.reported_seeds(out)))
    seeded = opts.get('seed') is not None
    if len(seeds) != 1 or (seeded and seeds != [opts['seed']]):
        v.append(('shuffle:e2e:seed-not-reported',
                  'seeds reported %r for argv %r' % (seeds, W.argv(opts, 'P')[3:])))
        return v
    o = dict(opts, seed=seeds[0])
    want = W.expected(world, o)
    tag = 'explicit-seed' if seeded else 'clock-seed'
    _cmp(v, 'shuffle:e2e:%s:run-order-differs-from-documented' % tag,
         'run', ran, want, opts)
    # re-run with the (reported) seed
    events2, out2, _r = W.run_inproc(world, o)
    _cmp(v, 'shuffle:e2e:%s:rerun-with-reported-seed-differs' % tag,
         're-run', _ran_by_layer(world, events2), ran, o)
    # --list-tests, also with -j 2 (no children are started for a listing)
    for extra in ({}, {'j': 2}):
        ev3, out3, _r = W.run_inproc(world, dict(o, **extra), list_tests=True)
        _cmp(v, 'shuffle:e2e:list-tests-order-differs%s' % (':j' if extra else ''),
             'listing', _listed(out3), ran, dict(o, **extra))
    # with --layer filtering: each remaining layer keeps its order
    for lname in sorted(ran):
        pat = lname.split('.')[-1] + '$'
        if opts.get('layer'):
            break
        o4 = dict(o, layer=[pat])
        ev4, out4, _r = W.run_inproc(world, o4)
        ran4 = _ran_by_layer(world, ev4)
        want4 = {k: x for k, x in ran.items() if W.layer_kept(k, o4)}
        _cmp(v, 'shuffle:e2e:layer-filter-changes-order', '--layer ' + pat,
             ran4, want4, o4)
        if len(world['layers']) > 2:     # larger worlds: one filtered run only
            break
    return v


def _check_real(world, opts):
    assert opts.get('shuffle')
    v = []
    mode = 'j' if opts.get('j') else 'resumed'
    with W.RealWorld(world) as rw:
        events, out, _r = rw.run(opts)
    ran = _ran_by_layer(world, events)
    pids = {p for p, k, _n in events if k == 'test'}
    seeds = sorted(set(W.reported_seeds(out)))
    if not seeds:
        v.append(('shuffle:children:%s:seed-not-reported' % mode, out[-300:]))
        return v
    if opts.get('seed') is not None:
        if seeds != [opts['seed']]:
            v.append(('shuffle:children:%s:other-seed-reported' % mode,
                      'seeds %r, given %r' % (seeds, opts['seed'])))
        want = W.expected(world, opts, real=True)
        _cmp(v, 'shuffle:children:%s:explicit-seed:order-differs' % mode,
             'run in %d processes' % len(pids), ran, want, opts)
        return v
    # clock seed: some reported seed has to reproduce the order of the whole run
    wants = {s: W.expected(world, dict(opts, seed=s), real=True) for s in seeds}
    if not any(w == ran for w in wants.values()):
        unordered = {k: sorted(x) for k, x in ran.items()}
        if any({k: sorted(x) for k, x in w.items()} != unordered
               for w in wants.values()):
            v.append(('shuffle:children:%s:clock-seed:set-differs' % mode,
                      'ran %r' % ran))
        else:
            # one defect whatever made the runner start children (-j or resume)
            v.append((
                'shuffle:clock-seed:children-reseed-from-clock',
                'mode %s: %d processes reported %d different seeds %r; no reported seed '
                'reproduces the executed order %r (argv %r): the generated seed '
                'is not passed to the child processes'
                % (mode, len(pids), len(seeds), seeds, ran,
                   W.argv(opts, 'P')[3:])))
    return v


# ---------------------------------------------------------------------------
# enumeration

SEEDS = list(range(-3, 41))
BIG_SEEDS = [2 ** 31 - 1, 2 ** 31, 2 ** 32 + 5, 2 ** 64 + 1, -2 ** 40, 10 ** 30,
             458408972615]


def _gen_exhaustive():
    for n in (1, 2, 3):
        for sizes in itertools.product(range(5), repeat=n):
            for seed in SEEDS:
                yield {'kind': 'direct', 'sizes': list(sizes), 'seed': seed}
    # registration order must not matter
    for sizes in ([2, 3], [3, 3, 3], [4, 0, 2], [1, 5, 2]):
        for order in itertools.permutations(range(len(sizes))):
            for seed in (0, 1, 42):
                yield {'kind': 'direct', 'sizes': sizes, 'seed': seed,
                       'order': list(order)}
    for seed in BIG_SEEDS:
        for sizes in ([6], [3, 4], [10, 1, 7]):
            yield {'kind': 'direct', 'sizes': sizes, 'seed': seed}
    for sizes in ([0], [1], [5], [2, 3], [4, 4, 4]):
        yield {'kind': 'direct', 'sizes': sizes, 'seed': None}


def _flat_world(layer_specs, per_layer, real=False):
    """tests t<k> spread round-robin over the layers, in two modules"""
    names = [l['name'] for l in layer_specs] + ['unit']
    mods = []
    k = 0
    for mi in range(2):
        kids = []
        for ln, cnt in zip(names, per_layer):
            part = cnt // 2 + (cnt % 2 if mi == 0 else 0)
            for _ in range(part):
                kids.append({'t': 't%02d' % k, 'layer': ln})
                k += 1
        mods.append({'name': ('p%s.tests.test_m%d' % ('ab'[mi], mi)) if real
                     else 'm%d' % mi, 'suite': {'s': kids}})
    return {'layers': layer_specs, 'modules': mods}


E2E_FIXED = [
    (W.LAYER_SETS[3], [4, 3, 5]),
    (W.LAYER_SETS[1], [1, 6]),
    (W.LAYER_SETS[0], [7]),
    (W.LAYER_SETS[5], [3, 2, 4, 0]),
]


def _gen_e2e(rng):
    for specs, sizes in E2E_FIXED:
        w = _flat_world(specs, sizes)
        for seed in (0, 42, None):
            o = {'shuffle': True, 'all': True}
            if seed is not None:
                o['seed'] = seed
            yield {'kind': 'e2e', 'world': w, 'opts': o}
    while True:
        w = W.gen_world(rng, n_modules=rng.randint(1, 3), depth=rng.randint(2, 4))
        if W.world_size(w) < 3:
            continue
        o = {'shuffle': True}
        if rng.random() < 0.8:
            o['seed'] = rng.choice([rng.randint(-5, 1000), rng.getrandbits(40)])
        if rng.random() < 0.6:
            o['all'] = True
        if rng.random() < 0.3:
            o['t'] = [rng.choice(['a', 'b', '!c', '1', '!2'])]
        yield {'kind': 'e2e', 'world': w, 'opts': o}


def _gen_real(rng, tier):
    abc = [{'name': 'LA', 'bases': []}, {'name': 'LB', 'bases': ['LA']},
           {'name': 'LC', 'bases': []}]
    notd = [dict(l) for l in abc]
    notd[0]['notd'] = True          # LA cannot be torn down: LC is resumed
    # smallest world that shows whether a child uses the parent's clock seed:
    # LA (5 tests, cannot be torn down) runs in the parent, LC (5 tests) in a child
    # (with fewer tests a wrong seed reproduces the order too often by chance)
    yield {'kind': 'real', 'world': _flat_world(
        [dict(notd[0]), dict(abc[2])], [5, 5, 0], True), 'opts': {'shuffle': True}}
    yield {'kind': 'real', 'world': _flat_world(abc, [5, 4, 6, 5], True),
           'opts': {'shuffle': True, 'seed': 7, 'j': 2}}
    yield {'kind': 'real', 'world': _flat_world(notd, [3, 3, 6, 4], True),
           'opts': {'shuffle': True, 'seed': 7}}
    yield {'kind': 'real', 'world': _flat_world(abc, [5, 4, 6, 5], True),
           'opts': {'shuffle': True, 'j': 3}}
    while True:
        specs = rng.choice([abc, notd])
        sizes = [rng.randint(0, 6) for _ in range(4)]
        o = {'shuffle': True}
        if rng.random() < 0.7:
            o['seed'] = rng.randint(0, 10 ** 6)
        if specs is abc or rng.random() < 0.3:
            o['j'] = rng.randint(2, 3)
        if rng.random() < 0.3:
            o['layer'] = [rng.choice(['LA', '!LC', 'L[BC]', 'Unit'])]
        yield {'kind': 'real', 'world': _flat_world(specs, sizes, True), 'opts': o}


def _nontrivial(case):
    if case['kind'] == 'direct':
        return any(s >= 2 for s in case['sizes'])
    return W.world_size(case['world']) >= 2


def run(budget_s, seed, tier):
    t0 = time.time()
    deadline = t0 + budget_s * 0.92
    rng = random.Random(seed)
    col = W.Collector(_nontrivial)
    exhaustive = True
    for i, case in enumerate(_gen_exhaustive()):
        if time.time() > deadline:
            exhaustive = False
            break
        col.feed(case, check_case)
        if i in (2000, 6900):
            col.sample(case)
    left = deadline - time.time()
    # real child processes: few (each run costs 1-2 s); at least the 4 fixed ones
    n_real = (4 if budget_s >= 20 else 2) if tier == 'quick' else 12
    real_stop = time.time() + left * (0.35 if tier == 'quick' else 0.5)
    for i, case in enumerate(_gen_real(rng, tier)):
        if i >= n_real and time.time() > real_stop or time.time() > deadline:
            break
        if i >= n_real and time.time() + 3 > real_stop:
            break
        col.feed(case, check_case)
        if i == 0:
            col.sample(case)
    for i, case in enumerate(_gen_e2e(rng)):
        if time.time() > deadline:
            break
        col.feed(case, check_case)
        if i in (1, 14):
            col.sample(case)
    return col.result(
        exhaustive,
        'exhaustive (Shuffle feature called directly): every tuple of 1..3 layers '
        'with 0..4 tests each (155 shapes) x seeds -3..40; every registration order '
        'of 4 shapes x 3 seeds; 7 huge/negative seeds x 3 shapes; 5 shapes with the '
        'clock seed.  Then real child processes (-j 2/3, resumed layers, with and '
        'without --shuffle-seed; >= 4 runs) and seeded random in-process worlds '
        '(<= 3 modules, depth <= 4; each case = run + re-run + 2 listings + 1..n '
        '--layer-filtered runs) until the budget',
        'a case is one Shuffle.global_setup call (direct), or one group of 5+ full '
        'Runner runs (e2e), or one Runner run with real child processes (real); '
        'distinct = distinct cases with a layer of >= 2 tests (direct) / a world of '
        '>= 2 tests')


def replay(case):
    v = check_case(case)
    if v:
        return True, '; '.join('%s: %s' % kv for kv in v[:3])
    return False, 'no violation for this case'
