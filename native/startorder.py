"""Shared bounded scenario (C10): layers handed to subprocesses are started in the order they were handed over.

The real ``resume_tests`` is run on the schedule world of the C06 oracle (threads and clock replaced by shims; the layers
own 1, 2, .. k tests, so an order by size differs from the order given): k = 2..4 layers, N = 1..k workers, every finishing
order for k <= 3.  With one worker the start order is the run order (a base layer before the layers built on it)."""
import itertools
from native import c06


def cases():
    for k in (2, 3, 4):
        for n in range(1, k + 1):
            orders = list(itertools.permutations(range(k)))
            for order in (orders if k <= 3 else orders[:4]):
                yield {'extra': 'startorder', 'kind': 'sched', 'k': k, 'n': n, 'order': list(order), 'verbose': 1,
                       'emit': 'at-finish', 'lag': 0, 'lines': [c06.child_lines(i, 'dots') for i in range(k)],
                       'ran': [i + 1 for i in range(k)]}


def check_case(case):
    case = {k: v for k, v in case.items() if k != 'extra'}
    try:
        r = c06.check_sched(case)
    except KeyError:
        raise
    return [r] if r and 'order-handed-over' in r[0] else []


def run_extra(findings_add):
    n = 0
    for case in cases():
        n += 1
        for key, summary in check_case(case):
            findings_add(key, summary, case)
    return n


def replay(case):
    v = check_case(case)
    if v:
        return True, '; '.join('%s: %s' % x for x in v)
    return False, 'started in the order handed over'
