"""C06 - -j N runs equal sequential runs; output ordered per layer; at most N alive.

Three families of cases on the real code:

sched   the real ``runner.resume_tests`` with ``threading`` / ``time`` inside
        runner's namespace replaced by shims (``childworld.run_schedule``): k
        scripted children, every one of the k! finish orders (k <= 4), every
        N in 1..k+1, verbosity 0/1/2 (Immediate for N=1, Deferred, Keepalive
        collectors - the real classes), lines emitted at finish or interleaved
        round-robin, thread death seen at once or one tick late; then seeded
        random schedules with up to 8 children.
thread  the real ``resume_tests`` + real threads + the real
        ``spawn_layer_in_subprocess`` over fake child processes whose stdout
        blocks until a controller releases it in the wanted finish order.
real    real ``-j N`` runs over a temp-dir world (children are real
        processes; file barriers force a finish order) compared with the
        sequential run of the same world.

Oracle (statement of C06): same tests / outcomes / verdict / lists as
sequential; each layer's output is one contiguous block, blocks in the
sequential layer order; never more than N children alive; whenever layers
are waiting the scheduler keeps N children busy; the call terminates.
"""
import itertools
import json
import queue
import random
import re
import sys
import threading
import time
import types

from native import childworld as cw

PROPERTY = 'C06'
_is_dots = re.compile(br'\.+(\r\n?|\n)').match


# --------------------------------------------------------------------------
# sched: fake threads
# --------------------------------------------------------------------------

def child_lines(i, shape):
    """marker lines of child i (latin-1 strs).  shape selects the mix."""
    if shape == 'none':
        return []
    ls = ['L%d-begin\n' % i]
    if shape in ('dots', 'mixed'):
        ls.append('..\n')
    for j in range(i % 3):
        ls.append('L%d-line%d\n' % (i, j))
    if shape == 'mixed':
        ls += ['.\r\n', 'L%d-crlf\r\n' % i, '... not dots L%d\n' % i]
    ls.append('L%d-end\n' % i)
    if shape == 'nonl':
        ls.append('L%d-partial-last-line' % i)
    return ls


def expected_blocks(case):
    blocks = []
    for ls in case['lines']:
        bs = [cw.s2b(x) for x in ls]
        if case['n'] != 1:
            bs = [b for b in bs if not _is_dots(b)]
        blocks.append(b''.join(bs))
    return blocks


def collector_of(case):
    if case['n'] == 1:
        return 'immediate'
    return 'keepalive' if case['verbose'] > 1 else 'deferred'


def check_sched(case):
    obs = cw.run_schedule(case)
    col = collector_of(case)
    what = 'k=%d N=%d verbose=%d order=%r emit=%s lag=%s: ' % (
        case['k'], case['n'], case['verbose'], case.get('order'),
        case.get('emit'), case.get('lag'))
    if obs['hang']:
        return 'sched:hang', what + 'resume_tests did not end (%s)' % obs['exc']
    if obs['exc']:
        return ('sched:exception:' + obs['exc'].split('(')[0],
                what + 'resume_tests raised ' + obs['exc'])
    for v in obs['violations']:
        if v[0] == 'more-than-N-alive':
            return ('sched:more-than-N-alive',
                    what + '%d children alive at once' % v[1])
        if v[0] == 'idle-slot':
            return ('sched:idle-slot-while-layers-wait',
                    what + 'only %d children running although %d layers '
                    'were waiting' % (v[1], v[2]))
        return 'sched:' + v[0], what + repr(v)
    want_layers = ['lay.L%d' % i for i in range(case['k'])]
    if (obs['thread_layers'] != want_layers or
            sorted(obs['started']) != list(range(case['k']))):
        return ('sched:layer-not-run-exactly-once',
                what + 'threads for %r, started %r' % (obs['thread_layers'],
                                                       obs['started']))
    if obs['started'] != list(range(case['k'])):
        # the layers are started in the order they were handed over (with one worker that IS the order they run in)
        return ('sched:layers-not-started-in-the-order-handed-over',
                what + 'started %r (the layers own 1, 2, .. k tests)' % (obs['started'],))
    if obs['ret'] != sum(case['ran']):
        return ('sched:tests-run-total-wrong',
                what + 'returned %r, children ran %r' % (obs['ret'],
                                                         case['ran']))
    problem = cw.check_blocks(obs['out'], expected_blocks(case))
    if problem:
        return ('output:%s:%s' % (problem[0], col),
                what + 'layer %d; parent wrote %r' % (problem[1],
                                                      obs['out'][:300]))
    return None


def gen_sched_enumerated():
    for k in range(1, 5):
        for n in range(1, k + 2):
            for order in itertools.permutations(range(k)):
                for verbose in (0, 1, 2):
                    for emit in ('at-finish', 'round-robin'):
                        for lag in (0, 1):
                            shape = 'mixed' if emit == 'round-robin' \
                                else 'dots'
                            yield {
                                'kind': 'sched', 'k': k, 'n': n,
                                'verbose': verbose, 'order': list(order),
                                'emit': emit, 'lag': lag,
                                'lines': [child_lines(i, shape)
                                          for i in range(k)],
                                'ran': [i + 1 for i in range(k)]}


def gen_sched_random(rng):
    while True:
        k = rng.randint(1, 8)
        order = list(range(k))
        rng.shuffle(order)
        batch = [rng.choice([0, 0, 1, 1, 2, 3]) for _ in
                 range(rng.randint(1, 5))]
        if not any(batch):
            batch.append(1)
        yield {'kind': 'sched', 'k': k, 'n': rng.randint(1, k + 1),
               'verbose': rng.choice([0, 1, 2, 3]), 'order': order,
               'emit': rng.choice(['at-finish', 'round-robin']),
               'lag': rng.choice([0, 1]), 'batch': batch,
               'lines': [child_lines(i, rng.choice(
                   ['none', 'plain', 'dots', 'mixed', 'nonl']))
                   for i in range(k)],
               'ran': [rng.choice([0, 1, 7, 1000]) for _ in range(k)]}


# --------------------------------------------------------------------------
# thread: real threads, real spawn, fake blocking children
# --------------------------------------------------------------------------

class BlockingStdout:
    def __init__(self):
        self.q = queue.Queue()
        self.eof = False

    def readline(self):
        if self.eof:
            return b''
        ln = self.q.get()
        if ln == b'':
            self.eof = True
        return ln

    def read(self):
        return b''

    def close(self):
        pass


class BlockingStderr:
    def __init__(self):
        self.ev = threading.Event()
        self.data = b''

    def read(self):
        self.ev.wait()
        d, self.data = self.data, b''
        return d

    def close(self):
        pass


class ThreadWorld:
    def __init__(self, case):
        self.case = case
        self.lock = threading.Lock()
        self.created = []       # child indexes in creation order
        self.children = {}
        self.reaped = set()
        self.max_alive = 0

    def popen(self, args, **kw):
        idx = int(cw.layer_of_args(args).rsplit('L', 1)[1])
        world = self

        class Child:
            stdin = None
            stdout = BlockingStdout()
            stderr = BlockingStderr()
            pid = -1
            returncode = None

            def kill(self):
                pass

            def communicate(self, input=None, timeout=None):
                with world.lock:
                    world.reaped.add(idx)
                return b'', b''
        ch = Child()
        with self.lock:
            self.created.append(idx)
            self.children[idx] = ch
            alive = len(self.created) - len(self.reaped)
            self.max_alive = max(self.max_alive, alive)
        return ch

    def finish(self, idx, emitted):
        ch = self.children[idx]
        for ln in self.case['lines'][idx][emitted.get(idx, 0):]:
            ch.stdout.q.put(cw.s2b(ln))
        ch.stderr.data = b'%d 0 0\n' % self.case['ran'][idx]
        ch.stderr.ev.set()
        ch.stdout.q.put(b'')

    def release_all(self):
        for idx, ch in list(self.children.items()):
            ch.stderr.ev.set()
            ch.stdout.q.put(b'')


def check_thread(case):
    runner = cw.rt()
    world = ThreadWorld(case)
    k, n = case['k'], case['n']
    rank = {c: i for i, c in enumerate(case['order'])}
    sink = cw.ByteSink()
    options = cw.spawn_options(verbose=case['verbose'], processes=n)
    layers = [('lay.L%d' % i, object, None) for i in range(k)]
    failures, errors, skipped = [], [], []
    stop = threading.Event()
    idle = []

    def controller():
        finished = set()
        emitted = {}
        while len(finished) < k and not stop.is_set():
            want = min(k, len(finished) + n)
            end = time.time() + 6.0
            while time.time() < end and not stop.is_set():
                with world.lock:
                    if len(world.created) >= want:
                        break
                time.sleep(0.0005)
            with world.lock:
                have = len(world.created)
                running = [c for c in world.created if c not in finished]
            if have < want:
                idle.append((have - len(finished), k - have))
            if not running:
                continue
            if case.get('emit') == 'round-robin':
                for c in running:
                    e = emitted.get(c, 0)
                    if e < len(case['lines'][c]):
                        world.children[c].stdout.q.put(
                            cw.s2b(case['lines'][c][e]))
                        emitted[c] = e + 1
            c = min(running, key=lambda x: rank[x])
            world.finish(c, emitted)
            finished.add(c)
            # let the parent notice before the next one goes
            end = time.time() + 6.0
            while time.time() < end and not stop.is_set():
                with world.lock:
                    if c in world.reaped:
                        break
                time.sleep(0.0005)

    tim = types.SimpleNamespace(time=time.time,
                                sleep=lambda s: time.sleep(0.001))
    ctl = threading.Thread(target=controller, daemon=True)
    with cw._LOCK:
        so = sys.stdout
        try:
            sys.stdout = sink
            with cw.patched(runner,
                            subprocess=cw.subprocess_shim(world.popen),
                            time=tim):
                ctl.start()
                terminated, exc, ret = cw.call_with_watchdog(
                    lambda: runner.resume_tests(
                        ['-c', 'pass'], options, [], layers, failures, errors,
                        skipped, None), case.get('timeout', 20.0))
                stop.set()
                world.release_all()
                ctl.join(5)
        finally:
            sys.stdout = so
    col = collector_of(case)
    what = 'real threads, k=%d N=%d verbose=%d order=%r emit=%s: ' % (
        k, n, case['verbose'], case['order'], case.get('emit'))
    if not terminated:
        return 'thread:hang', what + 'resume_tests did not end'
    if exc is not None:
        return ('thread:exception:' + type(exc).__name__,
                what + 'resume_tests raised %r' % (exc,))
    if world.max_alive > n:
        return ('sched:more-than-N-alive',
                what + '%d fake child processes alive at once'
                % world.max_alive)
    if idle:
        return ('sched:idle-slot-while-layers-wait',
                what + 'only %d children running for 6 s although %d layers '
                'were waiting' % idle[0])
    if errors or failures:
        return ('thread:spurious-errors', what + repr((failures, errors)))
    if ret != sum(case['ran']):
        return ('sched:tests-run-total-wrong',
                what + 'returned %r, children ran %r' % (ret, case['ran']))
    problem = cw.check_blocks(sink.getvalue(), expected_blocks(case))
    if problem:
        return ('output:%s:%s' % (problem[0], col),
                what + 'layer %d; parent wrote %r' % (problem[1],
                                                      sink.getvalue()[:300]))
    return None


def gen_thread_enumerated():
    for k in range(1, 4):
        for n in range(1, k + 2):
            for order in itertools.permutations(range(k)):
                for verbose, emit in ((0, 'at-finish'), (2, 'round-robin')):
                    yield {'kind': 'thread', 'k': k, 'n': n,
                           'verbose': verbose, 'order': list(order),
                           'emit': emit,
                           'lines': [child_lines(i, 'mixed')
                                     for i in range(k)],
                           'ran': [i + 1 for i in range(k)]}


def gen_thread_random(rng):
    while True:
        k = rng.randint(4, 6)
        order = list(range(k))
        rng.shuffle(order)
        yield {'kind': 'thread', 'k': k, 'n': rng.randint(1, k + 1),
               'verbose': rng.choice([0, 1, 2]), 'order': order,
               'emit': rng.choice(['at-finish', 'round-robin']),
               'lines': [child_lines(i, rng.choice(['plain', 'mixed', 'none']))
                         for i in range(k)],
               'ran': [rng.choice([0, 3, 50]) for _ in range(k)]}


# --------------------------------------------------------------------------
# real: -j N against the sequential run of the same world
# --------------------------------------------------------------------------

def _t(name, outcome='pass', do=()):
    return {'name': name, 'outcome': outcome, 'do': [list(a) for a in do]}


def make_world(waits, nie=False, noisy=False, ux=False):
    """unit layer + A, B, C.  waits: {layer: layer it waits for}"""
    def tests(ly, outcomes):
        ts = []
        for j, oc in enumerate(outcomes):
            do = [('print', 'TOKEN:%s:%d\n' % (ly, j))]
            if j == 0 and ly in waits:
                do += [('wait', waits[ly] + '-done', 12.0), ('sleep', 0.25)]
            if noisy and j == 1:
                do += [('fd2', 'stderr noise from %s\n' % ly),
                       ('print', '...\n'), ('big', 'print', 300)]
            ts.append(_t('test_%d' % j, oc, do))
        ts.append(_t('test_z_last', 'pass',
                     [('print', 'TOKEN:%s:z\n' % ly)] +
                     ([('mark', 'unit-done')] if ly == 'unit' else [])))
        return ts
    layers = [{'name': None, 'tests': tests('unit', ['pass', 'fail'])}]
    for ly, ocs in (('A', ['pass', 'error', 'skip']), ('B', ['fail']),
                    ('C', ['pass', 'uxsuccess' if ux else 'fail',
                           'xfail'])):
        td = [['mark', ly + '-done']]
        if nie and ly == 'A':
            td.append(['nie'])
        layers.append({'name': ly, 'teardown': td, 'tests': tests(ly, ocs)})
    return {'layers': layers}


def real_cases(tier):
    cs = [
        ('j2-A.unit.C.B', {'unit': 'A', 'B': 'C'}, ['-j2'], {}),
        ('j4-reversed', {'unit': 'A', 'A': 'B', 'B': 'C'}, ['-j4'], {}),
        ('j5-vv-C.A.B.unit', {'A': 'C', 'B': 'A', 'unit': 'B'},
         ['-j5', '-vv'], {'noisy': True}),
        ('j3-v-nie', {'A': 'B'}, ['-j3', '-v'], {'nie': True}),
        ('j2-natural', {}, ['-j2', '-vv'], {'noisy': True}),
        ('j2-unexpected-success', {}, ['-j2'], {'ux': True}),
    ]
    if tier != 'quick':
        cs += [
            ('j3-B.A', {'A': 'B'}, ['-j3'], {}),
            ('j4-vvv', {'unit': 'C'}, ['-j4', '-vvv'], {'noisy': True}),
            ('j8-nie-reversed', {'unit': 'A', 'A': 'B', 'B': 'C'},
             ['-j8', '-v'], {'nie': True}),
            ('j2-p', {'unit': 'A'}, ['-j2', '-p'], {}),
        ]
    return [{'kind': 'real', 'name': n, 'waits': w, 'args': a, 'opts': o}
            for n, w, a, o in cs]


TAG = re.compile(r'^(?:Running (\S+) tests:|TOKEN:(\w+):\w+)\s*$')


def layer_groups(out, world):
    ids = {cw.layer_id(ly['name']): (ly['name'] or 'unit')
           for ly in world['layers']}
    tags = []
    for ln in out.splitlines():
        m = TAG.match(ln)
        if not m:
            continue
        tag = ids.get(m.group(1)) if m.group(1) else m.group(2)
        if tag is None:
            continue
        if not tags or tags[-1] != tag:
            tags.append(tag)
    return tags


def check_real(case):
    world = make_world(case['waits'], **case.get('opts', {}))
    top = cw.build_world(world)
    try:
        seq = cw.run_world(top, [a for a in case['args']
                                 if not a.startswith('-j')], timeout=90)
        par = cw.run_world(top, case['args'], barriers=True, timeout=90)
    finally:
        cw.remove_world(top)
    what = 'world unit+A,B,C waits=%r args=%r: ' % (case['waits'],
                                                    case['args'])
    if par['timed_out'] or seq['timed_out']:
        return 'real:hang', what + 'run did not end within 90 s'
    if par['failed'] is None or seq['failed'] is None:
        return ('real:crash', what + 'no result: ' +
                (par['out'] if par['failed'] is None else seq['out'])[-300:])
    n = int([a for a in case['args'] if a.startswith('-j')][0][2:])
    same = (par['ran'] == seq['ran'] and par['failed'] == seq['failed'] and
            sorted(par['failures']) == sorted(seq['failures']) and
            sorted(par['errors']) == sorted(seq['errors']))
    if not same and 'barrier' in par['out'] and 'timed out' in par['out']:
        return ('real:barrier-timeout:layers-did-not-progress-concurrently',
                what + 'a layer waited 12 s in vain for another layer that '
                'should have been running at the same time; children '
                'lifetimes: %r' % (par['life'],))
    if not same:
        key = 'real:differs-from-sequential:%s' % case['name']
        if case.get('opts', {}).get('ux'):
            key = 'real:unexpected-success-in-child:failure-name-garbled'
        return (key,
                what + 'sequential ran=%r failed=%r failures=%r errors=%r; '
                '-j ran=%r failed=%r failures=%r errors=%r' % (
                    seq['ran'], seq['failed'], sorted(seq['failures']),
                    sorted(seq['errors']), par['ran'], par['failed'],
                    sorted(par['failures']), sorted(par['errors'])))
    gs, gp = layer_groups(seq['out'], world), layer_groups(par['out'], world)
    if len(set(gp)) != len(gp):
        return ('output:block-not-contiguous:real',
                what + 'layer output groups in the -j run: %r' % gp)
    if gp != gs:
        return ('output:blocks-out-of-order:real',
                what + 'sequential order %r, -j order %r' % (gs, gp))
    alive = cw.max_overlap(par['life'])
    if alive > n:
        return ('sched:more-than-N-alive',
                what + '%d real children alive at once' % alive)
    return None


# --------------------------------------------------------------------------

def check(case):
    if case['kind'] == 'sched':
        return check_sched(case)
    if case['kind'] == 'thread':
        return check_thread(case)
    return check_real(case)


def _size(case):
    return len(json.dumps(case))


def run(budget_s, seed, tier):
    t0 = time.time()
    rng = random.Random(seed)
    findings = {}
    seen = set()
    counts = {'sched': 0, 'thread': 0, 'real': 0}
    samples = []

    def record(case, verdict):
        if verdict is None:
            return
        key, summary = verdict
        old = findings.get(key)
        if old is None or _size(case) < _size(old['case']):
            findings[key] = {'key': key, 'summary': summary, 'case': case}

    def do(case):
        sig = json.dumps(case, sort_keys=True)
        if sig in seen:
            return
        seen.add(sig)
        counts[case['kind']] += 1
        record(case, check(case))

    reals = real_cases(tier)
    real_results = []
    pool = threading.Thread(
        target=lambda: real_results.extend(cw.run_jobs(
            [lambda c=c: (c, check_real(c)) for c in reals], workers=5,
            deadline=t0 + budget_s * 0.7)), daemon=True)
    pool.start()

    exhaustive = True
    d1 = t0 + budget_s * 0.45
    for case in gen_sched_enumerated():
        if time.time() > d1:
            exhaustive = False
            break
        do(case)
        if counts['sched'] in (10, 900) and len(samples) < 2:
            samples.append(case)
    n_enum_sched = counts['sched']
    d2 = t0 + budget_s * 0.75
    for case in gen_thread_enumerated():
        if time.time() > d2:
            exhaustive = False
            break
        do(case)
        if counts['thread'] == 20 and len(samples) < 3:
            samples.append(case)
    n_enum_thread = counts['thread']
    d3 = t0 + budget_s * 0.85
    gens = [gen_sched_random(rng), gen_thread_random(rng)]
    i = 0
    while time.time() < d3:
        # ~50 random schedules per random real-thread case
        do(next(gens[1 if i % 50 == 49 else 0]))
        i += 1
    pool.join(max(1.0, t0 + budget_s * 1.15 - time.time()))
    if pool.is_alive():
        cw.kill_active()
        pool.join(5)
    for item in real_results:
        if not item or isinstance(item, dict):
            continue
        c, verdict = item
        counts['real'] += 2             # sequential + -j run
        seen.add(json.dumps(c, sort_keys=True))
        if len(samples) < 5:
            samples.append(c)
        record(c, verdict)
    return {
        'cases': sum(counts.values()), 'distinct': len(seen),
        'rule': 'distinct = different (k, N, finish order, verbosity, '
                'emission mode, lag, lines) schedule / different real world '
                'and arguments; each sched/thread case is one execution of '
                'the real resume_tests, each real case two Runner runs '
                '(sequential and -j N)',
        'exhaustive': exhaustive,
        'bound': 'fake threads: all k! finish orders for k=1..4 x N=1..k+1 x '
                 'verbosity 0/1/2 x {lines at finish, interleaved} x {death '
                 'seen at once, one tick late} = %d schedules; real threads '
                 '+ real spawn over blocking fake children: all orders for '
                 'k=1..3 x N=1..k+1 x 2 = %d; then seeded random schedules '
                 '(k<=8, several children finishing per tick, idle ticks): '
                 '%d sched + %d thread; %d of %d real worlds (4 layers, file '
                 'barriers force the finish order) each run sequentially and '
                 'with -j N' % (
                     n_enum_sched, n_enum_thread,
                     counts['sched'] - n_enum_sched,
                     counts['thread'] - n_enum_thread,
                     counts['real'] // 2, len(reals)),
        'counts': counts,
        'samples': samples[:5],
        'findings': sorted(findings.values(), key=lambda f: f['key']),
    }


def replay(case):
    verdict = check(case)
    if verdict is None:
        return False, 'property holds on this case'
    return True, '%s: %s' % verdict
