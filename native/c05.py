"""C05 - per-test layer hooks bracket every test: bases first, mirrored, balanced.

Bounded oracle on the REAL runner (in-process, see layerworld.py).  Every
generated TestCase logs entry/exit of its ``run`` (the "bracket" of that test)
and its own setUp / body / tearDown; every layer logs testSetUp / testTearDown.
On the totally ordered trace:

* a test *starts* iff its own setUp is reached (unittest calls startTest and
  then setUp; a decorator-skipped test never starts on CPython 3.12.1);
* around a started test: testSetUp exactly once on every layer of the test's
  stack that has the hook, a base before any layer derived from it, all before
  the test's setUp; testTearDown exactly once on every stack layer that has it,
  all after the test's last own setUp/body/tearDown event, the layers having
  both hooks in exactly the reverse testSetUp order, never a base before a
  layer derived from it;
* inside any test's bracket no layer outside the test's stack sees either hook;
* per layer that has BOTH hooks (otherwise one side is invisible), over the
  whole run, the calls are balanced: no testTearDown without
  an outstanding testSetUp, no second testSetUp while one is outstanding, none
  outstanding at the end.

Around a test that does not start (skip by decorator) both "no hook at all" and
"a balanced testSetUp/testTearDown pair" are accepted; only an unmatched call is
a violation.  Known finding of the originally pinned tree (eb1b170, repaired in
b947675): ``skip-by-decorator:testTearDown-without-testSetUp`` - unittest of
CPython 3.12.1 reports addSkip + stopTest without startTest, and stopTest called
the layers' testTearDown although testSetUp never ran.  The detection stays.

Finding keys are ``<outcome kind of the test in whose bracket it happened>:
<what is wrong>``; both decorator forms of skipping (method and class) share the
kind ``skip-by-decorator``.
"""
import itertools
import json
import random
import time

from . import layerworld as lw

PROPERTY = 'C05'
UNIT = lw.UNIT
OWN = ('t.setUp', 't.body', 't.tearDown')
PATTERNS = {
    'both': {'testSetUp': 'ok', 'testTearDown': 'ok'},
    'none': {},
    'su': {'testSetUp': 'ok'},
    'td': {'testTearDown': 'ok'},
    # a layer whose testSetUp raises (the exception ends the run; the hooks called up to then stay balanced)
    'su_raise': {'testSetUp': 'raise', 'testTearDown': 'ok'},
}
BASE_PATTERNS = ('both', 'none', 'su', 'td')
NAMES = 'ABCDE'
# every kind of layerworld.KINDS plus the class decorator (a group flag)
ALL_KINDS = lw.KINDS + ('skip_class_decorator',)


def kind_key(kind):
    if kind in ('skip_decorator', 'skip_class_decorator'):
        return 'skip-by-decorator'
    return kind.replace('_', '-')


# --------------------------------------------------------------------------
# the oracle
# --------------------------------------------------------------------------

def check(world):
    """-> list of (key, summary)"""
    ev = lw.events(world)
    viol = []
    depth = {}          # layer -> outstanding testSetUp calls
    opened_in = {}      # layer -> kind key of the bracket of the open call
    cur = None
    br = []

    def kk(tid):
        return kind_key(world.tests[tid]['kind']) if tid else 'outside-test'

    def flag(tid, what, detail):
        viol.append(('%s:%s' % (kk(tid), what),
                     '%s [test %s, layer %s]' % (
                         detail, tid,
                         world.tests[tid]['layer'] if tid else None)))

    for e in ev:
        if e[0] == 'run.enter':
            cur, br = e[1], []
        elif e[0] == 'run.exit':
            _check_bracket(world, cur, br, flag)
            cur, br = None, []
        elif e[0] == 'hook' and e[1] in ('testSetUp', 'testTearDown'):
            layer = e[2]
            if cur is not None:
                br.append(e)
            if not (world.has_hook(layer, 'testSetUp') and
                    world.has_hook(layer, 'testTearDown')):
                continue    # only one side is observable: balance undecidable
            if e[1] == 'testSetUp':
                if depth.get(layer, 0) >= 1:
                    flag(cur, 'testSetUp-twice-without-testTearDown',
                         'layer %s got a second testSetUp while one was '
                         'outstanding' % layer)
                depth[layer] = depth.get(layer, 0) + 1
                opened_in[layer] = cur
            else:
                if depth.get(layer, 0) == 0:
                    raising = [r for r in world.stack(layer) if r != layer and world.hook_raises(r, 'testSetUp')]
                    if raising:
                        # the testSetUp of a layer below raised: this layer's own testSetUp was never reached, the
                        # exception ends the run, and stopTest still walks the whole stack (known finding, own key)
                        viol.append(('hook-raises:testTearDown-on-layer-above-the-raising-testSetUp',
                                     'the testSetUp of layer %s raised (the run ends with that exception); layer %s, derived '
                                     'from it, was never given testSetUp but gets testTearDown [test %s]'
                                     % (raising[0], layer, cur)))
                    else:
                        flag(cur, 'testTearDown-without-testSetUp',
                             'layer %s got testTearDown without a matching '
                             'testSetUp' % layer)
                else:
                    depth[layer] -= 1
        elif cur is not None and e[0] in OWN:
            br.append(e)
    for layer, d in sorted(depth.items()):
        if d > 0:
            flag(opened_in.get(layer), 'testSetUp-without-testTearDown',
                 'layer %s: %d testSetUp call(s) never matched by '
                 'testTearDown' % (layer, d))
    return viol


def _check_bracket(world, tid, br, flag):
    t = world.tests[tid]
    stack = world.stack(t['layer'])
    for e in br:
        if e[0] == 'hook' and e[2] not in stack:
            flag(tid, 'layer-outside-stack-sees-' + e[1],
                 'layer %s is not in the stack %s' % (e[2], sorted(stack)))
    own = [i for i, e in enumerate(br) if e[0] in OWN]
    if not any(br[i][0] == 't.setUp' for i in own):
        return                  # the test did not start: only balance applies
    i_su = min(i for i in own if br[i][0] == 't.setUp')
    i_last = max(own)
    su = [(i, e[2]) for i, e in enumerate(br)
          if e[0] == 'hook' and e[1] == 'testSetUp' and e[2] in stack]
    td = [(i, e[2]) for i, e in enumerate(br)
          if e[0] == 'hook' and e[1] == 'testTearDown' and e[2] in stack]
    P = [name for _, name in su]
    Q = [name for _, name in td]
    want_su = {n for n in stack if world.has_hook(n, 'testSetUp')}
    want_td = {n for n in stack if world.has_hook(n, 'testTearDown')}
    clean = True
    if any(i > i_su for i, _ in su):
        flag(tid, 'testSetUp-after-test-setUp',
             'testSetUp of %s after the test\'s own setUp'
             % [n for i, n in su if i > i_su])
        clean = False
    if want_su - set(P):
        flag(tid, 'testSetUp-missing',
             'no testSetUp on stack layers %s' % sorted(want_su - set(P)))
        clean = False
    if len(P) != len(set(P)):
        flag(tid, 'testSetUp-called-twice', 'testSetUp calls: %s' % P)
        clean = False
    for a in range(len(P)):
        for b in range(a + 1, len(P)):
            if P[b] != P[a] and P[b] in world.stack(P[a]):
                flag(tid, 'testSetUp-derived-before-base',
                     'testSetUp of %s before its base %s' % (P[a], P[b]))
                clean = False
    if any(i < i_last for i, _ in td):
        flag(tid, 'testTearDown-before-test-tearDown',
             'testTearDown of %s before the test finished its own '
             'setUp/body/tearDown' % [n for i, n in td if i < i_last])
        clean = False
    if want_td - set(Q):
        flag(tid, 'testTearDown-missing',
             'no testTearDown on stack layers %s' % sorted(want_td - set(Q)))
        clean = False
    if len(Q) != len(set(Q)):
        flag(tid, 'testTearDown-called-twice', 'testTearDown calls: %s' % Q)
        clean = False
    for a in range(len(Q)):
        for b in range(a + 1, len(Q)):
            if Q[a] != Q[b] and Q[a] in world.stack(Q[b]):
                flag(tid, 'testTearDown-base-before-derived',
                     'testTearDown of %s before derived %s' % (Q[a], Q[b]))
                clean = False
    if clean:
        common = set(P) & set(Q)
        p = [n for n in P if n in common]
        q = [n for n in Q if n in common]
        if q != p[::-1]:
            flag(tid, 'testTearDown-not-reverse-of-testSetUp',
                 'testSetUp order %s, testTearDown order %s' % (p, q))


def collapse(findings):
    """one defect, one key: when a violation also shows around plainly passing
    tests, the outcome kind is not part of its signature - all started-test
    kinds collapse to ``any-outcome:<what>`` (smallest case kept)."""
    special = ('skip-by-decorator', 'outside-test', 'runner-crash')
    by_what = {}
    for f in findings:
        kind, _, what = f['key'].partition(':')
        by_what.setdefault(what, {})[kind] = f
    out = []
    for what, kinds in sorted(by_what.items()):
        if 'pass' in kinds:
            started = [f for k, f in kinds.items() if k not in special]
            best = min(started, key=lambda f: lw.spec_size(f['case']))
            out.append(dict(best, key='any-outcome:' + what))
            out.extend(f for k, f in sorted(kinds.items()) if k in special)
        else:
            out.extend(f for _, f in sorted(kinds.items()))
    return out


def nontrivial(world):
    return any(e[0] == 'hook' and e[1] in ('testSetUp', 'testTearDown')
               for e in world.trace)


# --------------------------------------------------------------------------
# case generation
# --------------------------------------------------------------------------

def groups_for(layer, kinds, via='class', tag=''):
    """split a kind sequence into groups: 'skip_class_decorator' needs a test
    class of its own (the class is decorated)"""
    groups = []
    run = []

    def close():
        if run:
            groups.append({'layer': layer, 'via': via, 'tests': list(run)})
            del run[:]
    for k in kinds:
        if k == 'skip_class_decorator':
            close()
            groups.append({'layer': layer, 'via': via, 'tests': ['pass'],
                           'class_skip': True})
        else:
            run.append(k)
    close()
    return groups


def make_spec(graph, kinds, patterns, seqs, args=(), names=None, unit=None):
    """seqs: {node index: [outcome kinds]}; unit: kinds for layer-less tests"""
    names = names or NAMES[:len(graph)]
    layers = lw.layer_specs(graph, names, kinds,
                            [PATTERNS[p] for p in patterns])
    groups = []
    for j, (node, seq) in enumerate(seqs):
        groups.extend(groups_for(names[node], seq,
                                 via='suite' if j % 2 else 'class'))
    if unit:
        groups.extend(groups_for(None, unit))
    for gi, g in enumerate(groups):
        g['cls'] = 'T%d' % gi
    return {'layers': layers, 'groups': groups, 'args': list(args)}


def _kind_choices(graph):
    out = []
    if lw.class_buildable(graph):
        out.append(['class'] * len(graph))
    out.append(['instance'] * len(graph))
    return out


def stage_minimal():
    """one layer (class / instance) x 4 hook patterns x one test of each kind;
    plus each kind on the unit-test layer"""
    for kind in ALL_KINDS:
        for lk in ('class', 'instance'):
            for pat in BASE_PATTERNS:
                yield make_spec([[]], [lk], [pat], [(0, [kind])])
        yield make_spec([], [], [], [], unit=[kind])


def stage_hook_raises():
    """the testSetUp of a derived layer raises for the first test it brackets: chains of 2 and 3 layers, the raising
    layer last or in the middle; every layer below it has both hooks"""
    for graph, bad in (([[], [0]], 1), ([[], [0], [1]], 2), ([[], [0], [1]], 1), ([[], [], [0, 1]], 2)):
        for lk in ('class', 'instance'):
            if lk == 'class' and not lw.class_buildable(graph):
                continue
            pats = ['su_raise' if i == bad else 'both' for i in range(len(graph))]
            for kind in ('pass', 'fail'):
                yield make_spec(graph, [lk] * len(graph), pats, [(len(graph) - 1, [kind, 'pass'])])


def stage_pairs():
    """every ordered pair of outcome kinds as neighbouring tests of one layer:
    single layer and 2-chain, class / instance, --repeat 1 and 2"""
    for graph, node in (([[]], 0), ([[], [0]], 1)):
        for lk in ('class', 'instance'):
            for a, b in itertools.product(ALL_KINDS, repeat=2):
                for args in ((), ('--repeat', '2')):
                    yield make_spec(graph, [lk] * len(graph),
                                    ['both'] * len(graph), [(node, [a, b])],
                                    args=args)


def stage_graphs(max_n, pats_by_n):
    """all DAGs x kinds x hook patterns^n; every layer and the unit layer own
    the full sequence of all outcome kinds"""
    seq = list(ALL_KINDS)
    for n in range(1, max_n + 1):
        for graph in lw.all_dags(n):
            for kinds in _kind_choices(graph):
                for pats in itertools.product(pats_by_n[n], repeat=n):
                    seqs = [(i, seq if i % 2 == 0 else seq[::-1])
                            for i in range(n)]
                    yield make_spec(graph, kinds, pats, seqs, unit=seq[:4])


def random_spec(rng):
    n = rng.choice((3, 4, 4, 5))
    graph = lw.random_dag(rng, n)
    if rng.random() < 0.5 and lw.class_buildable(graph):
        kinds = ['class'] * n
    else:
        kinds = ['instance'] * n
        if rng.random() < 0.5:      # class layers below, instances on top
            cut = rng.randrange(n)
            cand = ['class'] * cut + ['instance'] * (n - cut)
            if lw.kinds_ok(graph, cand) and lw.class_buildable(graph[:cut]):
                kinds = cand
    pats = [rng.choice(BASE_PATTERNS) for _ in range(n)]
    owners = [i for i in range(n) if rng.random() < 0.6] or [n - 1]
    rng.shuffle(owners)
    seqs = [(o, [rng.choice(ALL_KINDS) for _ in range(rng.randint(1, 6))])
            for o in owners]
    names = list(NAMES[:n])
    rng.shuffle(names)
    args = rng.choice(((), (), ('--repeat', '2'), ('--repeat', '3'),
                       ('--shuffle', '--shuffle-seed', '3')))
    unit = ([rng.choice(ALL_KINDS) for _ in range(2)]
            if rng.random() < 0.3 else None)
    return make_spec(graph, kinds, pats, seqs, args=args, names=names,
                     unit=unit)


# --------------------------------------------------------------------------
# interface
# --------------------------------------------------------------------------

def run_case(spec):
    world = lw.run_world(spec)
    return world, check(world)


def run(budget_s, seed, tier='quick'):
    t0 = time.time()
    hard = t0 + budget_s * 0.92
    rng = random.Random(seed)
    findings = lw.Findings()
    cases = tests = crashes = 0
    distinct = set()
    samples = []
    if tier == 'quick':
        pats = {1: BASE_PATTERNS, 2: BASE_PATTERNS,
                3: ('both', 'none', 'su')}
        bound3 = '{both, none, testSetUp only}^3'
    else:
        pats = {1: BASE_PATTERNS, 2: BASE_PATTERNS, 3: BASE_PATTERNS}
        bound3 = 'all 4 hook patterns per layer'
    stages = [('minimal', stage_minimal()), ('hook-raises', stage_hook_raises()), ('pairs', stage_pairs()),
              ('graphs', stage_graphs(3, pats))]
    exhaustive = True
    done = {}

    def one(spec):
        nonlocal cases, tests, crashes
        world, viol = run_case(spec)
        cases += 1
        tests += sum(1 for e in world.trace if e[0] == 'run.enter')
        planned = any(b == 'raise' for ly in spec['layers'] for b in (ly.get('hooks') or {}).values()) \
            if isinstance(spec.get('layers'), list) and spec['layers'] and isinstance(spec['layers'][0], dict) else False
        if world.crash and planned and 'LayerHookError' in world.crash:
            pass            # the planned hook exception ends the run (C04 lets it through); balance is judged below
        elif world.crash:
            crashes += 1
            findings.add('runner-crash:' + world.crash.strip().splitlines()[-1]
                         .split(':')[0], world.crash, spec)
        if nontrivial(world):
            distinct.add(json.dumps(spec, sort_keys=True))
        for key, summary in viol:
            findings.add(key, summary, spec)

    for sname, gen in stages:
        k = 0
        for spec in gen:
            if time.time() > hard:
                exhaustive = False
                break
            one(spec)
            k += 1
            if len(samples) < 3 and k == 30:
                samples.append(spec)
        done[sname] = k
    k = 0
    reserve = t0 + budget_s * 0.97
    while time.time() < reserve:
        spec = random_spec(rng)
        try:
            one(spec)
        except TypeError:
            continue            # inconsistent MRO: not a buildable world
        k += 1
        if len(samples) < 5 and k in (1, 100):
            samples.append(spec)
    done['random'] = k
    return {
        'cases': cases,
        'distinct': len(distinct),
        'rule': 'distinct world descriptions whose run called at least one '
                'testSetUp / testTearDown hook (a case is one Runner.run; '
                'together they ran %d generated tests)' % tests,
        'exhaustive': exhaustive,
        'bound': 'exhaustive part: 1 layer x {class, instance} x 4 hook '
                 'patterns (both/none/only testSetUp/only testTearDown) x '
                 'each of %d outcome kinds alone; all ordered pairs of kinds '
                 'as neighbours (1 layer and 2-chain, --repeat 1 and 2); all '
                 'DAGs (ordered bases) with <=3 layers x {class, instance} x '
                 'hook patterns (4 per layer for <=2 layers, %s for 3) with '
                 'every layer and the unit layer owning all kinds in sequence. '
                 'Then seeded random worlds with 3-5 layers, mixed kinds, '
                 'random hook patterns, sequences of 1-6 outcomes, --repeat '
                 '1-3 / --shuffle; runs per stage: %s'
                 % (len(ALL_KINDS), bound3, done),
        'samples': samples[:5],
        'findings': collapse(findings.as_list()),
        'notes': 'runner crashes (exception out of Runner.run): %d' % crashes,
    }


def replay(case):
    world, viol = run_case(case)
    if world.crash:
        viol = viol + [('runner-crash', world.crash)]
    if viol:
        return True, '; '.join('%s: %s' % v for v in viol)
    return False, 'no C05 violation on this world'
