"""Generated "layer worlds" for the native oracles C01 / C05 / C10.

A *world* is a JSON-serialisable description of

* a layer graph (class layers built with ``type(name, bases, ns)`` or instance
  layers carrying ``__name__`` / ``__module__`` / ``__bases__``), every hook
  (setUp, tearDown, testSetUp, testTearDown) optionally present, optionally
  raising (``raise`` -> an Exception subclass, ``nie`` -> NotImplementedError);
* groups of ``unittest.TestCase`` tests attached to layers (``layer`` attribute on
  the test class or on the suite; ``layer: null`` -> the unit-test layer) with an
  outcome kind per test;
* runner command-line arguments, optionally "child mode" (``--resume-layer``).

``run_world(spec)`` builds the world and drives the REAL runner in-process
(``zope.testrunner.runner.Runner(..., found_suites=[...]).run()``).  Everything
the world can observe goes to ONE totally ordered trace: hook calls, the tests'
own setUp/body/tearDown, ``TestCase.run`` entry/exit, every write the runner
makes to stdout/stderr, and the call of ``resume_tests`` (which is replaced by a
recording stub so that nothing leaves the process).

Nothing under /repo is touched; the only process-level tweak is ``gc.freeze()``
(the runner calls gc.collect() twice per layer, which costs ~10 ms each on the
unfrozen heap and dominates the run time otherwise).
"""
import atexit
import gc
import io
import itertools
import logging
import re
import shutil
import sys
import tempfile
import traceback
import unittest

from . import _boot

UNIT = 'zope.testrunner.layer.UnitTests'
LMOD = 'lw'          # __module__ of generated layers  -> full name 'lw.<name>'
TMOD = 'lwtests'     # __module__ of generated test classes
HOOKS = ('setUp', 'tearDown', 'testSetUp', 'testTearDown')

# outcome kinds of generated tests
KINDS = (
    'pass', 'fail', 'error',
    'skip_decorator', 'skip_in_setUp', 'skip_in_body',
    'expected_failure', 'unexpected_success',
    'subtest_fail', 'error_in_tearDown',
    # extras beyond the list in the property text
    'error_in_setUp', 'fail_and_error_in_tearDown', 'error_in_cleanup',
)
# 'skip_class_decorator' is expressed by {"class_skip": true} on the group.


class LayerHookError(Exception):
    """raised by generated layer hooks with behaviour 'raise'"""


class TestBoom(Exception):
    """raised by generated tests that are meant to error"""


_frozen = False
_warm = False
_tmpdir = None


def _prepare():
    global _frozen, _tmpdir
    R = _boot.boot()
    if not _frozen:
        gc.collect()
        gc.freeze()
        _frozen = True
    if _tmpdir is None:
        _tmpdir = tempfile.mkdtemp(prefix='lw-native-')
        atexit.register(shutil.rmtree, _tmpdir, True)
    return R


# --------------------------------------------------------------------------
# building
# --------------------------------------------------------------------------

class _InstanceLayer:
    def __init__(self, name, bases):
        self.__name__ = name
        self.__module__ = LMOD
        self.__bases__ = tuple(bases)

    def __repr__(self):
        return '<instance layer %s>' % self.__name__


class _BaseTest(unittest.TestCase):
    _lw_world = None
    _lw_kinds = {}

    def _lw(self):
        return (self._lw_world.trace,
                type(self).__name__ + '.' + self._testMethodName,
                self._lw_kinds.get(self._testMethodName, 'pass'))

    def run(self, result=None):
        trace, tid, _ = self._lw()
        trace.append(('run.enter', tid))
        try:
            return super().run(result)
        finally:
            trace.append(('run.exit', tid))

    def setUp(self):
        trace, tid, kind = self._lw()
        trace.append(('t.setUp', tid))
        if kind == 'error_in_cleanup':
            self.addCleanup(self._lw_cleanup)
        if kind == 'skip_in_setUp':
            raise unittest.SkipTest('skip raised in setUp')
        if kind == 'error_in_setUp':
            raise TestBoom('setUp')

    def _lw_cleanup(self):
        trace, tid, _ = self._lw()
        trace.append(('t.cleanup', tid))
        raise TestBoom('cleanup')

    def tearDown(self):
        trace, tid, kind = self._lw()
        trace.append(('t.tearDown', tid))
        if kind in ('error_in_tearDown', 'fail_and_error_in_tearDown'):
            raise TestBoom('tearDown')


def _make_method(kind):
    def body(self):
        trace, tid, _ = self._lw()
        trace.append(('t.body', tid))
        if kind in ('fail', 'expected_failure', 'fail_and_error_in_tearDown'):
            self.fail('generated failure')
        elif kind == 'error':
            raise TestBoom('body')
        elif kind == 'skip_in_body':
            self.skipTest('skip raised in body')
        elif kind == 'subtest_fail':
            with self.subTest(i=0):
                self.fail('generated subtest failure')
            with self.subTest(i=1):
                pass
            with self.subTest(i=2):
                raise TestBoom('subtest')
    if kind == 'skip_decorator':
        body = unittest.skip('skipped by decorator')(body)
    elif kind in ('expected_failure', 'unexpected_success'):
        body = unittest.expectedFailure(body)
    return body


class World:
    """A built world (objects + trace)."""

    def __init__(self, spec):
        self.spec = spec
        self.trace = []
        self.layers = {}      # short name -> layer object
        self.bases = {}       # short name -> [short base names]
        self.suites = []
        self.tests = {}       # tid -> {'layer': short name|UNIT, 'kind': str}
        self.crash = None
        self.unit = None
        self._build()

    # -- graph helpers ------------------------------------------------------
    def stack(self, name):
        """name plus its transitive bases (short names; UNIT has no bases)."""
        if name == UNIT:
            return {UNIT}
        seen = set()
        todo = [name]
        while todo:
            n = todo.pop()
            if n not in seen:
                seen.add(n)
                todo.extend(self.bases[n])
        return seen

    def derived(self, name):
        """layers that have `name` as a transitive base (excluding itself)."""
        return {n for n in self.bases if n != name and name in self.stack(n)}

    def has_hook(self, name, hook):
        if name == UNIT:
            return hasattr(self.unit, hook)
        return hasattr(self.layers[name], hook)

    def hook_raises(self, name, hook):
        """is the generated hook of this layer one that raises (behaviour 'raise' / 'nie')?"""
        for ld in self.spec['layers']:
            if ld['name'] == name:
                return (ld.get('hooks') or {}).get(hook) in ('raise', 'nie')
        return False

    def full(self, name):
        return name if name == UNIT else LMOD + '.' + name

    def short(self, full):
        """full layer name -> short name, None for layers not of this world"""
        if full == UNIT:
            return UNIT
        if full.startswith(LMOD + '.') and full[len(LMOD) + 1:] in self.layers:
            return full[len(LMOD) + 1:]
        return None

    # -- building -----------------------------------------------------------
    def _hook(self, hook, beh):
        trace = self.trace

        def call(layername):
            trace.append(('hook', hook, layername, beh))
            if beh == 'raise':
                raise LayerHookError('%s.%s' % (layername, hook))
            if beh == 'nie':
                raise NotImplementedError('%s.%s' % (layername, hook))
        return call

    def _build(self):
        import zope.testrunner.layer
        self.unit = zope.testrunner.layer.UnitTests
        for ld in self.spec['layers']:
            name = ld['name']
            bases = [self.layers[b] for b in ld['bases']]
            hooks = ld.get('hooks') or {}
            if ld.get('kind', 'class') == 'class':
                ns = {'__module__': LMOD}
                for hook, beh in hooks.items():
                    call = self._hook(hook, beh)
                    ns[hook] = classmethod(
                        lambda cls, call=call: call(cls.__name__))
                layer = type(name, tuple(bases), ns)   # may raise TypeError (MRO)
            else:
                layer = _InstanceLayer(name, bases)
                for hook, beh in hooks.items():
                    call = self._hook(hook, beh)
                    setattr(layer, hook,
                            lambda call=call, name=name: call(name))
            self.layers[name] = layer
            self.bases[name] = list(ld['bases'])
        for gi, group in enumerate(self.spec.get('groups', ())):
            kinds = {}
            ns = {'__module__': TMOD, '_lw_world': self, '_lw_kinds': kinds}
            for j, kind in enumerate(group['tests']):
                mname = 'test_%02d_%s' % (j, kind)
                kinds[mname] = kind
                ns[mname] = _make_method(kind)
            cname = group.get('cls') or 'T%d' % gi
            cls = type(cname, (_BaseTest,), ns)
            lname = group.get('layer')
            layer = self.layers[lname] if lname is not None else None
            if layer is not None and group.get('via', 'class') == 'class':
                cls.layer = layer
            if group.get('class_skip'):
                cls = unittest.skip('class skipped by decorator')(cls)
            suite = unittest.defaultTestLoader.loadTestsFromTestCase(cls)
            if layer is not None and group.get('via', 'class') == 'suite':
                suite.layer = layer
            self.suites.append(suite)
            for mname, kind in kinds.items():
                self.tests[cname + '.' + mname] = {
                    'layer': lname if lname is not None else UNIT,
                    'kind': ('skip_class_decorator'
                             if group.get('class_skip') else kind),
                    'group': gi,
                }


class _Recorder:
    """stand-in for sys.stdout / sys.stderr: every write goes to the trace"""
    encoding = 'utf-8'
    errors = 'replace'

    def __init__(self, trace):
        self.trace = trace

    def write(self, s):
        if isinstance(s, bytes):
            s = s.decode('utf-8', 'replace')
        self.trace.append(('w', s))
        return len(s)

    def writelines(self, lines):
        for line in lines:
            self.write(line)

    def flush(self):
        pass

    def close(self):
        pass

    def isatty(self):
        return False

    def fileno(self):
        raise io.UnsupportedOperation('fileno')


def run_world(spec, before_run=None):
    """Build the world of `spec` and run the real runner on it, in-process.

    spec keys: layers, groups, args (extra runner args), child (full layer name:
    run as a resumed child process would: ``--resume-layer NAME 1``).
    Returns the World (``.trace`` raw, ``.crash`` traceback text or None).
    """
    R = _prepare()
    w = World(spec)

    def resume_stub(script_parts, options, features, layers, failures,
                    errors, skipped, cwd=None):
        w.trace.append(('resume', [name for name, _, _ in layers]))
        return 0

    args = ['test']
    if spec.get('child'):
        args += ['--resume-layer', spec['child'], '1']
    args += ['--path', _tmpdir] + list(spec.get('args') or ())
    root_logger = logging.getLogger()
    saved = (sys.stdout, sys.stderr, sys.stdin, list(sys.path),
             R.resume_tests, list(root_logger.handlers))
    rec = _Recorder(w.trace)
    try:
        sys.stdout = sys.stderr = rec
        R.resume_tests = resume_stub
        if before_run is not None:
            before_run(w)
        try:
            runner = R.Runner(defaults=[], args=args, found_suites=w.suites)
            runner.run()
            w.failed = runner.failed
        except Exception:
            w.crash = traceback.format_exc()
    finally:
        sys.stdout, sys.stderr, sys.stdin = saved[:3]
        sys.path[:] = saved[3]
        R.resume_tests = saved[4]
        # the Logging feature adds a NullHandler to the root logger on every
        # run and never removes it: undo, or the heap grows run by run
        root_logger.handlers[:] = saved[5]
    w.trace.append(('end',))
    global _warm
    if not _warm:
        # modules imported lazily during the first run: freeze them as well
        _warm = True
        gc.collect()
        gc.freeze()
    return w


# --------------------------------------------------------------------------
# trace post-processing
# --------------------------------------------------------------------------

_RE_SETUP = re.compile(r'^  Set up (\S+) in \d+\.\d+ seconds\.$')
_RE_TEARDOWN = re.compile(r'^  Tear down (\S+) $')
_RE_RUNNING = re.compile(r'^Running (\S+) tests:$')


def events(world):
    """raw trace -> event list with the runner's output turned into events:

    ('out.setup', short)     the line "  Set up X in N seconds." was completed
                             (the runner marks X as set up right after it)
    ('out.teardown', short)  "  Tear down X " was written (before X.tearDown)
    ('out.running', short)   header "Running X tests:"
    all other events are passed through; layers unknown to the world (e.g. the
    runner's own EmptyLayer) are dropped.
    """
    out = []
    cur = ''
    for ev in world.trace:
        if ev[0] != 'w':
            out.append(ev)
            continue
        parts = ev[1].split('\n')
        for i, part in enumerate(parts):
            cur += part
            if i < len(parts) - 1:          # a newline follows: line complete
                m = _RE_SETUP.match(cur)
                if m and world.short(m.group(1)) is not None:
                    out.append(('out.setup', world.short(m.group(1))))
                m = _RE_RUNNING.match(cur)
                if m and world.short(m.group(1)) is not None:
                    out.append(('out.running', world.short(m.group(1))))
                cur = ''
            elif part:
                m = _RE_TEARDOWN.match(cur)
                if m and world.short(m.group(1)) is not None:
                    out.append(('out.teardown', world.short(m.group(1))))
    return out


def output_text(world):
    return ''.join(ev[1] for ev in world.trace if ev[0] == 'w')


# --------------------------------------------------------------------------
# graph enumeration
# --------------------------------------------------------------------------

def all_dags(n):
    """All DAGs on nodes 0..n-1 in topological index order; node i gets an
    ORDERED tuple of distinct bases among 0..i-1 (order matters for MRO and
    for the runner's traversals).  n=1: 1, n=2: 2, n=3: 10, n=4: 160."""
    per_node = []
    for i in range(n):
        opts = []
        for k in range(i + 1):
            for comb in itertools.combinations(range(i), k):
                opts.extend(itertools.permutations(comb))
        per_node.append(opts)
    return [list(map(list, g)) for g in itertools.product(*per_node)]


def random_dag(rng, n, max_bases=3, p=0.45):
    g = []
    for i in range(n):
        cand = [j for j in range(i) if rng.random() < p]
        rng.shuffle(cand)
        g.append(cand[:max_bases])
    return g


def class_buildable(graph):
    """can the graph be built from classes (consistent MRO)?"""
    built = []
    try:
        for bases in graph:
            built.append(type('X', tuple(built[b] for b in bases), {}))
    except TypeError:
        return False
    return True


def layer_specs(graph, names, kinds, hooks):
    """graph: list of base-index lists; names/kinds/hooks: per node."""
    return [{'name': names[i],
             'bases': [names[b] for b in graph[i]],
             'kind': kinds[i],
             'hooks': dict(hooks[i])} for i in range(len(graph))]


def kinds_ok(graph, kinds):
    """a class layer cannot have an instance layer as base"""
    return all(kinds[i] == 'instance' or
               all(kinds[b] == 'class' for b in graph[i])
               for i in range(len(graph)))


def selected_by(args, full_names):
    """full names selected by the --layer options in args (all if none)."""
    pats = [args[i + 1] for i, a in enumerate(args)
            if a == '--layer' and i + 1 < len(args)]
    if not pats:
        return set(full_names)
    return {n for n in full_names if any(re.search(p, n) for p in pats)}


def spec_size(spec):
    return (len(spec.get('layers', ())),
            sum(len(g['tests']) for g in spec.get('groups', ())),
            sum(len(ld.get('hooks') or ()) for ld in spec.get('layers', ())),
            len(spec.get('args') or ()))


class Findings:
    """collects findings, one per key, keeping the smallest case"""

    def __init__(self):
        self.by_key = {}

    def add(self, key, summary, case, size=None):
        size = size if size is not None else spec_size(case)
        old = self.by_key.get(key)
        if old is None or size < old[0]:
            self.by_key[key] = (size, {'key': key, 'summary': summary,
                                       'case': case})

    def as_list(self):
        return [v[1] for _, v in sorted(self.by_key.items())]
