"""Generated test worlds for the native oracles C04 / C12 / C13 / C16 / C19.

A *world* is a JSON-serialisable dict

    {"layers": [{"name": "LA", "bases": ["L0"], "setUp": None | "<ExcName>",
                 "tearDown": None | "<ExcName>" | "NotImplementedError"}, ...],
     "tests":  [{"k": "<kind>", "layer": None | "LA", "exc": "<ExcName>",
                 "out": [[phase, stream, style], ...],
                 "threads": [{"api": "threading" | "_thread", "name": str | None,
                              "mode": "blocked" | "joined"}, ...],
                 "release": [<global thread index>, ...]}, ...],
     "args":   ["-vv", "--buffer", ...]}

``build()`` turns it into real ``unittest.TestCase`` classes / layer classes,
``execute()`` drives the REAL ``zope.testrunner.runner.Runner`` on it
in-process (``found_suites``) or from a generated importable module
(``file_based=True``; needed when the runner spawns children) and returns an
``Obs`` with the captured runner output, the world's own trace (the ground
truth about what really ran) and the runner's counters.

Nothing here asserts anything; the oracles (cNN.py) do.
"""
import _thread
import gc
import io
import json
import logging
import os
import re
import shutil
import sys
import tempfile
import threading
import time
import traceback
import types
import unittest
import warnings

HERE = os.path.dirname(os.path.abspath(__file__))
VERIF = os.path.dirname(HERE)

# --------------------------------------------------------------------------
# exception alphabet (all derived from Exception; SystemExit only in tests)


def ctrl_payload(tok):
    """text with characters that str.splitlines() treats as line boundaries but that are not newlines"""
    return 'p1 ' + tok + '\rp2\x0cp3\x1dp4\x85p5\u2028p6\n'


class WorldError(Exception):
    """custom Exception subclass"""


class EvilStr(Exception):
    """an exception whose str() itself raises"""

    def __str__(self):
        raise RuntimeError('no str for you')


class WorldAssertion(AssertionError):
    """subclass of the failureException -> counts as a *failure*"""


class UnhashableError(Exception):
    """an exception class that defines equality and hence has no hash (what @dataclass on an exception class produces)"""

    def __init__(self, tag):
        Exception.__init__(self, 'unhashable ' + tag)
        self.tag = tag

    def __eq__(self, other):
        return isinstance(other, UnhashableError) and other.tag == self.tag

    __hash__ = None


def make_exc(name, tag):
    if name == 'Unhashable':
        return UnhashableError(tag)
    if name == 'ValueError':
        return ValueError('boom ' + tag)
    if name == 'KeyError':
        return KeyError('missing ' + tag)
    if name == 'WorldError':
        return WorldError('custom ' + tag)
    if name == 'OSError':
        return OSError(5, 'io ' + tag)
    if name == 'Unicode':
        return ValueError('b\xf6\xf6m ☃ ' + tag)
    if name == 'Multiline':
        return RuntimeError('line1 %s\nline2\n  Ran 99 tests with 9 failures' % tag)
    if name == 'Chained':
        try:
            try:
                raise KeyError('inner ' + tag)
            except KeyError as e:
                raise WorldError('outer ' + tag) from e
        except WorldError as e2:
            return e2
    if name == 'EvilStr':
        return EvilStr()
    if name == 'StopIteration':
        return StopIteration(tag)
    if name == 'NotImplementedError':
        return NotImplementedError(tag)
    if name == 'SystemExit':
        return SystemExit(3)
    if name == 'KeyboardInterrupt':
        return KeyboardInterrupt()
    if name == 'WorldAssertion':
        return WorldAssertion('custom failure ' + tag)
    raise KeyError(name)


EXC_NAMES = ['ValueError', 'KeyError', 'WorldError', 'OSError', 'Unicode',
             'Multiline', 'Chained', 'EvilStr', 'StopIteration']

# --------------------------------------------------------------------------
# test kinds: compositional description of what one test does
#   deco: None | 'skip' | 'xfail'
#   setup/body/teardown/cleanup: 'ok' | 'fail' | 'error' | 'skip' | 'sysexit' | 'kbint'
#   subs: list of 'ok' | 'fail' | 'error' | 'skip'   (executed before the body outcome)

KINDS = {
    'pass':      {},
    'fail':      {'body': 'fail'},
    'error':     {'body': 'error'},
    'sysexit':   {'body': 'sysexit'},
    'skip_deco': {'deco': 'skip'},
    'skip_setup': {'setup': 'skip'},
    'skip_body': {'body': 'skip'},
    'xfail':     {'deco': 'xfail', 'body': 'fail'},
    'usuccess':  {'deco': 'xfail'},
    'sub1':      {'subs': ['ok', 'fail']},
    'sub2':      {'subs': ['fail', 'fail']},
    'sub3':      {'subs': ['fail', 'ok', 'fail', 'fail']},
    'sub_fe':    {'subs': ['fail', 'error']},
    'sub_err':   {'subs': ['error']},
    'sub_ok':    {'subs': ['ok', 'ok']},
    'sub_skip':  {'subs': ['skip']},
    'sub_skip2': {'subs': ['skip', 'skip']},
    'err_setup': {'setup': 'error'},
    'fail_setup': {'setup': 'fail'},
    'err_td':    {'teardown': 'error'},
    'fail_td':   {'teardown': 'fail'},
    'err_err_td': {'body': 'error', 'teardown': 'error'},
    'fail_err_td': {'body': 'fail', 'teardown': 'error'},
    'err_cleanup': {'cleanup': 'error'},
    'err_err_cleanup': {'body': 'error', 'cleanup': 'error'},
    'skip_err_td': {'body': 'skip', 'teardown': 'error'},
    'xfail_err_td': {'deco': 'xfail', 'body': 'fail', 'teardown': 'error'},
    'kbint':     {'body': 'kbint'},
}


def kind_of(t):
    d = {'deco': None, 'setup': 'ok', 'body': 'ok', 'subs': [], 'teardown': 'ok',
         'cleanup': 'ok'}
    d.update(KINDS[t['k']])
    return d


def model_events(t):
    """Ground truth: the result events CPython 3.12 ``TestCase.run`` produces for
    this test, in order, as (category, name_suffix) with category in
    failure/error/skip/usuccess/xfail/success.  Validated against a plain
    ``unittest.TestResult`` by ``selfcheck_model`` (see c04 sanity notes).
    Exceptions named WorldAssertion count as failures, anything else as error.
    """
    k = kind_of(t)
    exc_is_failure = t.get('exc') == 'WorldAssertion'

    def cat(what):
        if what == 'fail':
            return 'failure'
        if what == 'sysexit':
            return 'error'
        return 'failure' if exc_is_failure else 'error'

    if k['deco'] == 'skip':
        return [('skip', '')]
    ev = []
    ok = True
    expecting = k['deco'] == 'xfail'
    got_xf = False
    if k['setup'] == 'skip':
        ev.append(('skip', ''))
        ok = False
    elif k['setup'] in ('error', 'fail'):
        ev.append((cat(k['setup']), ''))
        ok = False
    if ok:
        stopped = False
        for i, s in enumerate(k['subs']):
            if s in ('fail', 'error'):
                if expecting:
                    got_xf = True
                    stopped = True
                    break
                ev.append((cat(s), ' (i=%d)' % i))
                ok = False
            elif s == 'skip':
                ev.append(('skip', ' (i=%d)' % i))
                ok = False
        if not stopped:
            b = k['body']
            if b in ('fail', 'error', 'sysexit'):
                if expecting:
                    got_xf = True
                else:
                    ev.append((cat(b), ''))
                    ok = False
            elif b == 'skip':
                ev.append(('skip', ''))
                ok = False
        if k['teardown'] in ('error', 'fail'):
            ev.append((cat(k['teardown']), ''))
            ok = False
    if k['cleanup'] in ('error', 'fail'):
        ev.append((cat(k['cleanup']), ''))
        ok = False
    if ok:
        if expecting:
            ev.append(('xfail' if got_xf else 'usuccess', ''))
        else:
            ev.append(('success', ''))
    return ev


BAD = ('failure', 'error', 'usuccess')


def is_bad(t):
    return any(c in BAD for c, _ in model_events(t))


# --------------------------------------------------------------------------
# output capture: streams WITHOUT getvalue() (like a real terminal stream)


class _Bin(io.RawIOBase):
    def __init__(self, cap):
        self.cap = cap

    def writable(self):
        return True

    def write(self, b):
        if isinstance(b, str):
            raise TypeError('bytes expected')
        b = bytes(b)
        self.cap.sink.append((self.cap.tag, b.decode('utf-8', 'replace')))
        return len(b)

    def writelines(self, lines):
        for ln in lines:
            self.write(ln)

    def flush(self):
        pass


class Capture(io.TextIOBase):
    """stand-in for the process' real sys.stdout / sys.stderr"""
    encoding = 'utf-8'
    errors = 'strict'

    def __init__(self, sink, tag):
        self.sink = sink
        self.tag = tag
        self.buffer = _Bin(self)

    def writable(self):
        return True

    def write(self, s):
        if not isinstance(s, str):
            raise TypeError('write() argument must be str, not %s' % type(s).__name__)
        self.sink.append((self.tag, s))
        return len(s)

    def flush(self):
        pass

    def isatty(self):
        return False

    def close(self):        # never really close
        pass


# --------------------------------------------------------------------------


class World:
    """run-time side of a world: classes + trace."""

    def __init__(self, spec, modname, trace_file=None):
        self.spec = spec
        self.modname = modname
        self.trace_file = trace_file
        self.trace = []
        self.sink = None            # capture sink for out-of-band marks
        self.orig_out = None
        self.orig_err = None
        self.layers = {}
        self.classes = []
        self.trecs = []             # all thread records, in creation order
        self.ns = {}
        self.patterns = []
        self._build()

    # -- trace -------------------------------------------------------------
    def ev(self, *e):
        self.trace.append(e)
        if self.sink is not None:
            self.sink.append(('mark', e))
        if self.trace_file:
            with open(self.trace_file, 'a') as f:
                f.write(json.dumps([os.getpid()] + list(e)) + '\n')

    def streams(self, where, tid):
        if self.orig_out is None:
            return
        self.ev('streams', where, tid, sys.stdout is self.orig_out,
                sys.stderr is self.orig_err,
                type(sys.stdout).__name__, type(sys.stderr).__name__)

    # -- threads -----------------------------------------------------------
    def start_thread(self, tid, th):
        rec = {'id': len(self.trecs), 'test': tid, 'api': th['api'],
               'want_name': th.get('name'), 'mode': th['mode'],
               'go': threading.Event(), 'started': threading.Event(),
               'done': threading.Event(), 'ident': None, 'name': None,
               'finished': False, 'thread': None}
        self.trecs.append(rec)

        def work():
            rec['ident'] = _thread.get_ident()
            rec['started'].set()
            rec['go'].wait(60)
            rec['done'].set()

        if th['api'] == 'threading':
            t = threading.Thread(target=work, daemon=True)
            if th.get('name'):
                t.name = th['name']
            rec['thread'] = t
            t.start()
            rec['name'] = t.name
        else:
            _thread.start_new_thread(work, ())
        rec['started'].wait(10)
        if th['api'] != 'threading':
            rec['name'] = None
        self.ev('thread_start', tid, rec['id'], rec['ident'], rec['name'])
        if th['mode'] == 'joined':
            self.finish_thread(rec, tid)
        return rec

    def finish_thread(self, rec, tid=None):
        if rec['finished']:
            return
        rec['go'].set()
        if rec['thread'] is not None:
            rec['thread'].join(10)
        rec['done'].wait(10)
        end = time.time() + 10
        while rec['ident'] in sys._current_frames() and time.time() < end:
            time.sleep(0.0005)
        rec['finished'] = True
        self.ev('thread_end', tid, rec['id'], rec['ident'])

    def release_helpers(self):
        for ev in self.__dict__.get('_helper_events', []):
            ev.set()

    def release_all(self):
        self.release_helpers()
        for rec in self.trecs:
            self.finish_thread(rec)

    def alive(self):
        return {rec['ident']: rec['id'] for rec in self.trecs
                if not rec['finished'] and rec['ident'] is not None}

    # -- output ------------------------------------------------------------
    def emit(self, tid, t, phase):
        for n, (ph, stream, style) in enumerate(t.get('out', ())):
            if ph != phase:
                continue
            tok = '<<%s:%d>>' % (tid, n)
            s = sys.stdout if stream == 'out' else sys.stderr
            self.ev('emit', tid, n, tok, s is (self.orig_out if stream == 'out'
                                               else self.orig_err))
            if style == 'nl':
                s.write(tok + '\n')
            elif style == 'nonl':
                s.write(tok)
            elif style == 'print':
                print(tok, file=s)
            elif style == 'multi':
                s.write('first ' + tok + '\nsecond ' + tok + '\n\nlast ' + tok)
            elif style == 'bytes':
                s.buffer.write(tok.encode('ascii') + b'\n')
                s.buffer.flush()
            elif style == 'badbytes':
                s.buffer.write(b'\xff\xfe' + tok.encode('ascii') + b'\n')
            elif style == 'ctrl':
                s.write(ctrl_payload(tok))
            elif style == 'empty':
                s.write('')
            else:
                raise KeyError(style)

    # -- construction --------------------------------------------------------
    def _build(self):
        W = self
        spec = self.spec
        for ly in spec.get('layers', ()):
            bases = tuple(self.layers[b] for b in ly.get('bases', ())) or (object,)

            def mk(ly):
                name = ly['name']

                def setUp(cls):
                    W.ev('layer_setUp', name)
                    if ly.get('setUp'):
                        raise make_exc(ly['setUp'], name + '.setUp')
                    W.ev('layer_setUp_ok', name)

                def tearDown(cls):
                    W.ev('layer_tearDown', name)
                    if ly.get('tearDown'):
                        raise make_exc(ly['tearDown'], name + '.tearDown')

                def testSetUp(cls):
                    W.streams('layer_testSetUp:' + name, None)
                    # optional: the layer itself starts a long-lived helper thread before the k-th test it brackets
                    # (a thread that exists before the test starts must never be blamed on that test)
                    cnt = W.__dict__.setdefault('_tsu_count', {})
                    cnt[name] = cnt.get(name, 0) + 1
                    if ly.get('helper_before') is not None and cnt[name] - 1 == ly['helper_before']:
                        import threading
                        ev = threading.Event()
                        W.__dict__.setdefault('_helper_events', []).append(ev)
                        th = threading.Thread(target=ev.wait, name='layer-helper-' + name, daemon=True)
                        th.start()

                def testTearDown(cls):
                    W.streams('layer_testTearDown:' + name, None)

                return {'setUp': classmethod(setUp), 'tearDown': classmethod(tearDown),
                        'testSetUp': classmethod(testSetUp),
                        'testTearDown': classmethod(testTearDown),
                        '__module__': self.modname}

            cls = type(ly['name'], bases, mk(ly))
            self.layers[ly['name']] = cls
            self.ns[ly['name']] = cls

        for i, t in enumerate(spec['tests']):
            self.classes.append(self._mk_test(i, t))

    def test_name(self, i, suffix=''):
        return 'test_x (%s.T%02d.test_x)%s' % (self.modname, i, suffix)

    def _mk_test(self, i, t):
        W = self
        tid = 'T%02d' % i
        k = kind_of(t)
        excname = t.get('exc') or 'ValueError'
        in_phases = bool(t.get('probe_streams'))

        def outcome(self, what, where):
            if what == 'ok':
                return
            if what == 'fail':
                self.assertEqual(where, 'not-' + where)
            elif what == 'error':
                raise make_exc(excname, tid + '.' + where)
            elif what == 'skip':
                raise unittest.SkipTest('skip in ' + where)
            elif what == 'sysexit':
                raise SystemExit(3)
            elif what == 'kbint':
                raise KeyboardInterrupt()
            else:
                raise KeyError(what)

        def run(self, result=None):
            W.ev('run', tid)
            W.streams('pre', tid)
            try:
                return unittest.TestCase.run(self, result)
            finally:
                W.streams('post', tid)
                W.ev('ran', tid, sorted(W.alive().items()))

        def setUp(self):
            W.ev('setUp', tid)
            if in_phases:
                W.streams('in:setUp', tid)
            if t.get('own_stdout'):
                # a test that captures sys.stdout itself: it saves whatever stream it finds, installs its own, and
                # puts the saved one back in a cleanup (i.e. after its result events)
                saved = sys.stdout
                sys.stdout = io.StringIO()
                self.addCleanup(lambda: setattr(sys, 'stdout', saved))
            if t.get('own_stderr'):
                # the same for sys.stderr alone (the usual "silence stderr in setUp, put it back in a cleanup" pattern)
                saved_err = sys.stderr
                sys.stderr = io.StringIO()
                self.addCleanup(lambda: setattr(sys, 'stderr', saved_err))
            self.addCleanup(self._cleanup)
            W.emit(tid, t, 'setUp')
            outcome(self, k['setup'], 'setUp')

        def body(self):
            W.ev('body', tid)
            if in_phases:
                W.streams('in:body', tid)
            for r in t.get('release', ()):
                if r < len(W.trecs):
                    W.finish_thread(W.trecs[r], tid)
            for th in t.get('threads', ()):
                W.start_thread(tid, th)
            W.emit(tid, t, 'body')
            for n, s in enumerate(k['subs']):
                with self.subTest(i=n):
                    outcome(self, s, 'sub%d' % n)
            outcome(self, k['body'], 'body')

        def tearDown(self):
            W.ev('tearDown', tid)
            if in_phases:
                W.streams('in:tearDown', tid)
            W.emit(tid, t, 'tearDown')
            outcome(self, k['teardown'], 'tearDown')

        def _cleanup(self):
            W.ev('cleanup', tid)
            W.emit(tid, t, 'cleanup')
            outcome(self, k['cleanup'], 'cleanup')

        def test_x(self):
            return body(self)

        test_x.__qualname__ = tid + '.test_x'
        if k['deco'] == 'skip':
            test_x = unittest.skip('deco skip')(test_x)
        elif k['deco'] == 'xfail':
            test_x = unittest.expectedFailure(test_x)
        ns = {'run': run, 'setUp': setUp, 'tearDown': tearDown, '_cleanup': _cleanup,
              'test_x': test_x, '__module__': self.modname}
        if t.get('layer'):
            ns['layer'] = self.layers[t['layer']]
        cls = type(tid, (unittest.TestCase,), ns)
        self.ns[tid] = cls
        return cls

    def suite(self):
        s = unittest.TestSuite()
        for cls in self.classes:
            s.addTest(cls('test_x'))
        return s


# --------------------------------------------------------------------------
# ground truth helpers shared by the oracles


def layer_closure(spec, name):
    """name + all ancestors"""
    by = {ly['name']: ly for ly in spec.get('layers', ())}
    seen = []

    def go(n):
        if n in seen:
            return
        seen.append(n)
        for b in by[n].get('bases', ()):
            go(b)
    go(name)
    return seen


def layer_can_set_up(spec, name):
    if name is None:
        return True
    by = {ly['name']: ly for ly in spec.get('layers', ())}
    return all(not by[n].get('setUp') for n in layer_closure(spec, name))


def test_layers(spec):
    """layer names (None = unit tests) that have tests, in first-use order"""
    out = []
    for t in spec['tests']:
        if t.get('layer') not in out:
            out.append(t.get('layer'))
    return out


UNIT = 'zope.testrunner.layer.UnitTests'


def full_layer_name(modname, layer):
    return UNIT if layer is None else '%s.%s' % (modname, layer)


# --------------------------------------------------------------------------
# executing the real runner


class Obs:
    """what one execution of the real runner showed"""
    pass


_counter = [0]
_shared_dir = [None]


def _empty_dir():
    if _shared_dir[0] is None or not os.path.isdir(_shared_dir[0]):
        import atexit
        d = tempfile.mkdtemp(prefix='nw_empty_')
        _shared_dir[0] = d
        atexit.register(shutil.rmtree, d, True)
    return _shared_dir[0]


MODULE_TEMPLATE = '''\
import sys
if {verif!r} not in sys.path:
    sys.path.insert(0, {verif!r})
import json
from native import testworld as _tw
{pre}
_W = _tw.World(json.loads({spec!r}), __name__, trace_file={trace!r})
globals().update(_W.ns)
def test_suite():
    return _W.suite()
'''


def _snapshot():
    root = logging.getLogger()
    return {
        'stdout': sys.stdout, 'stderr': sys.stderr, 'stdin': sys.stdin,
        'path': sys.path[:], 'gc_thr': gc.get_threshold(), 'gc_dbg': gc.get_debug(),
        'gc_on': gc.isenabled(),
        'fmt': traceback.format_exception, 'prt': traceback.print_exception,
        'handlers': root.handlers[:], 'level': root.level,
        'filters': warnings.filters[:], 'environ': dict(os.environ),
        'cwd': os.getcwd(),
    }


def _restore(s):
    sys.stdout, sys.stderr, sys.stdin = s['stdout'], s['stderr'], s['stdin']
    sys.path[:] = s['path']
    gc.set_threshold(*s['gc_thr'])
    gc.set_debug(s['gc_dbg'])
    (gc.enable if s['gc_on'] else gc.disable)()
    del gc.garbage[:]
    traceback.format_exception = s['fmt']
    traceback.print_exception = s['prt']
    root = logging.getLogger()
    root.handlers[:] = s['handlers']
    root.setLevel(s['level'])
    warnings.filters[:] = s['filters']
    if hasattr(warnings, '_filters_mutated'):
        warnings._filters_mutated()
    for k in list(os.environ):
        if k not in s['environ']:
            del os.environ[k]
    os.environ.update(s['environ'])
    if os.getcwd() != s['cwd']:
        os.chdir(s['cwd'])


def execute(spec, file_based=False, broken_module=False, keep_world=False):
    """Run the real Runner on the world; never raises for runner/test faults."""
    from native import _boot
    runner_mod = _boot.boot()
    _counter[0] += 1
    modname = 'nw_%d' % _counter[0]
    obs = Obs()
    obs.spec = spec
    obs.modname = modname
    sink = []
    cap_out = Capture(sink, 'out')
    cap_err = Capture(sink, 'err')
    snap = _snapshot()
    tmp = None
    world = None
    trace_file = None
    obs.exc = None
    obs.exc_tb = ''
    t0 = time.time()
    try:
        args = ['test'] + list(spec.get('args', ()))
        if file_based:
            tmp = tempfile.mkdtemp(prefix='nw_files_')
            trace_file = os.path.join(tmp, 'trace.jsonl')
            src = MODULE_TEMPLATE.format(verif=VERIF, spec=json.dumps(spec),
                                         trace=trace_file, pre='')
            with open(os.path.join(tmp, modname + '.py'), 'w') as f:
                f.write(src)
            pattern = '^%s$' % modname
            if broken_module:
                with open(os.path.join(tmp, modname + 'broken.py'), 'w') as f:
                    f.write('raise ImportError("deliberately broken module")\n')
                pattern = '^%s(broken)?$' % modname
            defaults = ['--path', tmp, '--tests-pattern', pattern]
            r = runner_mod.Runner(defaults=defaults, args=args,
                                  script_parts=list(_boot.CHILD_SCRIPT_PARTS))
        else:
            mod = types.ModuleType(modname)
            sys.modules[modname] = mod
            world = World(spec, modname)
            mod.__dict__.update(world.ns)
            world.sink = sink
            world.orig_out, world.orig_err = cap_out, cap_err
            defaults = ['--path', _empty_dir()]
            r = runner_mod.Runner(defaults=defaults, args=args,
                                  found_suites=[world.suite()])
        obs.runner = r
        sys.stdout, sys.stderr = cap_out, cap_err
        try:
            obs.rv = r.run()
        except BaseException as e:      # noqa: B902 - that is the point
            obs.exc = e
            obs.exc_tb = ''.join(traceback.format_exception(type(e), e, e.__traceback__))
        obs.after_out_is_orig = sys.stdout is cap_out
        obs.after_err_is_orig = sys.stderr is cap_err
        obs.after_types = (type(sys.stdout).__name__, type(sys.stderr).__name__)
    finally:
        _restore(snap)
        if file_based:
            w = sys.modules.get(modname)
            world = getattr(w, '_W', None)
        if world is not None:
            world.sink = None
            try:
                world.release_all()
            except Exception:
                pass
        for m in [m for m in sys.modules if m.startswith(modname)]:
            del sys.modules[m]
    obs.wall = time.time() - t0
    obs.sink = sink
    obs.out = ''.join(s for tag, s in sink if tag in ('out', 'err'))
    obs.stdout = ''.join(s for tag, s in sink if tag == 'out')
    obs.stderr = ''.join(s for tag, s in sink if tag == 'err')
    if file_based:
        obs.trace = []
        obs.trace_pids = []
        if trace_file and os.path.exists(trace_file):
            for line in open(trace_file):
                rec = json.loads(line)
                obs.trace_pids.append(rec[0])
                obs.trace.append(tuple(rec[1:]))
    else:
        obs.trace = [tuple(e) for e in world.trace]
        obs.trace_pids = [os.getpid()] * len(obs.trace)
    r = obs.runner
    obs.ran = r.ran
    obs.failed = r.failed
    obs.failure_names = [_name(x) for x in r.failures]
    obs.error_names = [_name(x) for x in r.errors]
    obs.n_skipped = len(r.skipped)
    obs.n_import_errors = len(r.import_errors)
    obs.world = world if keep_world else None
    obs.trecs = [] if world is None else [
        {k: v for k, v in rec.items() if k in ('id', 'test', 'api', 'name', 'mode',
                                                  'ident', 'want_name')}
        for rec in world.trecs]
    if tmp:
        shutil.rmtree(tmp, True)
    return obs


def _name(entry):
    try:
        test = entry[0]
    except TypeError:
        test = entry
    try:
        return ' '.join(str(test).strip().split('\n'))
    except Exception as e:          # pragma: no cover
        return '<unprintable %s>' % type(e).__name__


# --------------------------------------------------------------------------
# parsing the runner's text output

RAN_RE = re.compile(r'^  Ran (\d+) tests with (\d+) failures, (\d+) errors and '
                    r'(\d+) skipped in ', re.M)
TOTAL_RE = re.compile(r'^Total: (\d+) tests, (\d+) failures, (\d+) errors and '
                      r'(\d+) skipped in ', re.M)
RUNNING_RE = re.compile(r'^Running (\S+) tests:$', re.M)


def parse_output(text):
    """-> dict(layers=[(layer_name, [ (n,f,e,s), ... per iteration ])], total=(n,f,e,s)|None,
               with_failures=[names]|None, with_errors=[names]|None)

    Only lines written at column 0 / with the runner's fixed indentation are
    recognised, and the *last* 'Total:' line is taken, so exception messages
    containing look-alike text inside tracebacks cannot be confused with them as
    long as they are indented differently (the worlds take care of that).
    """
    layers = []
    cur = None
    with_f = with_e = None
    mode = None
    total = None
    for line in text.split('\n'):
        m = RUNNING_RE.match(line)
        if m:
            cur = [m.group(1), []]
            layers.append(cur)
            mode = None
            continue
        m = RAN_RE.match(line)
        if m:
            if cur is None:
                cur = ['?', []]
                layers.append(cur)
            cur[1].append(tuple(int(x) for x in m.groups()))
            mode = None
            continue
        m = TOTAL_RE.match(line)
        if m:
            total = tuple(int(x) for x in m.groups())
            mode = None
            continue
        if line == 'Tests with errors:':
            mode = 'e'
            with_e = []
            continue
        if line == 'Tests with failures:':
            mode = 'f'
            with_f = []
            continue
        if mode and line.startswith('   '):
            (with_e if mode == 'e' else with_f).append(line[3:].strip())
            continue
        if mode and line.strip() == '':
            continue
        mode = None
    return {'layers': [(a, b) for a, b in layers], 'total': total,
            'with_failures': with_f, 'with_errors': with_e}


def verbosity(args):
    v = 0
    for a in args:
        if re.fullmatch(r'-v+', a):
            v += len(a) - 1
        elif a == '--verbose':
            v += 1
    return v


def selfcheck_model(kinds=None, excs=('ValueError', 'WorldAssertion')):
    """compare model_events with what the stdlib really does (plain TestResult)"""
    bad = []

    class Rec(unittest.TestResult):
        def __init__(self):
            super().__init__()
            self.events = []

        def addSuccess(self, test):
            self.events.append(('success', str(test)))

        def addError(self, test, err):
            self.events.append(('error', str(test)))

        def addFailure(self, test, err):
            self.events.append(('failure', str(test)))

        def addSkip(self, test, reason):
            self.events.append(('skip', str(test)))

        def addExpectedFailure(self, test, err):
            self.events.append(('xfail', str(test)))

        def addUnexpectedSuccess(self, test):
            self.events.append(('usuccess', str(test)))

        def addSubTest(self, test, subtest, err):
            if err is not None:
                self.events.append(
                    ('failure' if issubclass(err[0], test.failureException) else 'error',
                     str(subtest)))

    for kname in (kinds or KINDS):
        if kname == 'kbint':
            continue
        for exc in excs:
            spec = {'tests': [{'k': kname, 'exc': exc}]}
            w = World(spec, 'selfcheck')
            res = Rec()
            w.suite().run(res)
            want = [(c, w.test_name(0, sfx)) for c, sfx in model_events(spec['tests'][0])]
            if res.events != want:
                bad.append((kname, exc, res.events, want))
    return bad


# --------------------------------------------------------------------------
# exploration driver shared by the oracles


def case_size(case):
    spec = case.get('spec', case)
    return (len(spec.get('tests', ())) + len(spec.get('layers', ())),
            len(spec.get('args', ())), len(json.dumps(case, sort_keys=True)))


def explore(property_id, phases, check, budget_s, nontrivial, rule, bound):
    """phases: list of (label, exhaustive?, iterator of cases).  Cases are run in
    order until the budget is used up; `exhaustive` in the result is True iff
    every phase marked exhaustive was completed.

    check(case) -> list of (key, summary)
    """
    t0 = time.time()
    deadline = t0 + budget_s * 0.93
    findings = {}
    seen = set()
    distinct = set()
    samples = []
    cases = 0
    done_phases = []
    complete = True
    frozen = False
    try:
        gc.collect()
        gc.freeze()      # only makes gc.collect() of the runner cheap; no functional effect
        frozen = True
    except Exception:
        pass
    per_phase = {}
    try:
        for label, exhaustive, it in phases:
            n = 0
            finished = True
            for case in it:
                if time.time() > deadline:
                    finished = False
                    break
                js = json.dumps(case, sort_keys=True)
                if js in seen:
                    continue
                seen.add(js)
                cases += 1
                n += 1
                if nontrivial(case):
                    distinct.add(js)
                for key, summary in check(case):
                    old = findings.get(key)
                    if old is None or case_size(case) < case_size(old['case']):
                        findings[key] = {'key': key, 'summary': summary, 'case': case}
                if len(samples) < 5 and (n == 1 or (n in (7, 40) and len(samples) < 4)):
                    samples.append(case)
            per_phase[label] = {'cases': n, 'completed': finished}
            if exhaustive and not finished:
                complete = False
            if finished:
                done_phases.append(label)
            if time.time() > deadline:
                # remaining exhaustive phases were not even started
                rest = [p for p in phases if p[0] not in per_phase]
                for lab, ex, _ in rest:
                    per_phase[lab] = {'cases': 0, 'completed': False}
                    if ex:
                        complete = False
                break
    finally:
        if frozen:
            gc.unfreeze()
    return {
        'property': property_id,
        'cases': cases,
        'distinct': len(distinct),
        'rule': rule,
        'exhaustive': complete,
        'bound': bound,
        'phases': per_phase,
        'samples': samples[:5],
        'findings': sorted(findings.values(), key=lambda f: f['key']),
    }
