"""C18 - native bounded oracle: interpreter-global state is restored after an in-process run.

Property (properties.jsonl C18): after an in-process run returns - or is aborted by an
exception once the test phase has begun - the garbage-collector thresholds and debug
flags, the traceback formatting functions, the trace and profile hooks, the warnings
filters and sys.stdout/sys.stderr are what they were before the run, for every
combination of the options that change them.

The real `zope.testrunner.runner.Runner(...).run()` is executed in-process; a snapshot of
the state is taken immediately before and compared immediately after it returned/raised.

A case is JSON:
  {"opts": {"gc": [700, 10] | null,             # --gc N [--gc N [--gc N]]
            "gc_option": ["DEBUG_SAVEALL"] | null,   # -G FLAG ...
            "coverage": true|false,             # --coverage <tmpdir>
            "profile": "cProfile" | null,       # --profile P --profile-directory <tmpdir>
            "buffer": true|false,               # --buffer
            "warnings": "ignore" | null},       # Runner(warnings=...)
   "ending": "normal" | "failing-tests" | "stop-on-error" | "KeyboardInterrupt" |
             "testSetUp-hook-raises" | "testTearDown-hook-raises" | "layer-setUp-raises" |
             "layer-tearDown-raises",
   "ntests": 3, "at": 1,      # index of the test (or per-test hook call) at which it happens
   "pre": {"threshold": [701, 11, 9], "debug": 0, "trace": false}}
        # state installed by the harness before the run ("what they were before the run" is
        # deliberately not the interpreter default); "trace": a trace function is already
        # installed (sys.settrace + threading.settrace) when the run starts
-D (post-mortem) is interactive and not exercised.

Keys: <owner>:<ending>:<what>-not-restored, owner = the option owning that piece of state
(gc, gc-option, tb-format, coverage, profile, warnings, buffer / std when --buffer is off).
"""
import doctest
import gc
import io
import itertools
import logging
import os
import random
import shutil
import sys
import tempfile
import threading
import time
import traceback
import unittest
import warnings

PROPERTY = "C18"

ENDINGS = ("normal", "failing-tests", "stop-on-error", "KeyboardInterrupt",
           "testSetUp-hook-raises", "testTearDown-hook-raises", "layer-setUp-raises",
           "layer-tearDown-raises")
# endings after which Runner.run() is expected to raise
OPTION_NAMES = ("gc", "gc_option", "coverage", "profile", "buffer", "warnings")
GC_FLAGS = ("DEBUG_UNCOLLECTABLE", "DEBUG_SAVEALL")   # silent ones that exist on Python 3
WARNING_ARGS = ("ignore", "error", "always", "default", "module", "once")
MARKER = "c18-marker-filter"


ANOMALIES = []


class HookError(RuntimeError):
    pass


def _pre_tracer(frame, event, arg):
    return None


# ----------------------------------------------------------------------------
# suite generation

def _build(case):
    ending = case["ending"]
    n = case.get("ntests", 3)
    at = min(case.get("at", 1), n - 1)
    calls = {"setup": 0, "teardown": 0}

    class Layer:
        @classmethod
        def setUp(cls):
            if ending == "layer-setUp-raises":
                raise HookError("layer setUp")

        @classmethod
        def tearDown(cls):
            if ending == "layer-tearDown-raises":
                raise HookError("layer tearDown")

        @classmethod
        def testSetUp(cls):
            i = calls["setup"]
            calls["setup"] += 1
            if ending == "testSetUp-hook-raises" and i == at:
                raise HookError("testSetUp hook")

        @classmethod
        def testTearDown(cls):
            i = calls["teardown"]
            calls["teardown"] += 1
            if ending == "testTearDown-hook-raises" and i == at:
                raise HookError("testTearDown hook")
    Layer.__module__ = "c18gen"
    Layer.__name__ = Layer.__qualname__ = "Layer"

    ns = {"__module__": "c18gen"}

    def make(i):
        def test(self):
            print("stdout of test %d" % i)
            sys.stderr.write("stderr of test %d\n" % i)
            if i == 0 and case.get("test_sets_trace"):
                # a well-behaved test that uses a trace function of its own and takes it out again
                # (it puts back what it found when a hook was installed before the run, else the usual settrace(None))
                before = sys.gettrace() if case.get("pre", {}).get("trace") else None
                sys.settrace(_pre_tracer.__class__(_pre_tracer.__code__, globals(), "c18_test_tracer"))
                try:
                    len("traced")
                finally:
                    sys.settrace(before)
            if case.get("test_sets_gc_threshold") and i == 0:
                gc.set_threshold(50, 7, 3)       # a test tuning the collector for itself (all three generations)
            if case.get("last_test_resets_stdout") and i == n - 1:
                # a test that "resets" sys.stdout to the stream that was installed before the run and leaves it there:
                # sys.stdout is then the test's doing, but sys.stderr is still the runner's to put back
                sys.stdout = PRE_STREAMS["stdout"]
            if i == 0:
                warnings.warn("c18 deprecation", DeprecationWarning)
                warnings.simplefilter("ignore")        # a test meddling with the filters
            if i == at:
                if ending in ("failing-tests", "stop-on-error"):
                    self.fail("planned failure")
                if ending == "KeyboardInterrupt":
                    raise KeyboardInterrupt()
            if i == at + 1 and ending in ("failing-tests", "stop-on-error"):
                raise ValueError("planned error")
        return test
    for i in range(n):
        ns["test_%02d" % i] = make(i)
    T = type("T", (unittest.TestCase,), ns)
    suite = unittest.TestSuite([T("test_%02d" % i) for i in range(n)])
    suite.layer = Layer
    return suite, calls


def _argv(case, tmp):
    o = case["opts"]
    argv = ["c18", "--path", os.path.join(tmp, "src"), "-k"]
    for v in o.get("gc") or ():
        argv += ["--gc", str(v)]
    for f in o.get("gc_option") or ():
        argv += ["-G", f]
    if o.get("coverage"):
        argv += ["--coverage", os.path.join(tmp, "cov")]
    if o.get("profile"):
        argv += ["--profile", o["profile"], "--profile-directory", os.path.join(tmp, "prof")]
    if o.get("buffer"):
        argv += ["--buffer"]
    if case["ending"] == "stop-on-error":
        argv += ["--stop-on-error"]
    return argv


# ----------------------------------------------------------------------------
# state snapshot

def _monitoring_tools():
    """sys.monitoring (3.12+) tool names in use: cProfile registers itself there instead of
    going through sys.setprofile"""
    mon = getattr(sys, "monitoring", None)
    if mon is None:
        return None
    return tuple(mon.get_tool(i) for i in range(6))


def _free_monitoring_tools(keep):
    mon = getattr(sys, "monitoring", None)
    if mon is None:
        return
    for i in range(6):
        if mon.get_tool(i) is not None and (keep is None or keep[i] is None):
            try:
                mon.set_events(i, 0)
                mon.free_tool_id(i)
            except Exception:
                pass


def _snap():
    return {
        "sys.monitoring.tools": _monitoring_tools(),
        "gc.threshold": gc.get_threshold(),
        "gc.debug": gc.get_debug(),
        "traceback.format_exception": traceback.format_exception,
        "traceback.print_exception": traceback.print_exception,
        "sys.gettrace": sys.gettrace(),
        "sys.settrace": sys.settrace,
        "threading.gettrace": threading.gettrace(),
        "sys.getprofile": sys.getprofile(),
        "sys.setprofile": sys.setprofile,
        "threading.getprofile": threading.getprofile(),
        "warnings.filters": list(warnings.filters),
        "sys.stdout": sys.stdout,
        "sys.stderr": sys.stderr,
    }


BY_IDENTITY = ("traceback.format_exception", "traceback.print_exception", "sys.gettrace",
               "sys.settrace", "threading.gettrace", "sys.getprofile", "sys.setprofile",
               "threading.getprofile", "sys.stdout", "sys.stderr")
OWNER = {
    "gc.threshold": ("gc", "threshold"),
    "gc.debug": ("gc-option", "debug-flags"),
    "traceback.format_exception": ("tb-format", "traceback-functions"),
    "traceback.print_exception": ("tb-format", "traceback-functions"),
    "sys.gettrace": ("coverage", "trace-hook"),
    "sys.settrace": ("coverage", "trace-hook"),
    "threading.gettrace": ("coverage", "trace-hook"),
    "sys.monitoring.tools": ("profile", "profile-hook"),
    "sys.getprofile": ("profile", "profile-hook"),
    "sys.setprofile": ("profile", "profile-hook"),
    "threading.getprofile": ("profile", "profile-hook"),
    "warnings.filters": ("warnings", "warnings-filters"),
    "sys.stdout": ("buffer", "std-streams"),
    "sys.stderr": ("buffer", "std-streams"),
}


def _differs(name, a, b):
    if name in BY_IDENTITY:
        return a is not b
    return a != b


def _short(v):
    r = repr(v)
    return r if len(r) < 160 else r[:150] + "...%d chars" % len(r)


# ----------------------------------------------------------------------------

def _check(case):
    from zope.testrunner.profiling import available_profilers
    from zope.testrunner.runner import Runner
    o = case["opts"]
    if o.get("profile") and o["profile"] not in available_profilers:
        return []   # profiler not available here: option cannot be exercised
    pre = case.get("pre") or {}
    problems = []
    tmp = tempfile.mkdtemp(prefix="c18_")
    for d in ("src", "prof"):
        os.makedirs(os.path.join(tmp, d))
    # ---- true baseline (restored unconditionally at the end)
    base = _snap()
    base_path = list(sys.path)
    base_cwd = os.getcwd()
    base_filters_obj = warnings.filters
    root_logger = logging.getLogger()
    base_handlers = list(root_logger.handlers)
    base_flags = doctest.set_unittest_reportflags(0)
    doctest.set_unittest_reportflags(base_flags)
    base_garbage = len(gc.garbage)
    silencer_out, silencer_err = io.StringIO(), io.StringIO()
    try:
        suite, calls = _build(case)
        # ---- harness-installed pre-state
        gc.set_threshold(*pre.get("threshold", (701, 11, 9)))
        gc.set_debug(pre.get("debug", 0))
        warnings.filters[:] = list(base["warnings.filters"])
        warnings.filterwarnings("ignore", message=MARKER)
        sys.stdout, sys.stderr = silencer_out, silencer_err
        PRE_STREAMS["stdout"] = silencer_out
        if pre.get("trace") == "threading-only":      # a hook for NEW threads only (a thread monitor), none in this thread
            threading.settrace(_pre_tracer)
        elif pre.get("trace") == "sys-only":          # a debugger tracing this thread only
            sys.settrace(_pre_tracer)
        elif pre.get("trace"):
            threading.settrace(_pre_tracer)
            sys.settrace(_pre_tracer)
        runner = Runner(defaults=[], args=_argv(case, tmp), found_suites=[suite],
                        warnings=o.get("warnings"))
        before = _snap()
        exc = None
        try:
            runner.run()
        except BaseException as e:  # noqa: B902 - KeyboardInterrupt is one of the endings
            exc = e
        after = _snap()
        # ---- put the harness' own pre-state away before anything else can go wrong
        base["sys.settrace"](None)
        threading.settrace(None)
        sys.stdout, sys.stderr = base["sys.stdout"], base["sys.stderr"]

        ending = case["ending"]
        expect_raise = {"KeyboardInterrupt": KeyboardInterrupt,
                        "testSetUp-hook-raises": HookError,
                        "testTearDown-hook-raises": HookError}.get(ending)
        if expect_raise is None and exc is not None:
            if isinstance(exc, SystemExit):
                return []      # option combination rejected before the test phase
            # not a planned abort: which exception propagates is not C18's business; noted
            # for the harness report, the state comparison below still applies
            ANOMALIES.append("%s: Runner.run() raised %r" % (ending, exc))
        if exc is not None and not calls["setup"]:
            return problems     # aborted before the test phase began: outside the property
        seen = set()
        for name in before:
            if not _differs(name, before[name], after[name]):
                continue
            owner, what = OWNER[name]
            if owner == "buffer" and not o.get("buffer"):
                owner = "std"
            if what in seen:
                continue
            seen.add(what)
            if what == "trace-hook" and pre.get("trace") and o.get("coverage"):
                key = "coverage:pre-existing-trace-hook:not-restored"
                text = ("a trace function was installed (sys.settrace / threading.settrace) "
                        "before the run; with --coverage it is gone afterwards: %s was %s, is %s "
                        "(coverage.TestTrace.stop() sets the hooks to None instead of the "
                        "previous values)" % (name, _short(before[name]), _short(after[name])))
            else:
                key = "%s:%s:%s-not-restored" % (owner, ending, what)
                text = ("%s was %s before Runner.run() and is %s after it %s (options %s)"
                        % (name, _short(before[name]), _short(after[name]),
                           "raised %r" % (exc,) if exc is not None else "returned",
                           " ".join(_argv(case, "<tmp>")[4:]) +
                           (" warnings=%r" % o["warnings"] if o.get("warnings") else "")))
            problems.append((key, text))
    finally:
        # ---- unconditional restore of the true baseline
        sys.settrace = base["sys.settrace"]
        sys.setprofile = base["sys.setprofile"]
        sys.settrace(base["sys.gettrace"])
        threading.settrace(base["threading.gettrace"])
        sys.setprofile(base["sys.getprofile"])
        threading.setprofile(base["threading.getprofile"])
        _free_monitoring_tools(base["sys.monitoring.tools"])
        sys.stdout, sys.stderr = base["sys.stdout"], base["sys.stderr"]
        gc.set_threshold(*base["gc.threshold"])
        gc.set_debug(base["gc.debug"])
        del gc.garbage[base_garbage:]
        traceback.format_exception = base["traceback.format_exception"]
        traceback.print_exception = base["traceback.print_exception"]
        warnings.filters = base_filters_obj
        warnings.filters[:] = base["warnings.filters"]
        if hasattr(warnings, "_filters_mutated"):
            warnings._filters_mutated()
        sys.path[:] = base_path
        os.chdir(base_cwd)
        root_logger.handlers[:] = base_handlers
        doctest.set_unittest_reportflags(base_flags)
        sys.modules.pop("c18gen", None)
        shutil.rmtree(tmp, ignore_errors=True)
    out = {}
    for k, s in problems:
        out.setdefault(k, s)
    return list(out.items())


# ----------------------------------------------------------------------------
# case generation

def _opts(subset, rnd=None):
    o = {"gc": None, "gc_option": None, "coverage": False, "profile": None, "buffer": False,
         "warnings": None}
    if "gc" in subset:
        o["gc"] = [700] if rnd is None else \
            [rnd.choice((0, 1, 5, 700, 100000)) for _ in range(rnd.randint(1, 3))]
    if "gc_option" in subset:
        o["gc_option"] = ["DEBUG_SAVEALL"] if rnd is None else \
            rnd.sample(GC_FLAGS, rnd.randint(1, 2))
    if "coverage" in subset:
        o["coverage"] = True
    if "profile" in subset:
        o["profile"] = "cProfile"
    if "buffer" in subset:
        o["buffer"] = True
    if "warnings" in subset:
        o["warnings"] = "ignore" if rnd is None else rnd.choice(WARNING_ARGS)
    return o


def _subsets():
    for k in range(len(OPTION_NAMES) + 1):
        for s in itertools.combinations(OPTION_NAMES, k):
            yield s


PRE_STREAMS = {}


def _catalogue():
    """every subset of the six options x every ending (fixed option values, at=1, 3 tests)"""
    for ending in ENDINGS:
        for s in _subsets():
            yield {"opts": _opts(s), "ending": ending, "ntests": 3, "at": 1,
                   "pre": {"threshold": [701, 11, 9], "debug": 0, "trace": False}}


def _extras():
    # --gc with 1, 2, 3 values incl. 0 (= disabled); -G flag sets; each warnings argument
    for ending in ("normal", "KeyboardInterrupt", "testSetUp-hook-raises"):
        for g in ([0], [1], [700, 10], [700, 10, 5], [0, 0, 0]):
            yield {"opts": dict(_opts(()), gc=g), "ending": ending, "ntests": 3, "at": 1,
                   "pre": {"threshold": [702, 12, 8], "debug": 0, "trace": False}}
        for f in (["DEBUG_UNCOLLECTABLE"], ["DEBUG_SAVEALL"], list(GC_FLAGS)):
            yield {"opts": dict(_opts(()), gc_option=f), "ending": ending, "ntests": 3, "at": 1,
                   "pre": {"threshold": [701, 11, 9], "debug": gc.DEBUG_UNCOLLECTABLE,
                           "trace": False}}
        for w in WARNING_ARGS:
            yield {"opts": dict(_opts(()), warnings=w), "ending": ending, "ntests": 3, "at": 1,
                   "pre": {"threshold": [701, 11, 9], "debug": 0, "trace": False}}
    # the event at the first / last test
    for ending in ENDINGS:
        for at in (0, 2):
            yield {"opts": _opts(OPTION_NAMES), "ending": ending, "ntests": 3, "at": at,
                   "pre": {"threshold": [701, 11, 9], "debug": 0, "trace": False}}
    # a test installs a trace function of its own and removes it again (with and without one installed before the run)
    for ending in ("normal", "KeyboardInterrupt", "failing-tests"):
        for s in (("coverage",), (), ("coverage", "buffer")):
            for pre_trace in (False, True):
                yield {"opts": _opts(s), "ending": ending, "ntests": 3, "at": 1, "test_sets_trace": True,
                       "pre": {"threshold": [701, 11, 9], "debug": 0, "trace": pre_trace}}
    # a test changes all three collector thresholds while --gc was given fewer than three values
    for ending in ("normal", "failing-tests"):
        for g in ([200], [200, 20], [200, 20, 5]):
            yield {"opts": dict(_opts(()), gc=g), "ending": ending, "ntests": 2, "at": 1, "test_sets_gc_threshold": True,
                   "pre": {"threshold": [702, 12, 8], "debug": 0, "trace": False}}
    # the last test of the run sets sys.stdout back to the pre-run stream itself (only sys.stderr is left to the runner)
    for ending in ("normal", "failing-tests"):
        for s in (("buffer",), ("buffer", "coverage")):
            for n in (1, 3):
                yield {"opts": _opts(s), "ending": ending, "ntests": n, "at": 0, "last_test_resets_stdout": True,
                       "pre": {"threshold": [701, 11, 9], "debug": 0, "trace": False}}
    # the two trace hooks differ before the run (one of them set, the other not): each is put back as it was
    for which in ("threading-only", "sys-only"):
        for s in (("coverage",), ("coverage", "buffer")):
            yield {"opts": _opts(s), "ending": "normal", "ntests": 2, "at": 1,
                   "pre": {"threshold": [701, 11, 9], "debug": 0, "trace": which}}
    # a trace function already installed before the run
    for ending in ("normal", "KeyboardInterrupt"):
        for s in ((), ("coverage",), ("profile",), ("coverage", "profile", "buffer")):
            yield {"opts": _opts(s), "ending": ending, "ntests": 2, "at": 1,
                   "pre": {"threshold": [701, 11, 9], "debug": 0, "trace": True}}


def _random_case(rnd):
    s = [n for n in OPTION_NAMES if rnd.random() < 0.5]
    n = rnd.randint(1, 5)
    return {"opts": _opts(s, rnd), "ending": rnd.choice(ENDINGS), "ntests": n,
            "at": rnd.randrange(n),
            "pre": {"threshold": [rnd.choice((700, 701, 50)), rnd.choice((10, 11)), 9],
                    "debug": rnd.choice((0, 0, gc.DEBUG_UNCOLLECTABLE)),
                    "trace": rnd.random() < 0.1}}


def _size(case):
    o = case["opts"]
    n = sum(1 for k in OPTION_NAMES if o.get(k))
    return (n, bool(case.get("pre", {}).get("trace")), case["ending"] != "normal",
            case.get("ntests", 3),
            len(o.get("gc") or ()), str(case))


def run(budget_s, seed, tier):
    t0 = time.time()
    deadline = t0 + budget_s * 0.9
    rnd = random.Random(seed)
    cases = 0
    distinct = set()
    findings = {}
    samples = []
    del ANOMALIES[:]

    def do(case):
        nonlocal cases
        cases += 1
        if any(case["opts"].get(k) for k in OPTION_NAMES):
            distinct.add(repr(case))
        for key, summary in _check(case):
            old = findings.get(key)
            if old is None or _size(case) < _size(old["case"]):
                findings[key] = {"key": key, "summary": summary, "case": case}

    done = True
    n_cat = 0
    # the extras (specific histories: hooks installed before the run, a test using a trace function of its own, ...) come
    # first: they are few; the catalogue of option subsets fills the rest of the budget
    for case in itertools.chain(_extras(), _catalogue()):
        if time.time() > deadline:
            done = False
            break
        do(case)
        n_cat += 1
        if n_cat in (70, 300):
            samples.append(case)
    n_rand = 0
    cap = 400 if tier == "quick" else 10 ** 9
    while time.time() < deadline and n_rand < cap:
        case = _random_case(rnd)
        do(case)
        n_rand += 1
        if len(samples) < 5 and n_rand % 37 == 1:
            samples.append(case)
    from zope.testrunner.profiling import available_profilers
    # a leak that already shows when the run ends normally subsumes the same leak at the
    # other endings: one defect, one key
    for key in list(findings):
        owner, ending, what = key.split(":", 2)
        if ending != "normal" and ending in ENDINGS and \
                "%s:normal:%s" % (owner, what) in findings:
            del findings[key]
    return {
        "cases": cases,
        "distinct": len(distinct),
        "rule": "a case = one in-process Runner.run() with a before/after snapshot of "
                "gc.get_threshold, gc.get_debug, traceback.format_exception/print_exception, "
                "sys.gettrace/settrace/getprofile/setprofile, threading.gettrace/getprofile, "
                "sys.monitoring tool ids, "
                "warnings.filters, sys.stdout, sys.stderr; non-trivial = at least one of the "
                "six state-changing options is used; the harness starts every run from a "
                "non-default state (gc threshold (701,11,9), an extra warnings filter, "
                "replaced std streams); %d runs ended with an exception that was not the "
                "planned abort%s" % (len(ANOMALIES), (": " + "; ".join(sorted(set(ANOMALIES))[:3]))
                                      if ANOMALIES else ""),
        "exhaustive": done,
        "bound": "catalogue %s (%d cases): all 64 subsets of {--gc, -G, --coverage, --profile "
                 "(available: %s), --buffer, warnings=} x %d endings %s, plus --gc with 1-3 "
                 "values (incl. 0), -G flag sets, all 6 warnings arguments, event at the "
                 "first/last test, a pre-installed trace function; then %d random cases "
                 "(random option values, 1-5 tests, random event position); -D not exercised "
                 "(interactive)"
                 % ("complete" if done else "INCOMPLETE (budget)", n_cat,
                    sorted(available_profilers), len(ENDINGS), list(ENDINGS), n_rand),
        "samples": samples[:5],
        "findings": sorted(findings.values(), key=lambda f: f["key"]),
    }


def replay(case):
    problems = _check(case)
    if problems:
        return True, "; ".join("%s: %s" % p for p in problems)
    return False, "no violation on this case"
