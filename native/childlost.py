"""Shared bounded scenario (C02, C07): a child process that cannot find the layer it was started for says so.

The real Runner is run in this process *as a child* (``--resume-layer NAME N`` with a NAME no registered layer has; the
parent starts children by name and relies on an error coming back when the name means nothing there).  Expected: the
run is failed, and the report the child writes for its parent (first line ``ran nfail nerr`` on the original stderr)
counts at least one error -- an error recorded by feature set-up BEFORE the test phase must still be there when the
report is written.  A handful of fixed cases (with / without other layers registered, -j style verbosity squelch).
"""
import io
import sys
import unittest


def _suite(with_layer):
    class L:
        __name__ = 'L'

        @classmethod
        def setUp(cls):
            pass

        @classmethod
        def tearDown(cls):
            pass
    L.__module__ = 'childlost_layers'

    class T(unittest.TestCase):
        def test_ok(self):
            pass
    T.__module__ = 'childlost_tests'
    if with_layer:
        T.layer = L
    return unittest.TestSuite([T('test_ok')])


def check_case(case):
    from zope.testrunner.runner import Runner
    args = ['childlost', '--resume-layer', case['resume'], str(case.get('number', 1))] + list(case.get('args', ()))
    saved = (sys.stdout, sys.stderr, list(sys.path))
    out, err = io.StringIO(), io.StringIO()
    out.close = lambda: None          # SubProcess.report closes sys.stdout
    sys.stdout, sys.stderr = out, err
    exc = None
    try:
        runner = Runner(defaults=[], args=args, found_suites=[_suite(case.get('with_layer', True))])
        try:
            runner.run()
        except Exception as e:        # noqa: BLE001 - reported
            exc = e
    finally:
        sys.stdout, sys.stderr = saved[0], saved[1]
        sys.path[:] = saved[2]
    v = []
    if exc is not None:
        return [('child-lost-layer:run-raises:%s' % type(exc).__name__, 'a child resumed for the unknown layer %r: Runner.run '
                 'raised %r' % (case['resume'], exc))]
    lines = err.getvalue().splitlines()
    head = None
    for ln in lines:
        parts = ln.split()
        if len(parts) == 3 and all(p.isdigit() for p in parts):
            head = [int(p) for p in parts]
            break
    if head is None:
        v.append(('child-lost-layer:no-report', 'a child resumed for the unknown layer %r wrote no report line; stderr: %r'
                  % (case['resume'], err.getvalue()[:300])))
    elif head[1] + head[2] == 0:
        v.append(('child-lost-layer:report-without-error',
                  'a child resumed for the unknown layer %r reports %r (ran, failures, errors): the parent will count the '
                  'layer as run without any problem although none of its tests ran' % (case['resume'], head)))
    if not runner.failed:
        v.append(('child-lost-layer:verdict-not-failed', 'a child resumed for the unknown layer %r ends with failed == %r'
                  % (case['resume'], runner.failed)))
    return v


def cases():
    for resume in ('no.such.Layer', 'childlost_layers.Lx', 'zope.testrunner.layer.UnitTestsX'):
        for with_layer in (True, False):
            for args in ((), ('-j', '2'), ('-vv',)):
                yield {'extra': 'childlost', 'resume': resume, 'with_layer': with_layer, 'args': list(args)}


def run_extra(findings_add):
    n = 0
    for case in cases():
        n += 1
        for key, summary in check_case(case):
            findings_add(key, summary, case)
    return n


def replay(case):
    v = check_case(case)
    if v:
        return True, '; '.join('%s: %s' % x for x in v)
    return False, 'the child reports the missing layer as an error'
