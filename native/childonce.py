"""Shared bounded scenario (C03): one layer, one child process -- whatever the child's output looks like.

The real ``spawn_layer_in_subprocess`` is called against a fake child (``childworld.run_spawn``) that ends without a
report, with a truncated one, with noise only, or cannot be started at all.  A child that ended without (complete) report may
already have run every test of its layer; starting another child would run them a second time ("exactly once, in exactly one
process").  Expected: at most one child is created per call.  A fixed catalogue of child outputs.
"""
from native import childworld as cw

SPECS = [
    ('no-report', {'stdout': 'Running ...\n', 'stderr': ''}),
    ('noise-only', {'stdout': '', 'stderr': 'Traceback (most recent call last):\nKilled\n'}),
    ('header-only-truncated', {'stdout': 'x\n', 'stderr': '3 1 0\n'}),
    ('header-cut', {'stdout': '', 'stderr': '3 1'}),
    ('complete', {'stdout': 'ok\n', 'stderr': '3 0 0\n'}),
    ('complete-with-names', {'stdout': 'ok\n', 'stderr': '3 1 1\nt1 (m.T)\nt2 (m.T)\n'}),
    ('empty', {'stdout': '', 'stderr': ''}),
]


def check_case(case):
    spec = dict(SPECS)[case['child']]
    obs = cw.run_spawn(spec, layer_name='samplelayers.LayerX', verbose=case.get('verbose', 0),
                       collector=case.get('collector', 'deferred'))
    if obs.get('children', 0) > 1:
        return [('child-once:layer-spawned-again:%s' % case['child'],
                 'spawn_layer_in_subprocess created %d child processes for one layer when the child ended with %r / stderr %r'
                 % (obs['children'], spec['stdout'][:40], spec['stderr'][:40]))]
    return []


def cases():
    for name, _ in SPECS:
        for collector in ('deferred', 'keepalive'):
            yield {'extra': 'childonce', 'child': name, 'collector': collector}


def run_extra(findings_add):
    n = 0
    for case in cases():
        n += 1
        for key, summary in check_case(case):
            findings_add(key, summary, case)
    return n


def replay(case):
    v = check_case(case)
    if v:
        return True, '; '.join('%s: %s' % x for x in v)
    return False, 'one child per layer'
