"""C04 - exceptions raised by tests and layers are contained, never abort the run.

Oracle (on the real runner, in-process; a few cases with -j2 children):
  1. Runner.run() returns normally (no exception escapes);
  2. every selected test whose layer (and all its base layers) can be set up was
     really executed (the world's own trace has a 'run' event for it);
  3. every layer whose setUp succeeded got a tearDown call;
  4. a 'Ran N tests' line exists for every layer that could be set up, and the
     'Total:' line when more than one layer was scheduled;
  5. every faulty test / layer is recorded in runner.failures / runner.errors.
Unexpected successes are NOT part of this alphabet (no exception is raised by
such a test; the -v report crash they cause is reported under C12).
MemoryError / EndRun in layers are re-raised by design and are not generated.
"""
import itertools
import random

from native import testworld as tw

PROPERTY = 'C04'

# kinds in which some phase raises (or nothing raises: pass/xfail as neighbours)
ALPHABET = [k for k in tw.KINDS if k not in ('usuccess', 'kbint')]
REDUCED = ['pass', 'fail', 'error', 'sysexit', 'skip_body', 'xfail', 'sub2',
           'err_err_td', 'err_cleanup', 'err_setup']
LAYER_EXCS = ['ValueError', 'WorldError', 'EvilStr', 'Unicode', 'Chained', 'KeyError', 'Unhashable']
F1_KEY = 'buffer:second-result-event:AttributeError-aborts-run'


def restore_events(t):
    """number of result events of the test that call _restoreStdStreams"""
    k = tw.kind_of(t)
    if k['deco'] == 'skip':
        return 0
    return len(tw.model_events(t))


def raising(spec):
    n = 0
    for t in spec['tests']:
        k = tw.kind_of(t)
        if (k['setup'] != 'ok' or k['body'] != 'ok' or k['teardown'] != 'ok'
                or k['cleanup'] != 'ok' or any(s != 'ok' for s in k['subs'])):
            n += 1
    for ly in spec.get('layers', ()):
        if ly.get('setUp') or ly.get('tearDown'):
            n += 1
    return n


def check_obs(spec, obs):
    res = []
    args = spec.get('args', ())
    buffered = '--buffer' in args
    desc = '%s args=%s' % ([t['k'] for t in spec['tests']], list(args))
    if obs.exc is not None:
        e = obs.exc
        multi = [t['k'] for t in spec['tests'] if restore_events(t) >= 2]
        if (isinstance(e, AttributeError) and 'getvalue' in str(e) and buffered and multi
                and '_restoreStdStreams' in obs.exc_tb):
            res.append((F1_KEY,
                        'with --buffer a test producing a second result event (%s) makes '
                        '_restoreStdStreams call getvalue() on the already restored original '
                        'stream: %s: %s escapes Runner.run() and aborts the whole run'
                        % (multi[0], type(e).__name__, e)))
        else:
            where = obs.exc_tb.strip().split('\n')
            frame = [ln.strip() for ln in where if ln.strip().startswith('File "/repo')]
            res.append(('run-aborted:%s:%s' % (type(e).__name__,
                                               (frame[-1].split(', in ')[-1] if frame else '?')),
                        '%s escaped Runner.run(): %r; world %s' % (type(e).__name__, e, desc)))
        return res
    mod = obs.modname
    multi = [t['k'] for t in spec['tests'] if restore_events(t) >= 2]
    if (buffered and multi and 'Could not communicate with subprocess' in obs.out
            and '_restoreStdStreams' in obs.out and "no attribute 'getvalue'" in obs.out):
        # the same defect inside a child process: the child dies, the parent only
        # sees "Could not communicate"; tests after it in that layer never run,
        # the layer is not torn down and its summary is missing.
        return [(F1_KEY + ':in-child',
                 'with --buffer a second result event (%s) in a child process (-j) kills the '
                 'child with AttributeError in _restoreStdStreams; the remaining tests of that '
                 'layer do not run, the layer is not torn down, no summary for it' % multi[0])]
    ran = {e[1] for e in obs.trace if e[0] == 'run'}
    for i, t in enumerate(spec['tests']):
        tid = 'T%02d' % i
        if tw.layer_can_set_up(spec, t.get('layer')) and tid not in ran:
            res.append(('test-not-run:%s' % fault_signature(spec, obs),
                        'test %s (%s) was selected, its layers can be set up, but it never '
                        'ran; world %s' % (tid, t['k'], desc)))
            break
    ups = {}
    downs = {}
    for e in obs.trace:
        if e[0] == 'layer_setUp_ok':
            ups[e[1]] = ups.get(e[1], 0) + 1
        elif e[0] == 'layer_tearDown':
            downs[e[1]] = downs.get(e[1], 0) + 1
    for name, n in ups.items():
        if downs.get(name, 0) < n:
            res.append(('layer-not-torn-down:%s' % fault_signature(spec, obs),
                        'layer %s was set up %d times but torn down %d times; world %s'
                        % (name, n, downs.get(name, 0), desc)))
            break
    parsed = tw.parse_output(obs.out)
    test_layers = tw.test_layers(spec)
    runnable = [ly for ly in test_layers if tw.layer_can_set_up(spec, ly)]
    have = {name for name, rans in parsed['layers'] if rans}
    for ly in runnable:
        if tw.full_layer_name(mod, ly) not in have:
            res.append(('no-layer-summary:%s' % fault_signature(spec, obs),
                        "no 'Ran N tests' line for layer %s; world %s" % (ly, desc)))
            break
    if len(test_layers) > 1 and parsed['total'] is None:
        res.append(('no-total-line:%s' % fault_signature(spec, obs),
                    "no 'Total:' line although %d layers were scheduled; world %s"
                    % (len(test_layers), desc)))
    # recorded against that test / layer
    for i, t in enumerate(spec['tests']):
        if not tw.layer_can_set_up(spec, t.get('layer')) or ('T%02d' % i) not in ran:
            continue
        for cat, sfx in tw.model_events(t):
            name = 'test_x (%s.T%02d.test_x)%s' % (mod, i, sfx)
            if cat == 'failure' and name not in obs.failure_names:
                res.append(('failure-not-recorded:%s' % t['k'],
                            'failing %s not in runner.failures; world %s' % (name, desc)))
            if cat == 'error' and name not in obs.error_names:
                res.append(('error-not-recorded:%s' % t['k'],
                            'erroring %s not in runner.errors; world %s' % (name, desc)))
    # layer faults: a setUp fault is observable iff the setUp was really attempted
    attempted = {e[1] for e in obs.trace if e[0] == 'layer_setUp'}
    torn = {e[1] for e in obs.trace if e[0] == 'layer_tearDown'}
    for ly in spec.get('layers', ()):
        if ly.get('setUp') and ly['name'] in attempted:
            # the runner records the failure against the layer it was asked to set
            # up, which may be a layer derived from the one whose setUp raised
            n = 'Layer: %s.%s.setUp' % (mod, ly['name'])
            ok_names = ['Layer: %s.%s.setUp' % (mod, d['name'])
                        for d in spec['layers'] if ly['name'] in tw.layer_closure(spec, d['name'])]
            if not any(x in obs.error_names for x in ok_names):
                res.append(('layer-setUp-fault-not-recorded',
                            '%s not in runner.errors; world %s' % (n, desc)))
        if ly.get('tearDown') and ly['name'] in torn:
            n = 'Layer: %s.%s.tearDown' % (mod, ly['name'])
            if n not in obs.error_names:
                res.append(('layer-tearDown-fault-not-recorded',
                            '%s not in runner.errors; world %s' % (n, desc)))
    if raising(spec) and any(
            tw.is_bad(t) and tw.layer_can_set_up(spec, t.get('layer'))
            for t in spec['tests']) and not obs.failed:
        res.append(('verdict-passed-despite-faults', 'runner.failed is False; world %s' % desc))
    return res


def fault_signature(spec, obs=None):
    """minimal signature of a containment failure: the last fault that really
    happened (kind of the last bad test that ran, or the layer hook that raised
    after it), plus 'buffer' when buffering is on"""
    last = None
    if obs is not None:
        kinds = {('T%02d' % i): t for i, t in enumerate(spec['tests'])}
        by = {ly['name']: ly for ly in spec.get('layers', ())}
        for e in obs.trace:
            if e[0] == 'ran' and e[1] in kinds and tw.is_bad(kinds[e[1]]):
                last = kinds[e[1]]['k']
            elif e[0] == 'layer_setUp' and by.get(e[1], {}).get('setUp'):
                last = 'layer.setUp'
            elif e[0] == 'layer_tearDown' and by.get(e[1], {}).get('tearDown'):
                last = 'layer.tearDown'
    if last is None:
        last = 'no-fault'
    return 'after:' + last + (':buffer' if '--buffer' in spec.get('args', ()) else '')


def check(case):
    spec = case['spec']
    obs = tw.execute(spec, file_based=(case.get('mode') == 'files'))
    return check_obs(spec, obs)


# --------------------------------------------------------------------------
# enumeration

VERB = [[], ['-v'], ['-vv'], ['-vvv']]


def gen_singles():
    for k in ALPHABET:
        for buf in ([], ['--buffer']):
            for v in VERB:
                yield {'spec': {'tests': [{'k': k}, {'k': 'pass'}], 'args': v + buf}}


def gen_pairs():
    for a, b in itertools.product(REDUCED, REDUCED):
        for buf in ([], ['--buffer']):
            yield {'spec': {'tests': [{'k': a}, {'k': b}, {'k': 'pass'}], 'args': ['-v'] + buf}}


def gen_exceptions():
    phases = ['err_setup', 'error', 'sub_err', 'err_td', 'err_cleanup', 'err_err_td']
    for exc in tw.EXC_NAMES + ['WorldAssertion', 'NotImplementedError']:
        for k in phases:
            for buf in ([], ['--buffer']):
                yield {'spec': {'tests': [{'k': 'pass'}, {'k': k, 'exc': exc}, {'k': 'pass'}],
                                'args': ['-vv'] + buf}}
    # the same in layer setUp / tearDown, at the first / middle / last layer
    for exc in LAYER_EXCS + ['StopIteration', 'OSError', 'Multiline']:
        for pos in range(3):
            for hook in ('setUp', 'tearDown'):
                for buf in ([], ['--buffer']):
                    layers = [{'name': 'LA'}, {'name': 'LB'}, {'name': 'LC'}]
                    layers[pos][hook] = exc
                    tests = [{'k': 'pass', 'layer': 'LA'}, {'k': 'error', 'layer': 'LA'},
                             {'k': 'pass', 'layer': 'LB'}, {'k': 'fail', 'layer': 'LB'},
                             {'k': 'pass', 'layer': 'LC'}, {'k': 'pass'}]
                    yield {'spec': {'layers': layers, 'tests': tests, 'args': ['-v'] + buf}}


def gen_layer_shapes():
    """base/derived layers: every single and every pair of setUp/tearDown faults"""
    names = ['L0', 'LA', 'LB', 'LC']
    bases = {'L0': [], 'LA': ['L0'], 'LB': ['L0'], 'LC': []}
    hooks = [(n, h) for n in names for h in ('setUp', 'tearDown')]
    combos = [()] + [(h,) for h in hooks] + list(itertools.combinations(hooks, 2))
    for combo in combos:
        for buf in ([], ['--buffer']):
            layers = [{'name': n, 'bases': bases[n]} for n in names]
            for n, h in combo:
                [ly for ly in layers if ly['name'] == n][0][h] = 'WorldError'
            tests = [{'k': 'pass'}, {'k': 'pass', 'layer': 'LA'}, {'k': 'error', 'layer': 'LA'},
                     {'k': 'fail', 'layer': 'LB'}, {'k': 'pass', 'layer': 'LB'},
                     {'k': 'pass', 'layer': 'LC'}, {'k': 'pass', 'layer': 'L0'}]
            yield {'spec': {'layers': layers, 'tests': tests, 'args': ['-v'] + buf}}


def gen_children():
    """a few worlds run with -j2 (every layer in a child process)"""
    base_layers = [{'name': 'LA'}, {'name': 'LB'}]
    for kinds, lf, buf in [
            (['error', 'sysexit', 'err_cleanup', 'pass'], None, []),
            (['sub2', 'fail', 'err_setup', 'pass'], ('LA', 'setUp'), []),
            (['err_td', 'pass', 'error', 'pass'], ('LA', 'tearDown'), []),
            (['err_err_td', 'pass', 'pass', 'pass'], None, ['--buffer']),
            (['fail', 'pass', 'error', 'pass'], None, ['--buffer'])]:
        layers = [dict(ly) for ly in base_layers]
        if lf:
            [ly for ly in layers if ly['name'] == lf[0]][0][lf[1]] = 'ValueError'
        tests = [{'k': kinds[0], 'layer': 'LA'}, {'k': kinds[1], 'layer': 'LA'},
                 {'k': kinds[2], 'layer': 'LB'}, {'k': kinds[3], 'layer': 'LB'}]
        yield {'spec': {'layers': layers, 'tests': tests, 'args': ['-v', '-j2'] + buf},
               'mode': 'files'}


def random_spec(rng, alphabet, max_tests=6, layer_fault_p=0.25, args_pool=None,
                tear_fault=True):
    nl = rng.randint(0, 3)
    layers = []
    for i in range(nl):
        ly = {'name': 'L%s' % 'ABCD'[i]}
        if layers and rng.random() < 0.4:
            ly['bases'] = [rng.choice(layers)['name']]
        if rng.random() < layer_fault_p:
            ly['setUp'] = rng.choice(LAYER_EXCS)
        if tear_fault and rng.random() < layer_fault_p:
            ly['tearDown'] = rng.choice(LAYER_EXCS)
        layers.append(ly)
    tests = []
    for i in range(rng.randint(2, max_tests)):
        t = {'k': rng.choice(alphabet)}
        if rng.random() < 0.3:
            t['exc'] = rng.choice(tw.EXC_NAMES + ['WorldAssertion'])
        if layers and rng.random() < 0.7:
            t['layer'] = rng.choice(layers)['name']
        tests.append(t)
    args = list(rng.choice(VERB))
    if rng.random() < 0.5:
        args.append('--buffer')
    spec = {'tests': tests, 'args': args}
    if layers:
        spec['layers'] = layers
    return spec


def gen_random(seed, tier='quick'):
    rng = random.Random(seed)
    p_files = 0.03 if tier == 'thorough' else 0.0
    while True:
        # two streams: single-event alphabet and full alphabet
        alpha = ALPHABET if rng.random() < 0.5 else [
            k for k in ALPHABET if restore_events({'k': k}) < 2]
        spec = random_spec(rng, alpha)
        if rng.random() < p_files:
            for ly in spec.get('layers', ()):
                ly.pop('tearDown', None)
            spec['args'] += ['-j2']
            yield {'spec': spec, 'mode': 'files'}
        else:
            yield {'spec': spec}


def run(budget_s, seed, tier):
    phases = [
        ('singles: every kind x buffer x -v0..3', True, gen_singles()),
        ('exceptions: 11 classes x 6 test phases, 9 classes x layer hook x 3 positions, x buffer',
         True, gen_exceptions()),
        ('pairs over reduced alphabet x buffer', True, gen_pairs()),
        ('layer shapes: 0..2 hook faults in a 4-layer graph x buffer', True, gen_layer_shapes()),
        ('children (-j2), 5 worlds', False, gen_children()),
        ('random', False, gen_random(seed, tier)),
    ]
    return tw.explore(
        PROPERTY, phases, check, budget_s,
        nontrivial=lambda c: raising(c['spec']) > 0,
        rule='a case is non-trivial when at least one test phase or layer hook raises',
        bound='exhaustive: every test kind of a %d-kind alphabet alone (x --buffer x -v0..3); '
              'every pair over a %d-kind alphabet (x --buffer); %d exception classes in every '
              'test phase and layer hook at 3 positions; 0..2 layer-hook faults in a fixed '
              '4-layer graph; then seeded random worlds of 2-6 tests / 0-3 layers'
              % (len(ALPHABET), len(REDUCED), len(tw.EXC_NAMES) + 2))


def replay(case):
    res = check(case)
    if res:
        return True, '; '.join('%s: %s' % r for r in res)[:2000]
    return False, 'no violation observed'
