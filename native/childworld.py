"""Shared helpers for the C02 / C06 / C07 native oracles.

Three kinds of machinery, all driving the REAL zope.testrunner code:

* fake child  : the real ``runner.spawn_layer_in_subprocess`` with the name
                ``subprocess`` *inside runner's namespace* replaced by a shim
                whose ``Popen`` hands out scripted stdout / stderr bytes
                (``run_spawn``); the real child side ``process.SubProcess``
                (``real_child_report``) for round trips.
* fake threads: the real ``runner.resume_tests`` with ``threading`` / ``time``
                inside runner's namespace replaced by shims, so that the
                finish order of the "children" follows a generated schedule
                (``run_schedule``).
* real worlds : temp-dir test packages generated from a JSON spec and run end
                to end by a driver subprocess that calls the real ``Runner``
                (children are real processes, ``_boot.CHILD_SCRIPT_PARTS``).

Nothing under /repo is touched; every shim is confined to the runner module's
globals and restored in ``finally``.
"""
import contextlib
import errno
import io
import json
import os
import queue
import shutil
import signal
import subprocess
import sys
import tempfile
import threading
import time
import types

from native import _boot

PY = '/venv/bin/python'
_LOCK = threading.RLock()          # shims on module globals are process wide


def rt():
    return _boot.boot()


# --------------------------------------------------------------------------
# small utilities
# --------------------------------------------------------------------------

def b2s(b):
    """bytes -> JSON-able latin-1 string"""
    return b.decode('latin-1')


def s2b(s):
    return s.encode('latin-1')


def norm(name):
    """names are compared modulo whitespace (the child itself joins the lines
    of a multi-line test id with blanks and strips it)"""
    return ' '.join(name.split())


@contextlib.contextmanager
def patched(obj, **names):
    saved = {}
    with _LOCK:
        for k, v in names.items():
            saved[k] = getattr(obj, k)
            setattr(obj, k, v)
        try:
            yield
        finally:
            for k, v in saved.items():
                setattr(obj, k, v)


class RecOutput:
    """minimal recording formatter: accepts every formatter call"""

    def __init__(self):
        self.calls = []

    def __getattr__(self, name):
        if name.startswith('__'):
            raise AttributeError(name)

        def rec(*a, **k):
            self.calls.append((name, a))
        return rec

    def names(self):
        return [c[0] for c in self.calls]


class ByteSink:
    """a sys.stdout replacement that (only) accepts bytes and records writes"""

    def __init__(self, on_flush=None):
        self.chunks = []
        self.on_flush = on_flush

    def write(self, b):
        if not isinstance(b, (bytes, bytearray)):
            raise TypeError('bytes expected')
        if b:
            self.chunks.append(bytes(b))
        return len(b)

    def writelines(self, lines):
        for ln in lines:
            self.write(ln)

    def flush(self):
        if self.on_flush is not None:
            self.on_flush()

    def getvalue(self):
        return b''.join(self.chunks)


class TextSink(io.TextIOWrapper):
    """text stdout replacement with a bytes ``.buffer`` (what the formatter and
    resume_tests both can write to, ordered)"""

    def __init__(self):
        super().__init__(io.BytesIO(), encoding='utf-8',
                         errors='backslashreplace', newline='\n',
                         write_through=True)

    def getvalue(self):
        self.flush()
        return self.buffer.getvalue()


class Watchdog(Exception):
    pass


def call_with_watchdog(fn, timeout):
    """run fn() in a daemon thread; -> (terminated, exc, value)"""
    box = {}

    def target():
        try:
            box['value'] = fn()
        except BaseException as e:      # noqa: B902 - we report what escapes
            box['exc'] = e
    t = threading.Thread(target=target, daemon=True)
    t.start()
    t.join(timeout)
    if t.is_alive():
        return False, None, None
    return True, box.get('exc'), box.get('value')


# --------------------------------------------------------------------------
# fake child process
# --------------------------------------------------------------------------

class FakeStdout:
    def __init__(self, data, oserrors=()):
        self.lines = data.splitlines(True)
        self.i = 0
        self.calls = 0
        # oserrors: {call index: errno} -> raise OSError(errno) at that call
        self.oserrors = dict(oserrors)
        self.closed = False

    def readline(self):
        n = self.calls
        self.calls += 1
        if n in self.oserrors:
            e = self.oserrors[n]
            raise OSError(e, os.strerror(e))
        if self.i < len(self.lines):
            ln = self.lines[self.i]
            self.i += 1
            return ln
        return b''

    def read(self):
        rest = b''.join(self.lines[self.i:])
        self.i = len(self.lines)
        return rest

    def close(self):
        self.closed = True


class FakeStderr:
    def __init__(self, data):
        self.data = data
        self.closed = False

    def read(self):
        d, self.data = self.data, b''
        return d

    def close(self):
        self.closed = True


class FakePopen:
    def __init__(self, spec, args, kw):
        self.args = args
        self.kw = kw
        self.stdin = io.BytesIO()
        self.stdout = FakeStdout(
            s2b(spec.get('stdout', '')),
            {int(k): v for k, v in (spec.get('readline_errors') or {}).items()})
        self.stderr = FakeStderr(s2b(spec.get('stderr', '')))
        self.killed = 0
        self.reaped = 0
        self.returncode = None
        self.pid = -1

    def kill(self):
        self.killed += 1

    def communicate(self, input=None, timeout=None):
        self.reaped += 1
        self.returncode = -9
        return self.stdout.read(), self.stderr.read()

    def wait(self, timeout=None):
        self.reaped += 1
        return -9

    def poll(self):
        return self.returncode


def layer_of_args(args):
    i = list(args).index('--resume-layer')
    return args[i + 1]


class PopenFactory:
    """``specs``: {layer_name: spec} or one spec for every layer.
    spec keys: stdout, stderr (latin-1 strings), readline_errors {idx: errno},
    popen_raises (errno or None)"""

    def __init__(self, specs, per_layer=True, on_create=None):
        self.specs = specs
        self.per_layer = per_layer
        self.created = []
        self.on_create = on_create

    def __call__(self, args, **kw):
        spec = self.specs[layer_of_args(args)] if self.per_layer \
            else self.specs
        if spec.get('popen_raises') is not None:
            e = int(spec['popen_raises'])
            raise OSError(e, os.strerror(e))
        p = FakePopen(spec, args, kw)
        self.created.append(p)
        if self.on_create is not None:
            self.on_create(p)
        return p


def subprocess_shim(factory):
    return types.SimpleNamespace(Popen=factory, PIPE=subprocess.PIPE,
                                 STDOUT=subprocess.STDOUT)


def spawn_options(verbose=0, processes=2, output=None):
    return types.SimpleNamespace(
        output=output if output is not None else RecOutput(),
        verbose=verbose, processes=processes,
        testrunner_defaults=[], original_testrunner_args=['test'],
        subunit=False, subunit_v2=False, resume_layer=None, resume_number=0)


def make_report(ran, fails, errs, eol='\n'):
    """the wire format of process.SubProcess.report (names are latin-1 strs
    standing for raw bytes) -> latin-1 str"""
    out = '%d %d %d%s' % (ran, len(fails), len(errs), eol)
    for n in list(fails) + list(errs):
        out += n + eol
    return out


def run_spawn(spec, layer_name='samplelayers.LayerX', verbose=0,
              collector='deferred', timeout=10.0):
    """call the real spawn_layer_in_subprocess against a fake child.
    -> dict(terminated, exc, num_ran, failures, errors, done, stdout, ...)"""
    runner = rt()
    out = RecOutput()
    options = spawn_options(verbose=verbose, output=out)
    q = queue.Queue()
    if collector == 'keepalive':
        result = runner.KeepaliveSubprocessResult(layer_name, q)
    else:
        result = runner.DeferredSubprocessResult(layer_name, None)
    failures, errors, skipped = [], [], []
    factory = PopenFactory(spec, per_layer=False)

    def call():
        runner.spawn_layer_in_subprocess(
            result, ['-c', 'pass'], options, [], layer_name, object,
            failures, errors, skipped, 1, None)

    with patched(runner, subprocess=subprocess_shim(factory)):
        terminated, exc, _ = call_with_watchdog(call, timeout)
    p = factory.created[0] if factory.created else None
    return {
        'terminated': terminated,
        'exc': type(exc).__name__ if exc is not None else None,
        'exc_msg': str(exc) if exc is not None else None,
        'num_ran': result.num_ran,
        'failures': [str(f[0]) for f in failures],
        'errors': [str(e[0]) for e in errors],
        'done': bool(result.done),
        'stdout': list(result.stdout),
        'queue': _drain(q),
        'children': len(factory.created),
        'killed': p.killed if p else None,
        'reaped': p.reaped if p else None,
        'output_calls': out.names(),
        'layer_name': layer_name,
    }


def _drain(q):
    items = []
    while True:
        try:
            items.append(q.get(False))
        except queue.Empty:
            return items


# --------------------------------------------------------------------------
# the real child side of the protocol
# --------------------------------------------------------------------------

class _Named:
    def __init__(self, s):
        self.s = s

    def __str__(self):
        return self.s


def real_child_report(ran, fail_names, err_names, processes=2,
                      encoding='utf-8', bare_fails=()):
    """run the real process.SubProcess.global_setup()+report() with a captured
    'original stderr' -> (the bytes the child puts on fd 2, exception|None).
    bare_fails: names appended to runner.failures as bare test objects, the
    way runner.run_tests appends result.unexpectedSuccesses"""
    rt()
    import zope.testrunner.process as process
    fake_runner = types.SimpleNamespace(
        options=types.SimpleNamespace(resume_layer='samplelayers.LayerX',
                                      processes=processes, verbose=3),
        ran=ran,
        failures=[(_Named(s), None) for s in fail_names] +
        [_Named(s) for s in bare_fails],
        errors=[(_Named(s), None) for s in err_names])
    feature = process.SubProcess(fake_runner)
    raw = io.BytesIO()
    wire = io.TextIOWrapper(raw, encoding=encoding, errors='backslashreplace',
                            newline='\n', line_buffering=True)
    exc = None
    with _LOCK:
        so, se = sys.stdout, sys.stderr
        try:
            sys.stderr = wire
            sys.stdout = io.StringIO()
            feature.global_setup()
            try:
                feature.report()
            except Exception as e:      # noqa: B902 - the child would die here
                exc = e
        finally:
            sys.stdout, sys.stderr = so, se
    wire.flush()
    return raw.getvalue(), exc


# --------------------------------------------------------------------------
# fake threads: the scheduler of resume_tests under a generated schedule
# --------------------------------------------------------------------------

class HangDetected(Exception):
    pass


class ScheduleWorld:
    """Drives the real resume_tests with scripted children.

    case = {k, n, verbose, order: [finish rank -> child index] or None,
            lines: [[latin-1 str, ...] per child], ran: [int per child],
            emit: 'at-finish' | 'round-robin', lag: 0|1,
            batch: None | [ints]  (how many children finish at each tick,
                                   cycled; default 1)}
    Logical time advances at the hook points the real loop offers:
    Thread.is_alive(), stdout.flush(), time.sleep().
    """

    MAX_TICKS = 5000

    def __init__(self, case):
        self.case = case
        self.k = case['k']
        self.n = case['n']
        self.order = list(case.get('order') or range(self.k))
        self.rank = {c: i for i, c in enumerate(self.order)}
        self.lines = [[s2b(x) for x in ls] for ls in case['lines']]
        self.emitted = [0] * self.k
        self.threads = []
        self.started = []           # child indexes in start order
        self.done = set()           # result.done set
        self.dead = set()           # is_alive() answers False
        self.noticed = set()        # scheduler saw is_alive() False
        self.noticed_prev = set()   # ... in an earlier loop iteration
        self.max_alive = 0
        self.ticks = 0
        self.violations = []
        self.first_poll_of_iteration = True
        self.batch = list(case.get('batch') or [1])
        self.lag = case.get('lag', 0)
        self.pending_dead = []      # children done, to die at the next tick

    # -- called by the shims ------------------------------------------------
    def new_thread(self, th):
        th.index = len(self.threads)
        self.threads.append(th)

    def on_start(self, th):
        if th.index in self.started:
            self.violations.append(('started-twice', th.index))
        self.started.append(th.index)
        alive = len(self.started) - len(self.dead)
        self.max_alive = max(self.max_alive, alive)
        if alive > self.n:
            self.violations.append(('more-than-N-alive', alive))

    def on_is_alive(self, th):
        if self.first_poll_of_iteration:
            self.first_poll_of_iteration = False
            unstarted = self.k - len(self.started)
            busy = len(self.started) - len(self.noticed_prev)
            if unstarted > 0 and busy < self.n:
                self.violations.append(('idle-slot', busy, unstarted))
        alive = th.index not in self.dead
        if not alive:
            self.noticed.add(th.index)
        return alive

    def on_sleep(self):
        self.ticks += 1
        if self.ticks > self.MAX_TICKS:
            raise HangDetected('scheduler loop did not end')
        self.noticed_prev = set(self.noticed)
        self.first_poll_of_iteration = True
        self.step()

    # -- the scripted children ------------------------------------------------
    def running(self):
        return [c for c in self.started
                if c not in self.done and c not in self.dead]

    def emit(self, c, upto):
        res = self.threads[c].result
        while self.emitted[c] < upto:
            res.write(self.lines[c][self.emitted[c]])
            self.emitted[c] += 1

    def finish(self, c):
        self.emit(c, len(self.lines[c]))
        res = self.threads[c].result
        res.num_ran = self.case['ran'][c]
        res.done = True
        self.done.add(c)
        if self.lag:
            self.pending_dead.append(c)
        else:
            self.dead.add(c)

    def step(self):
        for c in self.pending_dead:
            self.dead.add(c)
        self.pending_dead = []
        run = sorted(self.running(), key=lambda c: self.rank[c])
        if self.case.get('emit') == 'round-robin':
            for c in run:
                self.emit(c, min(len(self.lines[c]), self.emitted[c] + 1))
        nfinish = self.batch[(self.ticks - 1) % len(self.batch)]
        for c in run[:nfinish]:
            self.finish(c)


def make_thread_shims(world):
    class FakeThread:
        def __init__(self, group=None, target=None, name=None, args=(),
                     kwargs=None, daemon=None):
            self.target = target
            self.args = args
            self.result = args[0]
            self.layer_name = args[4]
            self.daemon = daemon
            world.new_thread(self)

        def start(self):
            world.on_start(self)

        def is_alive(self):
            return world.on_is_alive(self)

        isAlive = is_alive

        def join(self, timeout=None):
            return None

    thr = types.SimpleNamespace(Thread=FakeThread, Lock=threading.Lock,
                                RLock=threading.RLock, Event=threading.Event,
                                current_thread=threading.current_thread,
                                enumerate=threading.enumerate)
    tim = types.SimpleNamespace(time=time.time,
                                sleep=lambda s: world.on_sleep())
    return thr, tim


def run_schedule(case):
    """run the real resume_tests on a ScheduleWorld -> observation dict"""
    runner = rt()
    world = ScheduleWorld(case)
    thr, tim = make_thread_shims(world)
    sink = ByteSink()
    options = spawn_options(verbose=case['verbose'], processes=case['n'])
    class _Tests:                      # what resume_tests is handed per layer: a suite (later layers own MORE tests here)
        def __init__(self, n):
            self.n = n

        def countTestCases(self):
            return self.n
    layers = [('lay.L%d' % i, object, _Tests(i + 1)) for i in range(case['k'])]
    failures, errors, skipped = [], [], []
    exc = None
    ret = None
    with _LOCK:
        so = sys.stdout
        try:
            sys.stdout = sink
            with patched(runner, threading=thr, time=tim):
                try:
                    ret = runner.resume_tests(
                        ['-c', 'pass'], options, [], layers, failures, errors,
                        skipped, None)
                except HangDetected as e:
                    exc = e
                except Exception as e:      # noqa: B902
                    exc = e
        finally:
            sys.stdout = so
    return {
        'ret': ret, 'exc': repr(exc) if exc is not None else None,
        'hang': isinstance(exc, HangDetected),
        'out': sink.getvalue(), 'max_alive': world.max_alive,
        'violations': world.violations, 'started': list(world.started),
        'thread_layers': [t.layer_name for t in world.threads],
        'ticks': world.ticks,
    }


import re as _re
_DOTS = _re.compile(br'\.+(\r\n?|\n)').match


def check_blocks(out, blocks):
    """blocks: [bytes] in the sequential layer order.  Every block must occur in
    ``out`` exactly once, contiguous, at increasing offsets.  -> problem|None"""
    pos = 0
    for i, blk in enumerate(blocks):
        if not blk:
            continue
        cnt = out.count(blk)
        if cnt == 0:
            # is it there at all, but torn apart?
            first = blk.splitlines(True)[0]
            if first in out:
                return 'block-not-contiguous', i
            return 'block-missing', i
        if cnt > 1:
            return 'block-duplicated', i
        at = out.find(blk)
        if at < pos:
            return 'blocks-out-of-order', i
        pos = at + len(blk)
    # marker lines must not appear anywhere else
    for i, blk in enumerate(blocks):
        for ln in set(blk.splitlines(True)):
            if _DOTS(ln):
                continue            # keep-alive dots are not layer output
            if out.count(ln) != blk.count(ln):
                return 'line-duplicated-or-lost', i
    return None


# --------------------------------------------------------------------------
# real worlds
# --------------------------------------------------------------------------

WORLD_MODULE = r'''
import atexit, json, os, signal, sys, time, unittest
_HERE = os.path.dirname(os.path.abspath(__file__))
_W = json.load(open(os.path.join(_HERE, 'world.json')))
_TOP = os.path.dirname(_HERE)
_IN_CHILD = '--resume-layer' in sys.argv
if _IN_CHILD:
    _me = sys.argv[sys.argv.index('--resume-layer') + 1]
    def _life(tag):
        try:
            with open(os.path.join(_TOP, 'life.log'), 'a') as f:
                f.write('%s %s %d %r\n' % (tag, _me, os.getpid(),
                                          time.monotonic()))
        except Exception:
            pass
    _life('start')
    atexit.register(_life, 'end')
    for _act in _W.get('child_import', []):
        if _act[0] == 'exit' and _me.endswith('.' + _act[1]):
            os._exit(_act[2])


def _do(act, who):
    op = act[0]
    if op == 'print':
        sys.stdout.write(act[1]); sys.stdout.flush()
    elif op == 'stderr':
        sys.stderr.write(act[1]); sys.stderr.flush()
    elif op == 'fd2':
        os.write(2, act[1].encode('latin-1'))
    elif op == 'fd1':
        sys.stdout.flush(); os.write(1, act[1].encode('latin-1'))
    elif op == 'big':
        # act[1] in {'print','fd2'}, act[2] = number of 64-byte lines
        line = ('x' * 63 + '\n')
        if act[1] == 'fd2':
            data = (line * act[2]).encode()
            while data:
                n = os.write(2, data[:65536]); data = data[n:]
        else:
            sys.stdout.write(line * act[2]); sys.stdout.flush()
    elif op == 'exit':
        if _IN_CHILD:
            sys.stdout.flush()
            os._exit(act[1])
    elif op == 'kill':
        if _IN_CHILD:
            sys.stdout.flush()
            os.kill(os.getpid(), getattr(signal, act[1]))
            time.sleep(30)
    elif op == 'sleep':
        time.sleep(act[1])
    elif op == 'mark':
        open(os.path.join(_TOP, 'mark-' + act[1]), 'w').close()
    elif op == 'wait':
        # barrier: only in -j children of runs that enable barriers
        if _IN_CHILD and os.environ.get('ZTR_BARRIERS') == '1':
            end = time.time() + act[2]
            p = os.path.join(_TOP, 'mark-' + act[1])
            while not os.path.exists(p) and time.time() < end:
                time.sleep(0.01)
            if not os.path.exists(p):
                raise RuntimeError('barrier %s timed out in %s' % (act[1], who))
    elif op == 'raise':
        raise ValueError(act[1])
    elif op == 'nie':
        raise NotImplementedError
    else:
        raise AssertionError(op)


def _mk_layer(spec):
    def setUp(cls):
        for a in spec.get('setup', []):
            _do(a, spec['name'] + '.setUp')
    def tearDown(cls):
        for a in spec.get('teardown', []):
            _do(a, spec['name'] + '.tearDown')
    bases = tuple(globals()[b] for b in spec.get('bases', [])) or (object,)
    ly = type(spec['name'], bases, {'setUp': classmethod(setUp),
                                    'tearDown': classmethod(tearDown)})
    ly.__module__ = __name__
    return ly


def _mk_test(tspec, who):
    def body(self):
        for a in tspec.get('do', []):
            _do(a, who)
        oc = tspec.get('outcome', 'pass')
        if oc in ('fail', 'xfail'):
            self.fail('injected failure')
        if oc == 'error':
            raise KeyError('injected error')
        if oc == 'skip':
            self.skipTest('injected skip')
    if tspec.get('outcome') in ('xfail', 'uxsuccess'):
        body = unittest.expectedFailure(body)
    return body


for _l in _W['layers']:
    _ns = {}
    for _t in _l['tests']:
        _ns[_t['name']] = _mk_test(_t, _t['name'])
    if _l['name'] is not None:
        globals()[_l['name']] = _mk_layer(_l)
        _ns['layer'] = globals()[_l['name']]
    _cn = 'T_' + (_l['name'] or 'unit')
    _c = type(_cn, (unittest.TestCase,), _ns)
    _c.__module__ = __name__
    globals()[_cn] = _c
    del _c          # the loader must see every class once only
'''

DRIVER = _boot.BOOT + r'''
import json, os, sys, traceback
from zope.testrunner.runner import Runner
spec = json.load(open(sys.argv[1]))
res = {'exc': None}
r = Runner([], spec['args'], script_parts=spec['script_parts'], cwd=spec['cwd'])
try:
    r.run()
except SystemExit as e:
    res['exc'] = 'SystemExit(%r)' % (e.code,)
except BaseException as e:
    res['exc'] = type(e).__name__ + ': ' + str(e)
    traceback.print_exc(file=sys.stdout)
def _name(entry):
    # unexpected successes are appended as bare tests, not (test, exc_info)
    return str(entry[0]) if isinstance(entry, tuple) else str(entry)
res.update(failed=bool(r.failed), ran=r.ran,
           failures=[_name(f) for f in r.failures],
           errors=[_name(e) for e in r.errors],
           import_errors=[getattr(e, 'module', str(e)) for e in r.import_errors])
sys.stdout.flush()
with open(sys.argv[2], 'w') as f:
    json.dump(res, f)
sys.exit(int(bool(r.failed)))
'''

PKG = 'ztrw'
MOD = PKG + '.tests'


def test_id(layer_name, test_name):
    cls = 'T_' + (layer_name or 'unit')
    return '%s (%s.%s.%s)' % (test_name, MOD, cls, test_name)


def layer_id(layer_name):
    return 'zope.testrunner.layer.UnitTests' if layer_name is None \
        else MOD + '.' + layer_name


def build_world(world):
    top = tempfile.mkdtemp(prefix='ztrw-')
    pkg = os.path.join(top, PKG)
    os.mkdir(pkg)
    open(os.path.join(pkg, '__init__.py'), 'w').close()
    with open(os.path.join(pkg, 'tests.py'), 'w') as f:
        f.write(WORLD_MODULE)
    with open(os.path.join(pkg, 'world.json'), 'w') as f:
        json.dump(world, f)
    for i, kind in enumerate(world.get('bad_modules', [])):
        bad = os.path.join(top, 'ztrbad%d' % i)
        os.mkdir(bad)
        open(os.path.join(bad, '__init__.py'), 'w').close()
        with open(os.path.join(bad, 'tests.py'), 'w') as f:
            if kind == 'import-error':
                f.write('import nonexistent_module_for_ztr\n')
            elif kind == 'syntax-error':
                f.write('def broken(:\n')
            elif kind == 'no-tests':
                f.write('x = 1\n')
            else:
                f.write('raise RuntimeError("boom at import")\n')
    return top


_ACTIVE = set()


def kill_active():
    for p in list(_ACTIVE):
        try:
            os.killpg(p.pid, signal.SIGKILL)
        except Exception:
            pass


def run_world(top, extra_args=(), barriers=False, timeout=60.0, cwd=None,
              script_parts=None, env_extra=None):
    """one real Runner run (in a driver process) over the world in ``top``.
    -> dict(failed, ran, failures, errors, import_errors, exc, out, status,
            timed_out, life)"""
    fd, resf = tempfile.mkstemp(prefix='res-', suffix='.json', dir=top)
    os.close(fd)
    os.unlink(resf)
    specf = resf + '.spec'
    for fn in os.listdir(top):
        if fn.startswith('mark-') or fn == 'life.log':
            os.unlink(os.path.join(top, fn))
    with open(specf, 'w') as f:
        json.dump({'args': ['test', '--path', top] + list(extra_args),
                   'script_parts': script_parts or _boot.CHILD_SCRIPT_PARTS,
                   'cwd': cwd or top}, f)
    env = dict(os.environ)
    env.pop('ZTR_BARRIERS', None)
    env['PYTHONWARNINGS'] = 'ignore'
    env['PYTHONDONTWRITEBYTECODE'] = '1'
    if barriers:
        env['ZTR_BARRIERS'] = '1'
    if env_extra:
        env.update(env_extra)
    outf = resf + '.out'
    with open(outf, 'wb') as of:
        p = subprocess.Popen([PY, '-u', '-c', DRIVER, specf, resf],
                             stdout=of, stderr=subprocess.STDOUT,
                             stdin=subprocess.DEVNULL, cwd=top, env=env,
                             start_new_session=True)
        _ACTIVE.add(p)
        timed_out = False
        try:
            p.wait(timeout)
        except subprocess.TimeoutExpired:
            timed_out = True
        finally:
            try:
                os.killpg(p.pid, signal.SIGKILL)    # stray children, if any
            except Exception:
                pass
            p.wait()
            _ACTIVE.discard(p)
    res = {'failed': None, 'ran': None, 'failures': [], 'errors': [],
           'import_errors': [], 'exc': None}
    if os.path.exists(resf):
        with open(resf) as f:
            res.update(json.load(f))
    with open(outf, 'rb') as f:
        res['out'] = f.read().decode('utf-8', 'replace')
    res['status'] = p.returncode
    res['timed_out'] = timed_out
    life = []
    lf = os.path.join(top, 'life.log')
    if os.path.exists(lf):
        for ln in open(lf):
            parts = ln.split()
            if len(parts) == 4:
                life.append((parts[0], parts[1], int(parts[2]),
                             float(parts[3])))
    res['life'] = life
    for fn in (resf, specf, outf):
        try:
            os.unlink(fn)
        except OSError:
            pass
    return res


def remove_world(top):
    shutil.rmtree(top, ignore_errors=True)


def run_jobs(jobs, workers=6, deadline=None):
    """jobs: [callable]; run them on a small thread pool (each job is a driver
    subprocess, the pool just overlaps their waiting) -> [result|None]"""
    results = [None] * len(jobs)
    it = iter(enumerate(jobs))
    lock = threading.Lock()

    def work():
        while True:
            with lock:
                try:
                    i, job = next(it)
                except StopIteration:
                    return
            if deadline is not None and time.time() > deadline:
                continue
            try:
                results[i] = job()
            except Exception as e:      # noqa: B902
                results[i] = {'oracle_error': repr(e)}
    ts = [threading.Thread(target=work, daemon=True)
          for _ in range(max(1, workers))]
    for t in ts:
        t.start()
    for t in ts:
        t.join()
    return results


def max_overlap(life):
    """life: [(tag, layer, pid, t)] -> max number of simultaneously alive
    children (intervals start..end as logged by the children themselves; a
    child that never logged its end is counted up to the last event)"""
    start, end = {}, {}
    last = 0.0
    for tag, layer, pid, t in life:
        last = max(last, t)
        (start if tag == 'start' else end)[pid] = t
    ev = []
    for pid, t in start.items():
        ev.append((t, 1))
        ev.append((end.get(pid, t), -1))   # unknown end: count the instant only
    ev.sort(key=lambda x: (x[0], x[1]))
    cur = best = 0
    for _, d in ev:
        cur += d
        best = max(best, cur)
    return best


def expected_of_world(world):
    """what the world spec says must come out (independent of the mode)"""
    fails, errs, ran = set(), set(), 0
    layer_bad = False
    for ly in world['layers']:
        if any(a[0] == 'raise' for a in ly.get('setup', [])):
            layer_bad = True
            continue                      # its tests do not run
        if any(a[0] == 'raise' for a in ly.get('teardown', [])):
            layer_bad = True
        for t in ly['tests']:
            oc = t.get('outcome', 'pass')
            if oc != 'skip-at-collection':
                ran += 1
            if oc in ('fail', 'uxsuccess'):
                fails.add(test_id(ly['name'], t['name']))
            elif oc == 'error':
                errs.add(test_id(ly['name'], t['name']))
    bad_import = bool(world.get('bad_modules'))
    return {'ran': ran, 'failures': fails, 'errors': errs,
            'layer_bad': layer_bad, 'bad_import': bad_import,
            'failed': bool(fails or errs or layer_bad or bad_import)}


# --------------------------------------------------------------------------
# the CLI itself: zope.testrunner.run() -> process exit status
# --------------------------------------------------------------------------

CLI = _boot.BOOT + r'''
import json, sys
from zope.testrunner import run
spec = json.load(open(sys.argv[1]))
run(args=spec['args'], script_parts=spec['script_parts'], cwd=spec['cwd'])
'''


def run_cli(top, extra_args=(), timeout=60.0, cwd=None, barriers=False):
    """the real ``zope.testrunner.run`` in a process of its own
    -> dict(status, out, timed_out)"""
    fd, specf = tempfile.mkstemp(prefix='cli-', suffix='.json', dir=top)
    with os.fdopen(fd, 'w') as f:
        json.dump({'args': ['test', '--path', top] + list(extra_args),
                   'script_parts': _boot.CHILD_SCRIPT_PARTS,
                   'cwd': cwd or top}, f)
    env = dict(os.environ)
    env.pop('ZTR_BARRIERS', None)
    env['PYTHONDONTWRITEBYTECODE'] = '1'
    if barriers:
        env['ZTR_BARRIERS'] = '1'
    outf = specf + '.out'
    with open(outf, 'wb') as of:
        p = subprocess.Popen([PY, '-u', '-c', CLI, specf], stdout=of,
                             stderr=subprocess.STDOUT,
                             stdin=subprocess.DEVNULL, cwd=top, env=env,
                             start_new_session=True)
        _ACTIVE.add(p)
        timed_out = False
        try:
            p.wait(timeout)
        except subprocess.TimeoutExpired:
            timed_out = True
        finally:
            try:
                os.killpg(p.pid, signal.SIGKILL)
            except Exception:
                pass
            p.wait()
            _ACTIVE.discard(p)
    with open(outf, 'rb') as f:
        out = f.read().decode('utf-8', 'replace')
    for fn in (specf, outf):
        try:
            os.unlink(fn)
        except OSError:
            pass
    return {'status': p.returncode, 'out': out, 'timed_out': timed_out}


def layers_in_child(world, args):
    """which layers of the world run in a subprocess for these arguments:
    -j N (N > 1): all of them; otherwise the layers after the first one whose
    tearDown is not supported"""
    jn = any(a.startswith('-j') and a not in ('-j1', '-j') for a in args)
    flags, seen_nie = [], False
    for ly in world['layers']:
        flags.append(bool(jn or seen_nie))
        if any(a[0] == 'nie' for a in ly.get('teardown', [])):
            seen_nie = True
    return flags
