"""Dispatcher for the native (real-code) bounded oracles; run with /venv/bin/python."""
import argparse
import importlib
import json
import os
import sys
import time

sys.path.insert(0, os.path.dirname(os.path.dirname(os.path.abspath(__file__))))


# scenarios shared by several properties (native/<name>.py with run_extra(add) and replay(case)); a replay case of one of
# them carries {'extra': <name>}
EXTRA = {'C01': ['childsel'], 'C02': ['childlost', 'teardownlost'], 'C03': ['childsel', 'childonce'], 'C06': ['childsel', 'childtransfer'], 'C07': ['childlost'],
         'C08': ['childsel'], 'C10': ['childsel', 'startorder'], 'C12': ['teardownlost']}


def main():
    ap = argparse.ArgumentParser()
    ap.add_argument('prop')
    ap.add_argument('--budget', type=float, default=30.0)
    ap.add_argument('--seed', type=int, default=0)
    ap.add_argument('--tier', default='quick')
    ap.add_argument('--replay')
    a = ap.parse_args()
    from native import _boot
    _boot.boot()
    mod = importlib.import_module('native.' + a.prop.lower())
    if a.replay:
        case = json.load(open(a.replay))
        case = case.get('case', case)
        if isinstance(case, dict) and case.get('extra'):
            mod = importlib.import_module('native.' + case['extra'])
        ok, msg = mod.replay(case)
        print(('REPRODUCED: ' if ok else 'NOT-REPRODUCED: ') + msg)
        sys.exit(1 if ok else 0)
    t = time.time()
    res = mod.run(a.budget, a.seed, a.tier)
    for name in EXTRA.get(a.prop.upper(), ()):
        xm = importlib.import_module('native.' + name)
        have = {f['key'] for f in res.get('findings', [])}
        added = {}

        def add(key, summary, case):
            if key not in have and key not in added:
                added[key] = {'key': key, 'summary': summary, 'case': case}
        n = xm.run_extra(add)
        res['findings'] = list(res.get('findings', [])) + [added[k] for k in sorted(added)]
        res['cases'] = res.get('cases', 0) + n
        res['bound'] = (res.get('bound', '') + ' Shared scenario %s: %d cases (%s).'
                        % (name, n, (xm.__doc__ or '').strip().splitlines()[0]))
    res['wall_s'] = round(time.time() - t, 2)
    sys.stdout.write('\n@@RESULT@@' + json.dumps(res, default=str) + '\n')


if __name__ == '__main__':
    main()
