"""Dispatcher for the native (real-code) bounded oracles; run with /venv/bin/python."""
import argparse
import importlib
import json
import os
import sys
import time

sys.path.insert(0, os.path.dirname(os.path.dirname(os.path.abspath(__file__))))


def main():
    ap = argparse.ArgumentParser()
    ap.add_argument('prop')
    ap.add_argument('--budget', type=float, default=30.0)
    ap.add_argument('--seed', type=int, default=0)
    ap.add_argument('--tier', default='quick')
    ap.add_argument('--replay')
    a = ap.parse_args()
    from native import _boot
    _boot.boot()
    mod = importlib.import_module('native.' + a.prop.lower())
    if a.replay:
        case = json.load(open(a.replay))
        case = case.get('case', case)
        ok, msg = mod.replay(case)
        print(('REPRODUCED: ' if ok else 'NOT-REPRODUCED: ') + msg)
        sys.exit(1 if ok else 0)
    t = time.time()
    res = mod.run(a.budget, a.seed, a.tier)
    res['wall_s'] = round(time.time() - t, 2)
    sys.stdout.write('\n@@RESULT@@' + json.dumps(res, default=str) + '\n')


if __name__ == '__main__':
    main()
