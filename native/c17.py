"""C17 - native bounded oracle: XML reports written by the REAL runner (`--xml DIR`).

Property (properties.jsonl C17): with --xml every report file is well-formed XML whatever
characters occur in test names, exception messages and tracebacks; every test that passed
appears exactly once per iteration; every reported failure or error appears as a testcase
carrying that test's own class and name with a failure or error child; each suite's
tests/errors/failures attributes equal the numbers of its testcase, error and failure
elements.

The real `zope.testrunner.runner.Runner(...).run()` is executed in-process on a generated
suite (found_suites=[suite]); the files under DIR/testreports are parsed with expat
(xml.dom.minidom) and compared with what the generated tests do.

A case is JSON:
  {"tests": [ {"kind": K, "name": "test_x", "msg": "...", "exc": "ValueError",
               "sub": ["ok", "fail", "error"], "submsg": "..."}, ... ],
   "cls": "T", "mod": "c17gen", "repeat": 1,
   "hostile": "control-chars", "where": "message"}      # what the case is about (for keys)
kinds: pass fail error subtests expected_failure unexpected_success skip
       doctest_pass doctest_fail doctest_raise docfile_pass docfile_fail
Every case injects at most ONE class of hostile characters into ONE kind of place, so a
not-well-formed report is attributed to (class, place):  xml:<class>-in-<place>:not-well-formed
"""
import doctest
import glob
import io
import itertools
import logging
import os
import random
import re
import shutil
import sys
import tempfile
import time
import unittest
import xml.dom.minidom
from xml.parsers.expat import ExpatError

PROPERTY = "C17"

EXCS = {"ValueError": ValueError, "KeyError": KeyError, "RuntimeError": RuntimeError,
        "UnicodeDecodeError": None, "OSError": OSError, "Custom": None}

HOSTILE = {
    "plain": ["simple message", "1 != 2"],
    "empty": [""],
    "xml-special": ['<&>"\' ]]> <![CDATA[ &amp; &#0; <?xml version="1.0"?> <!-- -- -->',
                    "</failure></testcase>", "]]>"],
    "control-chars": ["bad \x00 \x0b char", "\x1b[31mred\x1b[0m", "bell \x07", "\x1f\x01",
                      "nul only \x00"],
    "lone-surrogate": ["lone \ud800 sur", "\udcff tail", "pair reversed \udc00\ud800"],
    "nonchar-fffe-ffff": ["non ￾ char", "non ￿ char"],
    "non-bmp": ["\U0001f600 \U0001d11e \U0010fffd", "\U00010000"],
    "multi-line": ["line1\nline2\r\nline3\rline4\n\n", "\n", "\n\nleading newlines"],
    "very-long": ["x" * 200000 + "<&>", "<&>" * 30000],
    "whitespace": ["\t tab \x85 nel   ls \xa0 nbsp  ", "  "],
    "legal-del-c1": ["\x7f del \x80 \x9f c1"],
    "latin-cjk": ["h\xe9llo w\xf6rld 中文 العربية"],
}
# classes that XML 1.0 cannot carry at all (neither raw nor as a character reference)
ILLEGAL = ("control-chars", "lone-surrogate", "nonchar-fffe-ffff")
PLACES = ("message", "test-name", "subtest-msg", "doctest-output", "doctest-name")
UNITTEST_KINDS = ("pass", "fail", "error", "subtests", "expected_failure",
                  "unexpected_success", "skip")
DOCTEST_KINDS = ("doctest_pass", "doctest_fail", "doctest_raise", "docfile_pass", "docfile_fail")

KEY_SUBTEST = "xml:failing-subtest:wrong-classname-and-name"
# keys name the XML construct the characters end up in: element text / message attribute
# ("message") or the testcase name attribute ("test-name")
PLACE_GROUP = {"message": "message", "doctest-output": "message", "test-name": "test-name",
               "doctest-name": "test-name", "subtest-msg": "test-name"}


class HarnessMismatch(Exception):
    """the generated tests did not behave as planned (harness problem, never a finding)"""


class _Custom(Exception):
    def __init__(self, msg):
        Exception.__init__(self)
        self.msg = msg

    def __str__(self):
        return self.msg


def _raise(exc, msg):
    if exc == "UnicodeDecodeError":
        raise UnicodeDecodeError("utf-8", b"\xff" + msg.encode("utf-8", "replace")[:20], 0, 1,
                                 msg)
    if exc == "Custom":
        raise _Custom(msg)
    raise EXCS[exc](msg)


# ----------------------------------------------------------------------------
# building the suite from the case

def _method(spec):
    kind = spec["kind"]
    msg = spec.get("msg", "")
    exc = spec.get("exc", "ValueError")
    if kind == "pass":
        def f(self):
            pass
    elif kind == "fail":
        def f(self):
            self.fail(msg)
    elif kind == "error":
        def f(self):
            _raise(exc, msg)
    elif kind == "subtests":
        def f(self):
            for i, what in enumerate(spec["sub"]):
                kw = {"i": i}
                with self.subTest(spec.get("submsg"), **kw):
                    if what == "fail":
                        self.fail(msg)
                    elif what == "error":
                        _raise(exc, msg)
    elif kind == "expected_failure":
        def f(self):
            self.fail(msg)
        f = unittest.expectedFailure(f)
    elif kind == "unexpected_success":
        def f(self):
            pass
        f = unittest.expectedFailure(f)
    elif kind == "skip":
        def f(self):
            pass
        f = unittest.skip(msg)(f)
    else:
        raise ValueError(kind)
    return f


def _build(case, tmp):
    """-> (suite, plan); plan = list of dicts describing what must be in the reports"""
    cls_name = case.get("cls", "T")
    mod = case.get("mod", "c17gen")
    ns = {"__module__": mod}
    uts = [t for t in case["tests"] if t["kind"] in UNITTEST_KINDS]
    for spec in uts:
        ns[spec["name"]] = _method(spec)
    T = type(cls_name, (unittest.TestCase,), ns)
    suite = unittest.TestSuite()
    plan = []
    for other in case.get("more_classes", ()):     # further test classes with one passing test each (one report file per class)
        T2 = type(other, (unittest.TestCase,), {"__module__": mod, "test_only": lambda self: None})
        suite.addTest(T2("test_only"))
        plan.append({"spec": {"kind": "pass", "name": "test_only"}, "classname": "%s.%s" % (mod, other),
                     "name": "test_only", "doctest": False})
    n_doc = 0
    for spec in case["tests"]:
        kind = spec["kind"]
        if kind in UNITTEST_KINDS:
            suite.addTest(T(spec["name"]))
            plan.append({"spec": spec, "classname": "%s.%s" % (mod, cls_name),
                         "name": spec["name"], "doctest": False})
            continue
        n_doc += 1
        out = spec.get("msg", "")
        if kind.endswith("_pass"):
            text = ">>> print(%r)\n%s\n" % ("ok", "ok")
        elif kind.endswith("_fail"):
            text = "Some text.\n\n>>> print(%r)\nsomething else entirely\n" % (out,)
        else:  # doctest_raise: the example raises, nothing expected
            text = ">>> raise ValueError(%r)\n" % (out,)
        if kind.startswith("docfile"):
            fname = spec["name"]
            path = os.path.join(tmp, "docs%d" % n_doc)
            os.makedirs(path)
            path = os.path.join(path, fname)
            with open(path, "w", encoding="utf-8") as fh:
                fh.write("Title\n=====\n\n" + text)
            docloc = case.get("docloc", "elsewhere")
            if docloc == "in-cwd":          # the doc file lies directly in the current directory, absolute path
                os.chdir(os.path.dirname(path))
            elif docloc == "relative":      # ... and is given as a one-component relative path
                os.chdir(os.path.dirname(path))
                path = fname
            elif docloc == "below-cwd":
                os.chdir(tmp)
            ds = doctest.DocFileSuite(path, module_relative=False)
            suite.addTest(ds)
            plan.append({"spec": spec, "classname": None, "name": fname, "doctest": True})
        else:
            dt = doctest.DocTestParser().get_doctest(
                text, {}, spec["name"], "c17_generated_doctest.py", 0)
            suite.addTest(doctest.DocTestCase(dt))
            plan.append({"spec": spec, "classname": None, "name": spec["name"],
                         "doctest": True})
    return suite, plan


# ----------------------------------------------------------------------------
# run the real runner

def _run_runner(suite, outdir, repeat):
    from zope.testrunner.runner import Runner
    args = ["c17", "--xml", outdir, "-k"]
    if repeat != 1:
        args += ["--repeat", str(repeat)]
    saved = (sys.stdout, sys.stderr, list(sys.path), os.getcwd())
    root_logger = logging.getLogger()
    handlers = list(root_logger.handlers)
    flags = doctest.set_unittest_reportflags(0)
    doctest.set_unittest_reportflags(flags)
    out = io.StringIO()
    sys.stdout = out
    sys.stderr = io.StringIO()
    exc = None
    runner = Runner(defaults=[], args=args, found_suites=[suite])
    try:
        try:
            runner.run()
        except BaseException as e:  # noqa: B902 - reported as a finding
            if isinstance(e, KeyboardInterrupt):
                raise
            exc = e
    finally:
        sys.stdout, sys.stderr = saved[0], saved[1]
        sys.path[:] = saved[2]
        os.chdir(saved[3])
        root_logger.handlers[:] = handlers
        doctest.set_unittest_reportflags(flags)
    return runner, exc, out.getvalue()


def _text_children(node, tag):
    return [c for c in node.childNodes if c.nodeType == c.ELEMENT_NODE and c.tagName == tag]


_ILLEGAL_RE = re.compile("[\x00-\x08\x0b\x0c\x0e-\x1f\ud800-\udfff\ufffe\uffff]")


def _same(expected, actual, prefix=False):
    """equality up to whatever a writer substitutes for characters XML cannot carry"""
    parts = [re.escape(p) for p in _ILLEGAL_RE.split(expected)]
    rx = ".{0,12}?".join(parts) + (".*" if prefix else "")
    return re.fullmatch(rx, actual, re.S) is not None


def _own_name(entry, tc):
    """does testcase element `tc` carry the planned test's own class and name?"""
    cn, nm = tc.getAttribute("classname"), tc.getAttribute("name")
    if entry["doctest"]:
        full = entry["name"]
        if _same(full, nm):
            return True
        return bool(nm) and _same(full, (cn + "." + nm).lstrip("."))
    if not _same(entry["classname"], cn):
        return False
    if _same(entry["name"], nm):
        return True
    # a sub-test may add its parameters to the name
    return entry["spec"]["kind"] == "subtests" and _same(entry["name"], nm, prefix=True)


def _check(case):
    problems = []
    hostile = case.get("hostile", "plain")
    where = case.get("where", "message")
    repeat = case.get("repeat", 1)
    tmp = tempfile.mkdtemp(prefix="c17_")
    cwd0 = os.getcwd()
    try:
        outdir = os.path.join(tmp, "out")
        suite, plan = _build(case, tmp)
        runner, exc, output = _run_runner(suite, outdir, repeat)
        os.chdir(cwd0)
        if exc is not None and case.get("docloc"):
            problems.append(("xml:docfile-%s:run-raises:%s" % (case["docloc"], type(exc).__name__),
                             "--xml with a doc file %s: Runner.run() raised %r" % (case["docloc"], exc)))
            return problems
        if exc is not None:
            if hostile == "lone-surrogate" and isinstance(exc, UnicodeError):
                problems.append(("xml:lone-surrogate:write-raises",
                                 "Runner.run() raised %r" % (exc,)))
            else:
                problems.append(("xml:%s-in-%s:run-raises:%s" % (hostile, where,
                                                                 type(exc).__name__),
                                 "Runner.run() raised %r" % (exc,)))
            return problems
        files = sorted(glob.glob(os.path.join(glob.escape(outdir), "testreports", "*")))
        testcases = []   # (file, element)
        broken = []
        for path in files:
            try:
                dom = xml.dom.minidom.parse(path)
            except ExpatError as e:
                broken.append(os.path.basename(path))
                problems.append(("xml:%s-in-%s:not-well-formed"
                                 % (hostile, PLACE_GROUP.get(where, where)),
                                 "%s is not well-formed XML: %s (injected characters: %s in "
                                 "%s)" % (os.path.basename(path), e, hostile, where)))
                continue
            root = dom.documentElement
            tcs = root.getElementsByTagName("testcase")
            errs = root.getElementsByTagName("error")
            fails = root.getElementsByTagName("failure")
            for attr, elems in (("tests", tcs), ("errors", errs), ("failures", fails)):
                if root.getAttribute(attr) != str(len(elems)):
                    problems.append(("xml:suite-attribute-mismatch:%s" % attr,
                                     "%s: %s=%r but %d <%s> elements" % (
                                         os.path.basename(path), attr, root.getAttribute(attr),
                                         len(elems), elems and elems[0].tagName or attr)))
            for tc in tcs:
                testcases.append((os.path.basename(path), tc))
            dom_keep.append(dom)
        # cross-check harness expectations with what the runner itself reported
        n_bad_planned = 0
        for e in plan:
            k = e["spec"]["kind"]
            if k in ("fail", "error", "unexpected_success", "doctest_fail", "doctest_raise",
                     "docfile_fail"):
                n_bad_planned += 1
            elif k == "subtests":
                n_bad_planned += sum(1 for w in e["spec"]["sub"] if w != "ok")
        n_bad_reported = len(runner.failures) + len(runner.errors)
        if n_bad_reported != n_bad_planned * repeat:
            raise HarnessMismatch("harness: planned %d failures/errors x%d, runner reported %d\n%s"
                                 % (n_bad_planned, repeat, n_bad_reported, output[-2000:]))
        for e in plan:
            spec = e["spec"]
            kind = spec["kind"]
            mine = [tc for _f, tc in testcases if _own_name(e, tc)]
            bad_children = sum(len(_text_children(tc, "failure")) + len(_text_children(tc, "error"))
                               for tc in mine)
            if broken:
                # the test's suite file may be the unparsable one: presence is not decidable
                continue
            if kind in ("pass", "expected_failure", "doctest_pass", "docfile_pass"):
                if len(mine) != repeat:
                    problems.append(("xml:passed-test:%s" % ("missing" if len(mine) < repeat
                                                              else "duplicated"),
                                     "%s test %r appears %d times, expected %d"
                                     % (kind, e["name"], len(mine), repeat)))
                if bad_children:
                    problems.append(("xml:passed-test:has-failure-or-error-child",
                                     "%s test %r" % (kind, e["name"])))
            elif kind == "skip":
                if bad_children:
                    problems.append(("xml:skipped-test:has-failure-or-error-child",
                                     "test %r" % (e["name"],)))
            else:
                n = 1
                if kind == "subtests":
                    n = sum(1 for w in spec["sub"] if w != "ok")
                    if n == 0:     # all sub-tests pass: an ordinary passing test
                        if len(mine) != repeat or bad_children:
                            problems.append(("xml:passed-test:%s" % (
                                "missing" if len(mine) < repeat else "duplicated"),
                                "test with passing sub-tests %r appears %d times"
                                % (e["name"], len(mine))))
                        continue
                if bad_children < n * repeat:
                    if kind == "subtests":
                        others = [(f, tc.getAttribute("classname"), tc.getAttribute("name"))
                                  for f, tc in testcases
                                  if tc.getAttribute("classname").endswith("_SubTest")]
                        problems.append((KEY_SUBTEST,
                                         "test %s.%s has %d failing sub-test(s) but only %d "
                                         "failure/error children are recorded under its own "
                                         "class and name; recorded instead as (file, classname, "
                                         "name): %r" % (e["classname"], e["name"], n * repeat,
                                                        bad_children, others)))
                    else:
                        problems.append(("xml:reported-%s:no-testcase-with-own-class-and-name"
                                         % kind.replace("_", "-"),
                                         "%s test %r: %d failure/error children under its own "
                                         "class/name, expected %d; testcases present: %r"
                                         % (kind, e["name"], bad_children, n * repeat,
                                            [(tc.getAttribute("classname"),
                                              tc.getAttribute("name")) for _f, tc in testcases])))
    finally:
        os.chdir(cwd0)
        del dom_keep[:]
        shutil.rmtree(tmp, ignore_errors=True)
    out = {}
    for k, s in problems:
        out.setdefault(k, s)
    return list(out.items())


dom_keep = []


# ----------------------------------------------------------------------------
# case generation

def _check_subprocess(case):
    """--xml when layers run in child processes (-j N, or resumed after a tearDown refused with NotImplementedError): the
    children write the reports of their own tests into the same directory; when the run is over every passing test
    must be there exactly once, in well-formed files"""
    import shutil
    import tempfile
    import xml.etree.ElementTree as ET
    from native import testworld as tw
    xdir = tempfile.mkdtemp(prefix='c17sub_')
    try:
        spec = {'layers': [dict(l) for l in case['layers']], 'tests': [dict(t) for t in case['tests']],
                'args': ['--xml', xdir] + list(case['args'])}
        obs = tw.execute(spec, file_based=True)
        probs = []
        if obs.exc is not None:
            return [('xml:subprocess:run-raises:%s' % type(obs.exc).__name__, str(obs.exc)[:300])]
        seen = {}
        rdir = os.path.join(xdir, 'testreports')
        for fn in sorted(os.listdir(rdir)) if os.path.isdir(rdir) else []:
            try:
                root = ET.parse(os.path.join(rdir, fn)).getroot()
            except ET.ParseError as e:
                probs.append(('xml:subprocess:not-well-formed', '%s: %s' % (fn, e)))
                continue
            for tc in root.iter('testcase'):
                seen[tc.get('classname', '') + '.' + tc.get('name', '')] = seen.get(
                    tc.get('classname', '') + '.' + tc.get('name', ''), 0) + 1
        for i, t in enumerate(spec['tests']):
            tid = 'T%02d' % i
            n = sum(c for k, c in seen.items() if ('.' + tid + '.') in k or k.split('.')[-2:-1] == [tid])
            if t['k'] == 'pass' and n != 1:
                probs.append(('xml:subprocess:passed-test-%s' % ('missing' if n == 0 else 'duplicated'),
                              'test %s (layer %s) passed in a child process but has %d testcase elements in %s (args %s)'
                              % (tid, t.get('layer'), n, sorted(os.listdir(rdir)) if os.path.isdir(rdir) else 'no report dir',
                                 spec['args'][2:])))
        return probs[:3]
    finally:
        shutil.rmtree(xdir, ignore_errors=True)


def _subprocess_cases():
    two = [{'name': 'LA'}, {'name': 'LB'}]
    tests = [{'k': 'pass'}, {'k': 'pass', 'layer': 'LA'}, {'k': 'pass', 'layer': 'LA'}, {'k': 'pass', 'layer': 'LB'},
             {'k': 'fail', 'layer': 'LB'}]
    yield {'subprocess': True, 'layers': two, 'tests': tests, 'args': ['-j2']}
    yield {'subprocess': True, 'layers': two, 'tests': tests, 'args': ['-j3', '-v']}
    ntd = [{'name': 'LA', 'tearDown': 'NotImplementedError'}, {'name': 'LB'}]
    yield {'subprocess': True, 'layers': ntd, 'tests': tests, 'args': []}       # LB is resumed in a child process


def _safe_name(i):
    return "test_%02d" % i


def _companions():
    return [{"kind": "pass", "name": "test_zz_ok"},
            {"kind": "fail", "name": "test_zz_plainfail", "msg": "plain failure"}]


def _one(kind, hostile, where, text, idx=0):
    """a single-hostile-test case"""
    spec = {"kind": kind, "name": _safe_name(idx), "msg": "benign"}
    if kind in DOCTEST_KINDS:
        spec["name"] = "c17doc.thing%d" % idx if kind.startswith("doctest") else \
            "doc%d.txt" % idx
    if kind == "subtests":
        spec["sub"] = ["ok", "fail", "error", "ok"]
    if where == "message":
        spec["msg"] = text
    elif where == "test-name":
        spec["name"] = "test_" + text
    elif where == "subtest-msg":
        spec["submsg"] = text
    elif where == "doctest-output":
        spec["msg"] = text
    elif where == "doctest-name":
        spec["name"] = "c17doc.f_" + text
    if kind == "error":
        spec["exc"] = "ValueError"
    return spec


def _applicable(kind, where, hostile, text):
    if where == "message":
        return kind in ("fail", "error", "subtests", "expected_failure", "skip")
    if where == "test-name":
        # method names: anything setattr accepts; keep NUL-free? no: NUL is allowed in attrs
        return kind in UNITTEST_KINDS and len(text) < 5000
    if where == "subtest-msg":
        return kind == "subtests"
    if where == "doctest-output":
        # the text goes through repr() into the doctest source and is printed by the example
        return kind in ("doctest_fail", "doctest_raise", "docfile_fail")
    if where == "doctest-name":
        # (doctest compiles examples with the test name in the file name: no NUL there)
        return kind in ("doctest_pass", "doctest_fail") and len(text) < 5000 \
            and "\x00" not in text
    return False


def _catalogue():
    idx = 0
    # several classes whose names differ only in characters that are unusual in file names: each keeps a report of its own
    for names in (("TestOperator[+]", "TestOperator[*]"), ("Test[a b]", "Test[a,b]"), ("T(x)", "T{x}", "T__x_")):
        yield {"tests": [{"kind": "pass", "name": "test_a"}, {"kind": "fail", "name": "test_b", "msg": "m"}],
               "cls": names[0], "more_classes": list(names[1:]), "mod": "c17gen", "repeat": 1, "hostile": "plain",
               "where": "class-names-differing-in-punctuation"}
    # where a doc file lies relative to the current directory (the report name is derived from the path left after
    # lopping off what it shares with the cwd)
    for docloc in ("in-cwd", "relative", "below-cwd"):
        for kind in ("docfile_pass", "docfile_fail"):
            yield {"tests": [_one(kind, "plain", "message", "plain"), {"kind": "pass", "name": "test_p"}],
                   "cls": "T", "mod": "c17gen", "repeat": 1, "hostile": "plain", "where": "message", "docloc": docloc}
    for hostile, texts in HOSTILE.items():
        for where in PLACES:
            for kind in UNITTEST_KINDS + DOCTEST_KINDS:
                for ti, text in enumerate(texts):
                    if not _applicable(kind, where, hostile, text):
                        continue
                    if ti > 0 and kind not in ("fail", "error", "doctest_fail"):
                        continue   # every text with the main kinds, first text with all kinds
                    idx += 1
                    tests = [_one(kind, hostile, where, text)] + _companions()
                    yield {"tests": tests, "cls": "T", "mod": "c17gen", "repeat": 1,
                           "hostile": hostile, "where": where}
    # class / module names with XML-special characters (file names on disk)
    for cls, mod in (("T<&>\"'", "c17gen"), ("T", "m<&>]]>"), ("T \U0001f600", "c17gen"),
                     ("T", "pkg.sub.mod")):
        yield {"tests": [{"kind": "pass", "name": "test_a"},
                         {"kind": "fail", "name": "test_b", "msg": "m"},
                         {"kind": "error", "name": "test_c", "msg": "m", "exc": "KeyError"}],
               "cls": cls, "mod": mod, "repeat": 1, "hostile": "xml-special",
               "where": "class-or-module-name"}
    # all outcome kinds together, plain text, repeated
    for repeat in (1, 2, 3):
        tests = []
        for i, kind in enumerate(UNITTEST_KINDS + DOCTEST_KINDS):
            tests.append(_one(kind, "plain", "message", "plain %d" % i, idx=i))
        yield {"tests": tests, "cls": "T", "mod": "c17gen", "repeat": repeat,
               "hostile": "plain", "where": "message"}
    # every sub-test outcome vector of length <= 3
    import itertools
    for n in (1, 2, 3):
        for vec in itertools.product(("ok", "fail", "error"), repeat=n):
            yield {"tests": [{"kind": "subtests", "name": "test_s", "msg": "m",
                              "sub": list(vec), "exc": "RuntimeError"},
                             {"kind": "pass", "name": "test_p"}],
                   "cls": "T", "mod": "c17gen", "repeat": 1, "hostile": "plain",
                   "where": "message"}


def _random_text(rnd, hostile):
    base = rnd.choice(HOSTILE[hostile])
    if hostile == "very-long":
        return base
    pre = rnd.choice(("", "prefix ", "a<b ", "\n", "caf\xe9 "))
    post = rnd.choice(("", " suffix", " &c", "\n", " \U0001f600"))
    if hostile in ("plain", "empty"):
        pre = post = ""
    return pre + base + post


def _random_case(rnd):
    hostile = rnd.choice(list(HOSTILE))
    where = rnd.choice(PLACES)
    tests = []
    n = rnd.randint(1, 6)
    for i in range(n):
        kind = rnd.choice(UNITTEST_KINDS + DOCTEST_KINDS)
        text = _random_text(rnd, hostile)
        if _applicable(kind, where, hostile, text) and rnd.random() < 0.7:
            spec = _one(kind, hostile, where, text, idx=i)
            if where in ("test-name", "doctest-name"):
                spec["name"] += "_%d" % i
        else:
            spec = _one(kind, "plain", "message", "benign %d" % i, idx=i)
        if kind == "subtests":
            spec["sub"] = [rnd.choice(("ok", "fail", "error")) for _ in range(rnd.randint(1, 4))]
        if kind == "error":
            spec["exc"] = rnd.choice(list(EXCS))
        tests.append(spec)
    names = [t["name"] for t in tests]
    if len(set(names)) != len(names):
        return None
    return {"tests": tests, "cls": rnd.choice(("T", "Case_2", "T")), "mod": "c17gen",
            "repeat": rnd.choice((1, 1, 1, 2)), "hostile": hostile, "where": where}


def _size(case):
    if case.get('subprocess'):
        return (True, 1, True, 0, len(case['tests']), 0, str(case))
    return (case.get("where") not in ("message", "test-name"), case.get("repeat", 1),
            len(case["tests"]) > 3, sum(len(t.get("sub", ())) for t in case["tests"]),
            len(case["tests"]),
            sum(len(t.get("msg", "")) + len(t["name"]) for t in case["tests"]), str(case))


def _shrink(case, key):
    """drop tests while the key is still produced"""
    if case.get('subprocess'):
        return case
    cur = case
    i = 0
    while i < len(cur["tests"]) and len(cur["tests"]) > 1:
        cand = dict(cur)
        cand["tests"] = cur["tests"][:i] + cur["tests"][i + 1:]
        try:
            ok = any(k == key for k, _ in _check(cand))
        except Exception:
            ok = False
        if ok:
            cur = cand
        else:
            i += 1
    return cur


def run(budget_s, seed, tier):
    t0 = time.time()
    deadline = t0 + budget_s * 0.85
    rnd = random.Random(seed)
    cases = 0
    distinct = set()
    findings = {}
    samples = []
    outcomes = 0
    mismatches = []

    def do(case):
        nonlocal cases, outcomes
        try:
            probs = _check_subprocess(case) if case.get('subprocess') else _check(case)
        except HarnessMismatch as e:
            mismatches.append(str(e)[:300])
            return
        cases += 1
        outcomes += len(case["tests"]) * case.get("repeat", 1)
        if case.get("hostile") not in ("plain",):
            distinct.add(repr(case))
        for key, summary in probs:
            old = findings.get(key)
            if old is None or _size(case) < _size(old["case"]):
                findings[key] = {"key": key, "summary": summary, "case": case}

    cat_done = True
    n_cat = 0
    for case in itertools.chain(_subprocess_cases(), _catalogue()):
        if time.time() > deadline:
            cat_done = False
            break
        do(case)
        n_cat += 1
        if n_cat in (5, 120):
            samples.append(_trim(case))
    n_rand = 0
    while time.time() < deadline:
        case = _random_case(rnd)
        if case is None:
            continue
        do(case)
        n_rand += 1
        if len(samples) < 5 and n_rand % 41 == 1:
            samples.append(_trim(case))
    for key, f in list(findings.items()):
        small = _shrink(f["case"], key)
        if small is not f["case"]:
            for k, s in _check(small):
                if k == key:
                    findings[key] = {"key": key, "summary": s, "case": small}
    n_texts = sum(len(v) for v in HOSTILE.values())
    return {
        "cases": cases,
        "distinct": len(distinct),
        "rule": "a case = one in-process Runner.run() with --xml on a generated suite (%d test "
                "executions in total), every report file parsed with expat; non-trivial = the "
                "case injects one of the non-plain character classes; %d generated cases were "
                "dropped because the generated tests did not behave as planned"
                % (outcomes, len(mismatches)),
        "exhaustive": cat_done,
        "bound": "catalogue %s (%d cases): %d character classes (%d texts: %s) x places %s x "
                 "applicable outcome kinds %s (one hostile test + a passing and a failing "
                 "companion per case); class/module names with XML-special characters; all "
                 "kinds together with --repeat 1/2/3; all sub-test outcome vectors over "
                 "{ok,fail,error} up to length 3; then %d random suites (1-6 tests, one "
                 "character class and place per case)"
                 % ("complete" if cat_done else "INCOMPLETE (budget)", n_cat, len(HOSTILE),
                    n_texts, ", ".join(HOSTILE), list(PLACES),
                    list(UNITTEST_KINDS + DOCTEST_KINDS), n_rand),
        "samples": samples[:5],
        "findings": sorted(findings.values(), key=lambda f: f["key"]),
    }


def _trim(case):
    """samples only: shorten very long strings for display"""
    c = dict(case)
    c["tests"] = [dict(t, **{k: (v if not isinstance(v, str) or len(v) < 200
                                 else v[:60] + "...(%d chars)" % len(v))
                             for k, v in t.items()}) for t in case["tests"]]
    return c


def replay(case):
    try:
        problems = _check_subprocess(case) if case.get('subprocess') else _check(case)
    except HarnessMismatch as e:
        return False, str(e)[:300]
    if problems:
        return True, "; ".join("%s: %s" % p for p in problems)
    return False, "no violation on this case"
