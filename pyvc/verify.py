"""Verify one function against its sidecar contract; discharge and summarise obligations."""
import ast
import hashlib
import importlib.util
import os
import time
import traceback
import z3

from .vals import (VInt, VBool, VNone, NONE, VObj, VTup, VRef, VExc, HList, HDict, HRec, parse_type,
                   fresh_name, T_ANY)
from .state import (State, Obligation, Unsupported, ContractError, fresh_val, discharge, discharge_many,
                    empty_hlist)
from .engine import EngineBase, exc_isinstance, EXC_PARENT
from .exprs import ExprMixin
from .stmts import StmtMixin, loops_in_order
from .calls import CallMixin


class Engine(ExprMixin, StmtMixin, CallMixin, EngineBase):

    def load_sidecar(self, path):
        spec = importlib.util.spec_from_file_location('sidecar_' + os.path.basename(path)[:-3], path)
        mod = importlib.util.module_from_spec(spec)
        spec.loader.exec_module(mod)
        mod.register(self)
        return mod

    # ------------------------------------------------------------------
    def add_module(self, name, src, path='<sidecar>'):
        """a spec-level module (e.g. the operational contract of an external caller), executed like repo code."""
        self.modules[name] = (ast.parse(src), src, path)

    def make_record(self, cls, st, fields=None, dynamic=()):
        schema = dict(self.records.get(cls, {}))
        schema.update(fields or {})
        f = {}
        for name, t in schema.items():
            t = parse_type(t)
            if t[0] == 'rec':
                f[name] = self.make_record(t[1], st)
            else:
                f[name] = fresh_val(t, '%s_%s' % (cls.split('.')[-1], name), st)
        present = {d: z3.Bool(fresh_name('present_' + d)) for d in (dynamic or self.record_dynamic.get(cls, ()))}
        return st.alloc(HRec(cls, f, present))

    def make_param(self, name, t, st):
        if t[0] == 'rec':
            return self.make_record(t[1], st)
        return fresh_val(t, name, st)

    def verify(self, qual):
        """-> list of Obligation (status filled in) for function `qual`."""
        self.verify_generate(qual)
        discharge_many(self.all_axioms(), self.obligations, self.timeout_ms, self.jobs)
        return self.obligations

    def verify_generate(self, qual):
        """symbolic execution only: obligations with status None (safety side conditions already decided)."""
        c = self.contracts.get(qual)
        if c is None:
            raise ContractError("no contract for %s" % qual)
        fdef, mod, src = self.find_def(qual)
        self.cur = (c, qual)
        self.cur_loops = loops_in_order(fdef)
        self.obligations = []
        st = State()
        env = {}
        params = [a.arg for a in fdef.args.args]
        body = fdef.body
        frag = c.extra.get('fragment')
        if frag:
            # a contract on a fragment of a long function: the statements from `start` up to (excluding) `end`,
            # every free variable is a declared parameter of the fragment (arbitrary value of its type)
            if frag.get('find'):
                # a fragment nested anywhere in the function: the statement whose first line starts with `find`
                # and its following `count - 1` siblings (the anchor must be unique)
                hits = []
                for n in ast.walk(fdef):
                    for fld in ('body', 'orelse', 'finalbody'):
                        blk = getattr(n, fld, None)
                        if isinstance(blk, list):
                            for i, ch in enumerate(blk):
                                if isinstance(ch, ast.stmt) and ast.unparse(ch).split('\n')[0].strip().startswith(frag['find']):
                                    hits.append((blk, i))
                if len(hits) != 1:
                    raise ContractError("%s: fragment anchor %r resolves %d times" % (qual, frag['find'], len(hits)))
                blk, i0 = hits[0]
                cnt = frag.get('count')
                body = blk[i0:] if cnt is None else blk[i0:i0 + cnt]
                if cnt is not None and len(body) != cnt:
                    raise ContractError("%s: fragment %r: fewer than %d statements" % (qual, frag['find'], cnt))
                for n, h in enumerate(frag.get('heads', [])):
                    got = ast.unparse(body[n]).split('\n')[0].strip() if n < len(body) else None
                    if got is None or not got.startswith(h):
                        raise ContractError("%s: fragment statement %d is %r, expected %r" % (qual, n, got, h))
            else:
                heads = [ast.unparse(n).split('\n')[0].strip() for n in fdef.body]
                try:
                    i0 = next(i for i, h in enumerate(heads) if h.startswith(frag['start']))
                    i1 = next(i for i, h in enumerate(heads) if i > i0 and h.startswith(frag['end'])) if frag.get('end') \
                        else len(fdef.body)
                except StopIteration:
                    raise ContractError("%s: fragment anchors %r do not resolve" % (qual, frag))
                body = fdef.body[i0:i1]
            params = list(c.params)
        self.check_views()
        is_method = len(qual.split('@')[0].split('.')) == 3 and params and params[0] == 'self'
        for p in params:
            if is_method and p == 'self':
                cls = '.'.join(qual.split('@')[0].split('.')[:2])
                env[p] = self.make_record(cls, st, c.self_fields, c.extra.get('dynamic', ()))
                continue
            if p not in c.params:
                raise ContractError("%s: parameter %s has no declared type" % (qual, p))
            env[p] = self.make_param(p, c.params[p], st)
        for fv_, t in c.extra.get('free', {}).items():
            # a nested function verified as a unit of its own: its free variables are arbitrary values of their type
            env[fv_] = self.make_param(fv_, parse_type(t), st)
        st.fid = st.new_frame(env)
        self.entry_fid = st.fid
        for g, t in c.ghost.items():
            st.ghost[g] = fresh_val(parse_type(t), 'G_' + g, st)
        if c.generator:
            et = c.returns[1]
            st.ghost['__yield__'] = st.alloc(empty_hlist(et))
        for r in c.requires:
            z = self.ev_spec(r, st)
            st.assume(z, qf=not self.has_quant(z))
        st.snapshot('old')
        outs = self.exec_block(body, st)
        self.stats['paths'] += len(outs)
        self.last_paths = len(outs)
        canary_done = False
        for s1, kind, val in outs:
            if frag and frag.get('continue_exit'):
                # the fragment sits in a loop body: leaving it by `continue` is an exit of its own (flag _continued)
                s1.frames[self.entry_fid]['_continued'] = VBool(kind == 'continue')
                if kind == 'continue':
                    kind = 'normal'
            if kind in ('normal', 'return'):
                res = NONE if kind == 'normal' else val
                if c.generator:
                    res = s1.ghost['__yield__']
                if c.returns is not None and not c.generator:
                    res = self.adapt_result(res, c.returns, s1)
                s1.frames[self.entry_fid]['_ret'] = res
                if 'result' not in params:
                    s1.frames[self.entry_fid]['result'] = res
                for g, e in c.ghost_exit.items():
                    s1.ghost[g] = self.ev_spec_val(e, s1)
                for n, e in enumerate(c.ensures):
                    self.oblige(s1, 'post', str(n), e, self.ev_spec(e, s1), fdef.lineno)
                if not canary_done and c.canary:
                    canary_done = True
                    self.oblige(s1, 'canary', 'end', 'False (must NOT be provable: hypotheses are consistent)',
                                z3.BoolVal(False), fdef.lineno, props=())
            elif kind == 'raise':
                for g, e in c.ghost_exit.items():
                    if c.extra.get('ghost_exit_on_raise'):
                        s1.ghost[g] = self.ev_spec_val(e, s1)
                posts = None
                cls = val.cls
                while cls is not None and posts is None:
                    posts = c.raises.get(cls)
                    cls = EXC_PARENT.get(cls)
                if posts is None:
                    self.oblige(s1, 'raises-only', val.cls,
                                'no %s escapes (allowed: %s)' % (val.cls, ', '.join(sorted(c.raises)) or 'nothing'),
                                z3.BoolVal(False), fdef.lineno)
                else:
                    for n, e in enumerate(posts):
                        self.oblige(s1, 'exc-post', '%s:%d' % (val.cls, n), e, self.ev_spec(e, s1), fdef.lineno)
            else:
                raise Unsupported("%s escapes %s" % (kind, qual))
        return self.obligations

    def prove_lemma(self, name, vc, axiom, props=()):
        """a lemma of the vocabulary: its (induction-step) VC is proved once, then `axiom` is available."""
        ob = Obligation('lemma/%s' % name, 'lemma', 'lemma', name, [], vc, '', None, props)
        discharge(self.all_axioms(), ob, self.timeout_ms)
        self.lemma_obligations.append(ob)
        if ob.status == 'proved':
            self.axioms.append(axiom)
        return ob

    def prove_string_lemma(self, name, claim, axiom, props=()):
        """leaf lemma about characters: `claim` (z3 sequence theory, free String constants) is proved, then
        `axiom` (the same fact over the uninterpreted string functions used in the function proofs) is available."""
        from .strlemma import prove_string_fact
        ob = Obligation('lemma/%s' % name, 'lemma', 'lemma', name, [], z3.BoolVal(True), '', None, props)
        ok, backend, secs = prove_string_fact(claim, self.timeout_ms)
        ob.status, ob.backend, ob.time = ('proved' if ok else 'unknown'), backend, secs
        ob.detail = '' if ok else 'string lemma not proved: %s' % claim
        self.lemma_obligations.append(ob)
        if ok:
            self.axioms.append(axiom)
        return ob

    def regex_lemma(self, name, module, var, spec_re, mode='match', props=()):
        """leaf lemma about a regular expression of the real source: the pattern bound to the module-level name `var`
        (`var = re.compile(<literal>[, flags]).match|search|...`) accepts, in `mode` ('match' = prefix, 'fullmatch'),
        exactly the language of the z3 regular expression `spec_re`.  Proved in z3's regex theory on the pattern text
        CPython's own parser produces; a counter-example string is reported otherwise."""
        import time
        from . import relemma
        t0 = time.time()
        ob = Obligation('lemma/%s' % name, 'lemma', 'lemma', name, [], z3.BoolVal(True), '', None, props)
        tree = self.module(module)[0]
        pat, flags = None, 0
        for n in ast.walk(tree):
            if isinstance(n, ast.Assign) and any(getattr(t, 'id', None) == var for t in n.targets):
                c = n.value
                if isinstance(c, ast.Attribute):
                    c = c.value                                    # re.compile(...).match
                if isinstance(c, ast.Call) and ast.unparse(c.func) == 're.compile' and c.args \
                        and isinstance(c.args[0], ast.Constant) and isinstance(c.args[0].value, (str, bytes)):
                    pat = c.args[0].value
                    import re as _re
                    try:
                        flags = int(eval(ast.unparse(c.args[1]), {'re': _re})) if len(c.args) > 1 else 0
                        flags &= ~_re.IGNORECASE if False else flags
                    except Exception:
                        pat = None
        if pat is None:
            ob.status, ob.backend, ob.time = 'failed', 'z3-regex', time.time() - t0
            ob.detail = '%s.%s is no longer re.compile(<literal pattern>)...: the lemma has nothing to talk about' % (module, var)
        else:
            try:
                lang = relemma.match_language(pat, flags) if mode == 'match' else relemma.fullmatch_language(pat, flags)
                ok, why, _ = relemma.prove_equal(lang, spec_re, self.timeout_ms)
                ob.status = 'proved' if ok else ('failed' if 'language' in why else 'unknown')
                ob.detail = '' if ok else 'pattern %r: %s' % (pat, why)
            except relemma.Untranslatable as e:
                ob.status, ob.detail = 'unknown', 'pattern %r leaves the translated regex subset: %s' % (pat, e)
            ob.backend, ob.time = 'z3-regex', time.time() - t0
        self.lemma_obligations.append(ob)
        return ob

    def syntactic_obligation(self, name, holds, detail='', props=()):
        """an obligation decided on the AST of the real source (read sets, statement order); no solver involved."""
        ob = Obligation('syntactic/%s' % name, 'syntactic', 'syntactic', name, [], z3.BoolVal(bool(holds)), '', None, props)
        ob.status, ob.backend, ob.time, ob.detail = ('proved' if holds else 'failed'), 'ast', 0.0, detail
        self.lemma_obligations.append(ob)
        return ob

    def adapt_result(self, res, t, st):
        ra = self.cur[0].extra.get('result_abs')
        if ra is not None:
            # the concrete result is viewed through the abstraction the callers use (e.g. a sort key as an abstract
            # ordered value with a length and a last component); the abstraction function states the link
            return ra(self, st, res)
        return res

    def function_info(self, qual):
        fdef, mod, src = self.find_def(qual)
        # the loop structure of the function: which loop statements, in which order and nesting (the invariants of a
        # contract are attached to loops by ordinal; a different structure means the proof has to be redone)
        def shape(node, depth=0):
            out = []
            for ch in ast.iter_child_nodes(node):
                if isinstance(ch, (ast.For, ast.While)):
                    out.append('%s%d' % ('F' if isinstance(ch, ast.For) else 'W', depth))
                    out += shape(ch, depth + 1)
                else:
                    out += shape(ch, depth)
            return out
        loops = ' '.join(shape(fdef))
        c = self.contracts.get(qual)
        anchors = c.extra.get('loop_anchors') if c is not None else None
        if anchors:
            # the contract names its loops by header: the structure that matters is "each anchored header occurs once"
            from .stmts import StmtMixin as _S
            hdrs = [_S.loop_header(n) for n in ast.walk(fdef) if isinstance(n, (ast.For, ast.While))]
            loops = 'anchored: ' + '; '.join('%s=%s x%d' % (k, h, hdrs.count(h)) for k, h in sorted(anchors.items()))
        return {'function': qual, 'file': 'src/zope/testrunner/%s.py' % mod, 'line': fdef.lineno,
                'sha256': hashlib.sha256(src.encode()).hexdigest(), 'loops': loops,
                'params': [a.arg for a in fdef.args.args]}
