"""Statement execution: outcomes are (state, kind, value) with kind in normal/return/raise/break/continue."""
import ast
import z3

from .vals import (VInt, VBool, VReal, VNone, NONE, VObj, VTup, VOpt, VRef, VFunc, VClass, VExc, VUnb,
                   HList, HDict, HRec, sort_of, to_z3, from_z3, fresh_name, type_of_val, parse_type,
                   T_INT, T_BOOL, T_STR, T_ANY)
from .state import Unsupported, ContractError, fresh_val, fresh_hlist, fresh_hdict, empty_hlist, empty_hdict
from .engine import exc_isinstance
from .merge import merge_states

MUTATORS = {'append', 'extend', 'pop', 'remove', 'reverse', 'sort', 'add', 'insert', 'clear', 'update',
            'setdefault', 'discard', 'addTest', 'popitem'}


def loops_in_order(fn):
    """loops of a function in source order (nested functions included, as they are inlined)."""
    out = []

    def visit(n):
        for ch in ast.iter_child_nodes(n):
            if isinstance(ch, (ast.For, ast.While)):
                out.append(ch)
            visit(ch)
    visit(fn)
    return out


class StmtMixin:
    # ------------------------------------------------------------------ blocks
    def exec_block(self, stmts, st):
        if not stmts:
            return [(st, 'normal', None)]
        out = []
        base_len = len(st.pc)
        normals = []
        for s1, kind, val in self.exec_stmt(stmts[0], st):
            if kind == 'normal':
                normals.append(s1)
            else:
                out.append((s1, kind, val))
        if len(normals) > 1 and self.merge_enabled and self.cur[0].extra.get('merge', False):
            m = merge_states(base_len, normals)
            if m is not None:
                self.stats['merged'] = self.stats.get('merged', 0) + len(normals) - 1
                normals = [m]
        for s1 in normals:
            out += self.exec_block(stmts[1:], s1)
        return out

    def exec_stmt(self, node, st):
        m = getattr(self, 'st_' + type(node).__name__, None)
        if m is None:
            raise Unsupported("statement %s at line %s" % (type(node).__name__, node.lineno))
        self.note('node', type(node).__name__)
        sk = self.cur[0].extra.get('skip_stmts') if self.cur else None
        if sk:
            text = ast.unparse(node).split('\n')[0]
            if text in sk:
                # a statement the sidecar declares irrelevant to every contract (reason recorded in the ledger)
                self.note('rule', (node.lineno, text[:60], 'statement abstracted away: ' + sk[text]))
                return self.ok(st)
        outs = m(node, st)
        gc = self.cur[0].extra.get('ghost_code') if self.cur else None
        if gc and not getattr(self, 'in_ghost', False):
            full = ast.unparse(node)
            text = full.split('\n')[0]
            stmts = gc.get(full) or gc.get(text)
            if stmts:
                # ghost statements attached to this statement by the sidecar (they may only assign ghost state G.*)
                body = ast.parse('\n'.join(stmts)).body
                self.note('rule', (node.lineno, text[:60], 'ghost code: ' + '; '.join(stmts)))
                res = []
                self.in_ghost = True
                try:
                    for s1, kind, val in outs:
                        if kind != 'normal':
                            res.append((s1, kind, val))
                            continue
                        for s2, k2, v2 in self.exec_block(body, s1):
                            if k2 != 'normal':
                                raise Unsupported("ghost code must not raise or return: %s" % text)
                            res.append((s2, 'normal', None))
                finally:
                    self.in_ghost = False
                return res
        return outs

    def ok(self, st):
        return [(st, 'normal', None)]

    # ------------------------------------------------------------------ simple statements
    def st_Pass(self, node, st):
        return self.ok(st)

    def st_Import(self, node, st):
        return self.ok(st)

    st_ImportFrom = st_Import

    def st_Break(self, node, st):
        return [(st, 'break', None)]

    def st_Continue(self, node, st):
        return [(st, 'continue', None)]

    def st_Expr(self, node, st):
        v = node.value
        if isinstance(v, ast.Constant):
            return self.ok(st)
        if isinstance(v, ast.Yield):
            return self.ev(v.value, st, lambda s, x: self.do_yield(s, x))
        if isinstance(v, ast.YieldFrom):
            return self.ev(v.value, st, lambda s, x: self.do_yield_from(s, x))
        return self.ev(v, st, lambda s, x: self.ok(s))

    def do_yield(self, st, x):
        yh = self.cur[0].extra.get('yield_handler') if self.cur else None
        if yh is not None:
            return yh(self, st, x)
        y = st.ghost.get('__yield__')
        if y is None:
            raise Unsupported("yield outside a generator contract")
        self.list_append(y, x, st)
        return self.ok(st)

    def do_yield_from(self, st, x):
        y = st.ghost.get('__yield__')
        self.list_extend(y, self.iter_to_list(x, st), st)
        return self.ok(st)

    def st_Return(self, node, st):
        if node.value is None:
            return [(st, 'return', NONE)]
        return self.ev(node.value, st, lambda s, v: [(s, 'return', v)])

    def st_Assert(self, node, st):
        return self.ev(node.test, st, lambda s, v: self.guard(s, self.truth(v, s), 'AssertionError', 'assert',
                                                              node, lambda s2: self.ok(s2)))

    def st_Raise(self, node, st):
        if node.exc is None:
            stack = st.facts.get('exc_stack', ())
            if not stack:
                raise Unsupported("bare raise outside a handler (line %s)" % node.lineno)
            return [(st, 'raise', stack[-1])]

        def fin(s, v):
            if isinstance(v, VExc):
                return [(s, 'raise', v)]
            if isinstance(v, VClass):
                return [(s, 'raise', VExc(v.name.split('.')[-1]))]
            raise Unsupported("raise of %r (line %s)" % (v, node.lineno))
        return self.ev(node.exc, st, fin)

    def st_FunctionDef(self, node, st):
        st.env[node.name] = VFunc('closure', node=node, fid=st.fid)
        return self.ok(st)

    def st_Global(self, node, st):
        raise Unsupported("global statement")

    # ------------------------------------------------------------------ assignment
    def st_Assign(self, node, st):
        def fin(s, v):
            outs = [(s, 'normal', None)]
            for tgt in node.targets:
                nxt = []
                for s1, kind, val in outs:
                    if kind == 'normal':
                        nxt += self.assign(tgt, v, s1, node)
                    else:
                        nxt.append((s1, kind, val))
                outs = nxt
            return outs
        return self.ev(node.value, st, fin)

    def st_AnnAssign(self, node, st):
        if node.value is None:
            return self.ok(st)
        return self.ev(node.value, st, lambda s, v: self.assign(node.target, v, s, node))

    def st_AugAssign(self, node, st):
        load = ast.copy_location(ast.BinOp(left=self.as_load(node.target), op=node.op, right=node.value), node)
        ast.fix_missing_locations(load)
        if isinstance(node.op, ast.Add):
            # list += iterable mutates in place
            def fin(s, vs):
                a, b = vs
                if isinstance(a, VRef) and isinstance(s.heap[a.rid], HList):
                    self.list_extend(a, self.iter_to_list(b, s), s)
                    return self.ok(s)
                return self.ev(load, s, lambda s2, v: self.assign(node.target, v, s2, node))
            if isinstance(node.target, ast.Name):
                cur = st.lookup(node.target.id)
                if isinstance(cur, VRef):
                    return self.ev_list([self.as_load(node.target), node.value], st, fin)
        return self.ev(load, st, lambda s, v: self.assign(node.target, v, s, node))

    def infer_container_hint(self, name):
        """type of a local that starts as an empty display, read off the parameter type of a contract it is passed to
        (positionally) somewhere in the function under verification; None when nothing tells"""
        if not self.cur:
            return None
        try:
            fdef = self.find_def(self.cur[1])[0]
        except Exception:
            return None
        mod = self.cur[1].split('.')[0]
        for c in ast.walk(fdef):
            if not isinstance(c, ast.Call) or not isinstance(c.func, ast.Name):
                continue
            con = self.contracts.get(mod + '.' + c.func.id)
            if con is None:
                continue
            try:
                params = [a.arg for a in self.find_def(mod + '.' + c.func.id)[0].args.args]
            except Exception:
                continue
            for i, a in enumerate(c.args):
                if isinstance(a, ast.Name) and a.id == name and i < len(params) and params[i] in con.params:
                    t = con.params[params[i]]
                    if t and t[0] in ('list', 'dict', 'set'):
                        self.note('rule', (c.lineno, name, 'type of the local inferred from parameter %s of %s' % (params[i], c.func.id)))
                        return t
        return None

    def as_load(self, tgt):
        t = ast.parse(ast.unparse(tgt), mode='eval').body
        return ast.copy_location(t, tgt)

    def assign(self, tgt, v, st, node):
        if isinstance(tgt, ast.Name):
            hint = self.cur[0].extra.get('locals', {}).get(tgt.id) if self.cur else None
            if hint is None and isinstance(v, VRef) and isinstance(node, ast.Assign) \
                    and isinstance(node.value, (ast.List, ast.Dict)) and not getattr(node.value, 'elts', None) \
                    and not getattr(node.value, 'keys', None):
                hint = self.infer_container_hint(tgt.id)      # x = [] / {} without a hint: typed by the contract it is passed to
            if hint is not None:
                v = self.coerce(v, parse_type(hint), st)
            fid = st.fid
            # closures assign in their own frame; plain names in the current frame
            st.frames[fid][tgt.id] = v
            return self.ok(st)
        if isinstance(tgt, (ast.Tuple, ast.List)):
            if isinstance(v, VOpt):
                from .state import quick_unsat
                if quick_unsat([z for z, q in st.pc if q] + [v.isnone], 2000):
                    v = v.inner                      # provably not None on this path
            if isinstance(v, VObj) and v.sort in self.unpack_sorts:
                v = self.unpack_sorts[v.sort](self, st, v)
            if isinstance(v, VTup):
                if len(v.items) != len(tgt.elts):
                    return self.raise_(st, 'ValueError')
                outs = [(st, 'normal', None)]
                for t, it in zip(tgt.elts, v.items):
                    nxt = []
                    for s1, kind, val in outs:
                        nxt += self.assign(t, it, s1, node) if kind == 'normal' else [(s1, kind, val)]
                    outs = nxt
                return outs
            raise Unsupported("unpacking of %r (line %s)" % (v, node.lineno))
        if isinstance(tgt, ast.Attribute):
            return self.ev(tgt.value, st, lambda s, o: self.store_attr(o, tgt.attr, v, s, node))
        if isinstance(tgt, ast.Subscript):
            if isinstance(tgt.slice, ast.Slice):
                sl = tgt.slice
                if sl.lower is None and sl.upper is None and sl.step is None:
                    def whole(s, o):
                        src = self.hlist(self.iter_to_list(v, s), s)
                        h = self.hlist(o, s)
                        s.heap[o.rid] = HList(src.et if src.et is not None else h.et, src.arr, src.n)
                        return self.ok(s)
                    return self.ev(tgt.value, st, whole)
                raise Unsupported("slice assignment (line %s)" % node.lineno)
            return self.ev_list([tgt.value, tgt.slice], st, lambda s, vs: self.store_index(vs[0], vs[1], v, s, node))
        raise Unsupported("assignment target %s" % type(tgt).__name__)

    def store_attr(self, o, attr, v, st, node):
        if isinstance(o, VOpt):
            return self.guard(st, z3.Not(o.isnone), 'AttributeError', 'none-setattr', node,
                              lambda s: self.store_attr(o.inner, attr, v, s, node))
        if o.__class__.__name__ == 'VGhost':
            st.ghost[attr] = v
            return self.ok(st)
        if isinstance(o, VRef) and isinstance(st.heap[o.rid], HRec):
            h = st.heap[o.rid]
            f = dict(h.fields)
            p = dict(h.present)
            decl = self.records.get(h.cls, {}).get(attr)
            if decl is None and self.cur is not None:
                decl = self.cur[0].self_fields.get(attr)
            if decl is not None:
                v = self.coerce(v, parse_type(decl), st)        # e.g. an empty list literal takes the field's element type
            f[attr] = v
            if attr in p:
                p[attr] = z3.BoolVal(True)
            st.heap[o.rid] = HRec(h.cls, f, p)
            return self.ok(st)
        if isinstance(o, VClass):
            r = self.find_rule('store:' + o.name + '.' + attr)
            if r is not None:
                return self.apply_store_rule(r, o.name + '.' + attr, v, st, node)
        if isinstance(o, VObj):
            r = self.find_rule('store:%s.%s' % (o.sort, attr))
            if r is not None:
                return self.apply_store_rule(r, (o, attr), v, st, node)
        raise Unsupported("attribute store %s on %r (line %s)" % (attr, o, node.lineno))

    def apply_store_rule(self, rule, target, v, st, node):
        self.note('rule', (node.lineno, 'store %s' % (target,), getattr(rule, '__name__', str(rule))))
        if callable(rule):
            return rule(self, st, target, v, node)
        if rule == 'NOEFFECT':
            return self.ok(st)
        raise Unsupported("store rule %r" % (rule,))

    def store_index(self, o, i, v, st, node):
        if isinstance(o, VRef):
            h = st.heap[o.rid]
            if isinstance(h, HDict):
                if h.kt is None:
                    kt = type_of_val(i, st)
                    vt = type_of_val(v, st)
                    h = empty_hdict(kt, vt)
                kz = to_z3(self.coerce(i, h.kt, st), h.kt)
                vals = h.vals
                if vals is not None:
                    vals = z3.Store(vals, kz, to_z3(v, h.vt))
                st.heap[o.rid] = HDict(h.kt, h.vt, z3.Store(h.mem, kz, z3.BoolVal(True)), vals)
                return self.ok(st)
            if isinstance(h, HList):
                iz = to_z3(i, T_INT)
                eff = z3.If(iz < 0, iz + h.n, iz)

                def put(s):
                    s.heap[o.rid] = HList(h.et, z3.Store(h.arr, eff, to_z3(v, h.et)), h.n)
                    return self.ok(s)
                return self.guard(st, z3.And(0 <= eff, eff < h.n), 'IndexError', 'store', node, put)
        raise Unsupported("subscript store on %r (line %s)" % (o, node.lineno))

    def st_Delete(self, node, st):
        outs = [(st, 'normal', None)]
        for tgt in node.targets:
            nxt = []
            for s1, kind, val in outs:
                nxt += self.delete(tgt, s1, node) if kind == 'normal' else [(s1, kind, val)]
            outs = nxt
        return outs

    def delete(self, tgt, st, node):
        if isinstance(tgt, ast.Subscript):
            if isinstance(tgt.slice, ast.Slice):
                sl = tgt.slice
                if sl.lower is None and sl.upper is None and sl.step is None:
                    def clear(s, o):
                        h = self.hlist(o, s)
                        s.heap[o.rid] = HList(h.et, h.arr, z3.IntVal(0))
                        return self.ok(s)
                    return self.ev(tgt.value, st, clear)
                raise Unsupported("del of a slice")
            return self.ev_list([tgt.value, tgt.slice], st, lambda s, vs: self.del_index(vs[0], vs[1], s, node))
        if isinstance(tgt, ast.Attribute):
            def da(s, o):
                if isinstance(o, VRef) and isinstance(s.heap[o.rid], HRec):
                    h = s.heap[o.rid]
                    if tgt.attr not in h.present:
                        raise Unsupported("del of a non-dynamic attribute %s" % tgt.attr)

                    def rm(s2):
                        h2 = s2.heap[o.rid]
                        p = dict(h2.present)
                        p[tgt.attr] = z3.BoolVal(False)
                        s2.heap[o.rid] = HRec(h2.cls, h2.fields, p)
                        return self.ok(s2)
                    return self.guard(s, h.present[tgt.attr], 'AttributeError', 'delattr', node, rm)
                raise Unsupported("del attribute on %r" % (o,))
            return self.ev(tgt.value, st, da)
        if isinstance(tgt, ast.Name):
            st.env.pop(tgt.id, None)
            return self.ok(st)
        raise Unsupported("del target")

    def del_index(self, o, i, st, node):
        h = st.heap[o.rid] if isinstance(o, VRef) else None
        if isinstance(h, HDict):
            kz = to_z3(self.coerce(i, h.kt, st), h.kt)

            def rm(s):
                s.heap[o.rid] = HDict(h.kt, h.vt, z3.Store(h.mem, kz, z3.BoolVal(False)), h.vals)
                return self.ok(s)
            return self.guard(st, z3.Select(h.mem, kz), 'KeyError', 'delkey', node, rm)
        if isinstance(h, HList):
            iz = to_z3(i, T_INT)
            eff = z3.If(iz < 0, iz + h.n, iz)

            def rm(s):
                self.list_delete_at(o, eff, s)
                return self.ok(s)
            return self.guard(st, z3.And(0 <= eff, eff < h.n), 'IndexError', 'delindex', node, rm)
        raise Unsupported("del subscript on %r" % (o,))

    # ------------------------------------------------------------------ list mutation primitives
    def list_append(self, ref, x, st):
        h = st.heap[ref.rid]
        if isinstance(x, VOpt) and not (h.et is not None and h.et[0] == 'opt'):
            from .state import quick_unsat
            if quick_unsat([z for z, q in st.pc if q] + [x.isnone], 2000):
                x = x.inner                          # provably not None on this path
            elif h.et is not None:
                raise Unsupported("a value that may be None is appended to a list declared to hold %r" % (h.et,))
        if h.et is None:
            et = type_of_val(x, st)
            h = HList(et, empty_hlist(et).arr, z3.IntVal(0))
        st.heap[ref.rid] = HList(h.et, z3.Store(h.arr, h.n, to_z3(x, h.et)), h.n + 1)

    def list_extend(self, ref, other, st):
        h, o = st.heap[ref.rid], st.heap[other.rid]
        if o.et is None:
            return
        if self.const_int(VInt(o.n)) == 0:
            return                                   # extending by an empty sequence (of whatever element type)
        if h.et is None:
            h = HList(o.et, empty_hlist(o.et).arr, z3.IntVal(0))
        if h.et != o.et:
            raise Unsupported("extending a list of %r with elements of %r" % (h.et, o.et))
        c = self.const_int(VInt(o.n))
        if c is not None and c <= 8 and z3.is_store(o.arr) or c == 0:
            arr, n = h.arr, h.n
            for j in range(c):
                arr = z3.Store(arr, n, z3.simplify(z3.Select(o.arr, j)))
                n = n + 1
            st.heap[ref.rid] = HList(h.et, arr, z3.simplify(n))
            return
        R = fresh_hlist(h.et, 'ext', st)
        i = z3.Int(fresh_name('i'))
        st.assume(R.n == h.n + o.n)
        st.assume(z3.ForAll([i], z3.Implies(z3.And(0 <= i, i < h.n), z3.Select(R.arr, i) == z3.Select(h.arr, i))), qf=False)
        st.assume(z3.ForAll([i], z3.Implies(z3.And(0 <= i, i < o.n),
                                            z3.Select(R.arr, h.n + i) == z3.Select(o.arr, i))), qf=False)
        st.assume(z3.ForAll([i], z3.Implies(z3.And(h.n <= i, i < R.n),
                                            z3.Select(R.arr, i) == z3.Select(o.arr, i - h.n))), qf=False)
        st.heap[ref.rid] = R

    def list_delete_at(self, ref, x, st):
        h = st.heap[ref.rid]
        R = fresh_hlist(h.et, 'del', st)
        i = z3.Int(fresh_name('i'))
        st.assume(R.n == h.n - 1)
        st.assume(z3.ForAll([i], z3.Implies(z3.And(0 <= i, i < x), z3.Select(R.arr, i) == z3.Select(h.arr, i))), qf=False)
        st.assume(z3.ForAll([i], z3.Implies(z3.And(x <= i, i < R.n),
                                            z3.Select(R.arr, i) == z3.Select(h.arr, i + 1))), qf=False)
        st.assume(z3.ForAll([i], z3.Implies(z3.And(x < i, i < h.n),
                                            z3.Select(h.arr, i) == z3.Select(R.arr, i - 1))), qf=False)
        st.heap[ref.rid] = R

    # ------------------------------------------------------------------ control flow
    def st_If(self, node, st):
        t = node.test
        narrow = None          # ``if x is None`` / ``if x is not None``: on the not-None side x is its value
        if isinstance(t, ast.Compare) and isinstance(t.left, ast.Name) and len(t.ops) == 1 \
                and isinstance(t.ops[0], (ast.Is, ast.IsNot)) and isinstance(t.comparators[0], ast.Constant) \
                and t.comparators[0].value is None:
            narrow = (t.left.id, isinstance(t.ops[0], ast.IsNot))

        def after(s, c):
            out = []
            for s2, taken in self.branch(s, self.truth(c, s), 'if@%s' % node.lineno):
                if narrow is not None and taken == narrow[1]:
                    v = s2.lookup(narrow[0])
                    if isinstance(v, VOpt):
                        fid = s2.fid
                        while fid is not None and narrow[0] not in s2.frames[fid]:
                            fid = s2.frames[fid].get('__parent__')
                        s2.frames[fid][narrow[0]] = v.inner
                out += self.exec_block(node.body if taken else node.orelse, s2)
            return out
        return self.ev(node.test, st, after)

    def st_With(self, node, st):
        if len(node.items) != 1:
            raise Unsupported("with several items")
        item = node.items[0]
        text = ast.unparse(item.context_expr)
        rule = self.find_rule('with:' + text)
        if rule is None:
            raise Unsupported("with %s (line %s): no rule" % (text, node.lineno))
        self.note('rule', (node.lineno, 'with ' + text, str(rule if not callable(rule) else rule.__name__)))
        if callable(rule):
            return rule(self, st, node)
        if item.optional_vars is not None:
            self.bind_target(item.optional_vars, NONE, st)
        return self.exec_block(node.body, st)

    def st_Try(self, node, st):
        results = []
        for s1, kind, val in self.exec_block(node.body, st):
            if kind == 'normal':
                results += self.exec_block(node.orelse, s1)
            elif kind == 'raise':
                results += self.handle(node, s1, val)
            else:
                results.append((s1, kind, val))
        if not node.finalbody:
            return results
        out = []
        for s1, kind, val in results:
            for s2, k2, v2 in self.exec_block(node.finalbody, s1):
                if k2 == 'normal':
                    out.append((s2, kind, val))
                else:
                    out.append((s2, k2, v2))
        return out

    def handler_names(self, h):
        if h.type is None:
            return ['BaseException']
        elts = h.type.elts if isinstance(h.type, ast.Tuple) else [h.type]
        return [ast.unparse(e).split('.')[-1] for e in elts]

    def handle(self, node, st, exc):
        for h in node.handlers:
            names = self.handler_names(h)
            for n in names:
                if n not in __import__('pyvc.engine', fromlist=['EXC_PARENT']).EXC_PARENT:
                    raise Unsupported("unknown exception class %s in except clause (line %s)" % (n, h.lineno))
            if any(exc_isinstance(exc.cls, n) for n in names):
                if h.name:
                    st.env[h.name] = exc
                st.facts['exc_stack'] = tuple(st.facts.get('exc_stack', ())) + (exc,)
                st.path.append('except:%s@%s' % (exc.cls, h.lineno))
                out = []
                for s2, k2, v2 in self.exec_block(h.body, st):
                    s2.facts['exc_stack'] = tuple(s2.facts.get('exc_stack', ()))[:-1]
                    out.append((s2, k2, v2))
                return out
        return [(st, 'raise', exc)]

    # ------------------------------------------------------------------ loops
    @staticmethod
    def loop_header(node):
        if isinstance(node, ast.For):
            return 'for %s in %s:' % (ast.unparse(node.target), ast.unparse(node.iter))
        return 'while %s:' % ast.unparse(node.test)

    def loop_key(self, node):
        """'#loopN'.  N is the ordinal of the loop in the function, unless the contract anchors its labels to loop headers
        (`loop_anchors`: {'#loop3': 'for x in xs:'}): then a loop carries the label whose header it has -- so that a loop
        inserted or removed elsewhere in the function does not detach the invariants from the loops they were written for."""
        anchors = self.cur[0].extra.get('loop_anchors') if self.cur else None
        if anchors:
            hdr = self.loop_header(node)
            same = [n for n in self.cur_loops if self.loop_header(n) == hdr]
            labels = [k for k, h in anchors.items() if h == hdr]
            if len(labels) == 1 and len(same) == 1:
                return labels[0]
            taken = set(anchors)
            # an unanchored loop: an ordinal label outside the anchored ones (never steals the invariants of another loop)
            free = [n for n in self.cur_loops if not (
                [k for k, h in anchors.items() if h == self.loop_header(n)]
                and len([m for m in self.cur_loops if self.loop_header(m) == self.loop_header(n)]) == 1)]
            i = free.index(node) + 1
            return '#loop_unanchored%d' % i
        return '#loop%d' % (self.cur_loops.index(node) + 1)

    def loop_spec(self, node):
        key = self.loop_key(node)
        spec = self.cur[0].loops.get(key)
        if spec is None:
            spec = {'inv': []}
            self.note('rule', (node.lineno, key, 'no invariant given: loop cut at "true"'))
        if isinstance(spec, list):
            spec = {'inv': spec}
        return key, spec

    def check_invs(self, st, key, spec, kind, node):
        for n, text in enumerate(spec.get('inv', [])):
            try:
                goal = self.ev_spec(text, st)
            except (ContractError, z3.Z3Exception, KeyError, AttributeError, TypeError) as e:
                # the invariant does not even evaluate in this loop's state (the loop it was written for was rewritten or
                # moved: names vanished, other types): a broken auxiliary proof step, not a crash of the checker
                self.note('rule', (node.lineno, key, 'invariant %d does not evaluate here (%s: %s): counted as not established'
                                   % (n, type(e).__name__, str(e)[:80])))
                goal = z3.BoolVal(False)
            self.oblige(st, kind, '%s:%d' % (key, n), text, goal, node.lineno)

    def assume_invs(self, st, spec):
        for text in spec.get('inv', []):
            try:
                z = self.ev_spec(text, st)
            except (ContractError, z3.Z3Exception, KeyError, AttributeError, TypeError):
                continue                      # reported by check_invs; nothing is assumed from it
            st.assume(z, qf=not self.has_quant(z))

    def has_quant(self, z):
        seen = set()
        stack = [z]
        while stack:
            e = stack.pop()
            if e.get_id() in seen:
                continue
            seen.add(e.get_id())
            if z3.is_quantifier(e):
                return True
            if z3.is_app(e):
                stack.extend(e.children())
        return False

    def st_While(self, node, st):
        key, spec = self.loop_spec(node)
        st.snapshot('pre' + key)
        self.check_invs(st, key, spec, 'inv-init', node)
        mods = self.havoc_loop(node, st, spec)
        self.assume_invs(st, spec)
        st.path.append(key)
        out = []
        head = st.copy()

        def after(s, c):
            res = []
            for s2, taken in self.branch(s, self.truth(c, s), 'while@%s' % node.lineno):
                if taken:
                    for s3, kind, val in self.exec_block(node.body, s2):
                        self.frame_check(head, s3, mods, node)
                        if kind in ('normal', 'continue'):
                            s3.path.append('back')
                            self.check_invs(s3, key, spec, 'inv-pres', node)
                            self.variant_check(s3, s2, key, spec, node)
                        elif kind == 'break':
                            res.append((s3, 'normal', None))
                        else:
                            res.append((s3, kind, val))
                else:
                    s2.path.append('exit')
                    res += self.exec_block(node.orelse, s2)
            return res
        return self.ev(node.test, st, after)

    def variant_check(self, s_end, s_begin, key, spec, node):
        if 'decreases' not in spec:
            return
        d0 = self.ev_spec_val(spec['decreases'], s_begin)
        d1 = self.ev_spec_val(spec['decreases'], s_end)
        self.oblige(s_end, 'decreases', key, spec['decreases'], z3.And(d0.z >= 0, d1.z < d0.z), node.lineno)

    def st_For(self, node, st):
        key, spec = self.loop_spec(node)

        def with_iter(s, itv):
            itrec = None
            if isinstance(itv, VRef) and isinstance(s.heap[itv.rid], HRec) and s.heap[itv.rid].cls == 'iterator':
                itrec = itv          # ``for x in iterator``: consumes the iterator (later next() calls continue after it)
            L = self.iter_to_list(itv, s)
            h = self.hlist(L, s)
            cn = self.const_int(VInt(h.n))
            if key in self.cur[0].extra.get('unroll', ()) and cn is not None and cn <= 16:
                # a loop over a literal sequence: executed iteration by iteration (complete, no invariant needed)
                self.note('rule', (node.lineno, key, 'unrolled %d times (literal sequence)' % cn))
                states, res = [s], []
                for it in range(cn):
                    nxt = []
                    for s1 in states:
                        self.bind_for_target(node.target, from_z3(z3.simplify(z3.Select(h.arr, it)), h.et), s1)
                        for s3, kind, val in self.exec_block(node.body, s1):
                            if kind in ('normal', 'continue'):
                                nxt.append(s3)
                            elif kind == 'break':
                                res.append((s3, 'normal', None))
                            else:
                                res.append((s3, kind, val))
                    states = nxt
                for s1 in states:
                    res += self.exec_block(node.orelse, s1)
                return res
            idx_name = '_i%s' % key[5:]
            s.env[idx_name] = VInt(0)
            s.env['_i'] = VInt(0)
            s.env['_it%s' % key[5:]] = L
            s.env['_it'] = L
            s.snapshot('pre' + key)
            self.check_invs(s, key, spec, 'inv-init', node)
            mods = self.havoc_loop(node, s, spec)
            if itrec is not None:
                mods[2].add((itrec.rid, 'pos'))
            for n in ast.walk(node.target):
                if isinstance(n, ast.Name):
                    mods[0].add(n.id)
            i = z3.Int(fresh_name('idx'))
            s.assume(z3.And(0 <= i, i <= h.n))
            s.env[idx_name] = VInt(i)
            s.env['_i'] = VInt(i)
            if isinstance(node.target, ast.Name) and h.et is not None:
                # the loop variable at the loop head (and so after a normal exit): the element of the last completed
                # iteration, if there was one; what it was before the loop otherwise (unbound -> NameError on a read)
                prev = s.lookup(node.target.id)
                last = from_z3(z3.Select(h.arr, i - 1), h.et)
                if prev is None:
                    s.env[node.target.id] = VUnb(i > 0, last)
                elif isinstance(prev, VUnb) or not isinstance(prev, (VFunc, VClass)):
                    pb = prev.bound if isinstance(prev, VUnb) else z3.BoolVal(True)
                    pv = prev.val if isinstance(prev, VUnb) else prev
                    try:
                        same = type_of_val(pv, s) == h.et
                    except Exception:
                        same = False
                    if same and not isinstance(pv, VRef):
                        t = h.et
                        s.env[node.target.id] = VUnb(z3.Or(i > 0, pb), from_z3(z3.If(i > 0, to_z3(last, t), to_z3(pv, t)), t))
                    else:
                        from .vals import POISON
                        s.env[node.target.id] = POISON      # a read after the loop aborts the proof (exit 3), never unsound
            self.assume_invs(s, spec)
            s.path.append(key)
            res = []
            head = s.copy()
            if h.et is None:
                branches = [(s, False)]
            else:
                branches = self.branch(s, i < h.n, 'for@%s' % node.lineno)
            for s2, taken in branches:
                if itrec is not None:
                    rec = s2.heap[itrec.rid]
                    s2.heap[itrec.rid] = HRec('iterator', {'list': rec.fields['list'],
                                                           'pos': VInt(i + 1) if taken else VInt(h.n)})
                if taken:
                    self.bind_for_target(node.target, from_z3(z3.Select(h.arr, i), h.et), s2)
                    for s3, kind, val in self.exec_block(node.body, s2):
                        self.frame_check(head, s3, mods, node)
                        if kind in ('normal', 'continue'):
                            s3.env[idx_name] = VInt(i + 1)
                            s3.env['_i'] = VInt(i + 1)
                            s3.path.append('back')
                            self.check_invs(s3, key, spec, 'inv-pres', node)
                        elif kind == 'break':
                            res.append((s3, 'normal', None))
                        else:
                            res.append((s3, kind, val))
                else:
                    s2.path.append('exit')
                    res += self.exec_block(node.orelse, s2)
            return res
        return self.ev(node.iter, st, with_iter)

    def bind_for_target(self, target, v, st):
        self.bind_target(target, v, st)

    # -- what a loop may modify (syntactic) --------------------------------
    def resolve_static(self, expr, st):
        """value of a Name / self.attr chain in the current state without side effects, or None."""
        if isinstance(expr, ast.Name):
            if expr.id == 'G':
                return 'G'
            return st.lookup(expr.id)
        if isinstance(expr, ast.Attribute):
            base = self.resolve_static(expr.value, st)
            if base == 'G':
                return ('ghost', expr.attr)
            if isinstance(base, VRef) and isinstance(st.heap[base.rid], HRec):
                return st.heap[base.rid].fields.get(expr.attr)
        return None

    def collect_mods(self, body, st, mods, depth=0):
        names, rids, fields, ghosts = mods
        gc = self.cur[0].extra.get('ghost_code') if self.cur else None
        if gc and depth == 0:
            extra = []
            for top in body:
                for n in ast.walk(top):
                    if isinstance(n, ast.stmt):
                        g = gc.get(ast.unparse(n)) or gc.get(ast.unparse(n).split('\n')[0])
                        if g:
                            extra += ast.parse('\n'.join(g)).body
            if extra:
                self.collect_mods(extra, st, mods, depth + 1)
        for top in body:
            for n in ast.walk(top):
                if isinstance(n, (ast.Assign, ast.AugAssign, ast.AnnAssign, ast.For, ast.NamedExpr, ast.Delete,
                                  ast.comprehension)):
                    if isinstance(n, ast.comprehension):
                        continue
                    tgts = n.targets if isinstance(n, (ast.Assign, ast.Delete)) else [n.target]
                    for t in tgts:
                        self.mod_target(t, st, mods)
                    if isinstance(n, ast.AugAssign) and isinstance(n.target, ast.Name):
                        v = st.lookup(n.target.id)
                        if isinstance(v, VRef):
                            rids.add(v.rid)
                elif isinstance(n, ast.ExceptHandler) and n.name:
                    names.add(n.name)
                elif isinstance(n, ast.With):
                    for it in n.items:
                        if it.optional_vars is not None:
                            self.mod_target(it.optional_vars, st, mods)
                elif isinstance(n, ast.FunctionDef):
                    names.add(n.name)
                elif isinstance(n, ast.Call):
                    self.mod_call(n, st, mods, depth)
                elif isinstance(n, (ast.Yield, ast.YieldFrom)):
                    y = st.ghost.get('__yield__')
                    if isinstance(y, VRef):
                        rids.add(y.rid)
                elif isinstance(n, ast.Attribute) and n.attr in MUTATORS:
                    base = self.resolve_static(n.value, st)      # e.g. ``store = unselected.append``
                    if isinstance(base, VRef):
                        rids.add(base.rid)

    def mod_target(self, t, st, mods):
        names, rids, fields, ghosts = mods
        if isinstance(t, ast.Name):
            names.add(t.id)
        elif isinstance(t, (ast.Tuple, ast.List)):
            for e in t.elts:
                self.mod_target(e, st, mods)
        elif isinstance(t, ast.Attribute):
            base = self.resolve_static(t.value, st)
            if base == 'G':
                ghosts.add(t.attr)
            elif isinstance(base, VRef):
                fields.add((base.rid, t.attr))
        elif isinstance(t, ast.Subscript):
            base = self.resolve_static(t.value, st)
            if isinstance(base, tuple) and base[0] == 'ghost':
                ghosts.add(base[1])
                base = st.ghost.get(base[1])
            if isinstance(base, VRef):
                rids.add(base.rid)
        elif isinstance(t, ast.Starred):
            self.mod_target(t.value, st, mods)

    def mod_call(self, n, st, mods, depth):
        names, rids, fields, ghosts = mods
        f = n.func
        if isinstance(f, ast.Attribute) and f.attr in MUTATORS:
            base = self.resolve_static(f.value, st)
            if isinstance(base, VRef):
                rids.add(base.rid)
        if isinstance(f, ast.Name) and f.id == 'next' and n.args:
            it = self.resolve_static(n.args[0], st)
            if isinstance(it, VRef) and isinstance(st.heap[it.rid], HRec):
                fields.add((it.rid, 'pos'))
        text = ast.unparse(f)
        if isinstance(f, ast.Attribute):
            for (srt, mname), h in self.objmethods.items():
                if mname == f.attr:
                    for m in getattr(h, 'modifies', ()):
                        self.mod_entry(m, n, None, st, mods)
        rule = self.find_rule(text)
        callee = None
        if isinstance(rule, dict) and rule.get('kind') == 'contract':
            callee = rule['qual']
            if callee in self.contracts:
                for m in self.contracts[callee].modifies:
                    self.mod_entry(m, n, None, st, mods, callee)
            return
        if isinstance(rule, dict) or (callable(rule) and hasattr(rule, 'modifies')):
            for m in (rule.get('modifies', []) if isinstance(rule, dict) else rule.modifies):
                self.mod_entry(m, n, None, st, mods)
            return
        if isinstance(f, ast.Name):
            v = st.lookup(f.id)
            if isinstance(v, VFunc) and v.kind == 'closure' and depth < 3:
                self.collect_mods(v.data['node'].body, st, mods, depth + 1)
                return
            if v is None:
                v = self.load_name(f.id, st)
            if isinstance(v, VFunc) and v.kind == 'def':
                callee = v.data['qual']
        elif isinstance(f, ast.Attribute):
            base = self.resolve_static(f.value, st)
            if isinstance(base, VRef) and isinstance(st.heap[base.rid], HRec):
                callee = self.method_qual(st.heap[base.rid].cls, f.attr)
                if callee is not None and callee in self.contracts:
                    for m in self.contracts[callee].modifies:
                        self.mod_entry(m, n, base, st, mods, callee)
                    return
        if callee is not None and callee in self.contracts:
            for m in self.contracts[callee].modifies:
                self.mod_entry(m, n, None, st, mods, callee)

    def mod_entry(self, m, call, recv, st, mods, callee=None):
        """a `modifies` entry of a callee ('param', 'self.x', 'G.x', 'arg0') mapped into the caller."""
        names, rids, fields, ghosts = mods
        if m.startswith('G.'):
            ghosts.add(m[2:])
            return
        if m.startswith('self.') and recv is not None:
            attr = m[5:]
            v = st.heap[recv.rid].fields.get(attr)
            fields.add((recv.rid, attr))
            if isinstance(v, VRef):
                rids.add(v.rid)
            return
        expr = None
        if m.startswith('arg') and m[3:].isdigit():
            idx = int(m[3:])
            if idx < len(call.args):
                expr = call.args[idx]
        elif callee is not None:
            fdef, _, _ = self.find_def(callee)
            pnames = [a.arg for a in fdef.args.args]
            if pnames and pnames[0] == 'self' and recv is not None:
                pnames = pnames[1:]
            if m in pnames:
                idx = pnames.index(m)
                if idx < len(call.args):
                    expr = call.args[idx]
                for kw in call.keywords:
                    if kw.arg == m:
                        expr = kw.value
            elif m in self.contracts[callee].extra.get('free', {}):
                expr = ast.Name(id=m, ctx=ast.Load())      # a free variable of a nested function: the caller's binding
        if expr is None and callee is None:
            e = ast.parse(m, mode='eval').body          # an expression of the caller's own scope
            if isinstance(e, ast.Attribute):
                base = self.resolve_static(e.value, st)
                if isinstance(base, VRef) and isinstance(st.heap[base.rid], HRec):
                    fields.add((base.rid, e.attr))
                    v = st.heap[base.rid].fields.get(e.attr)
                    if isinstance(v, VRef):
                        rids.add(v.rid)
                return
            expr = e
        if expr is not None:
            v = self.resolve_static(expr, st)
            if isinstance(v, VOpt):
                v = v.inner
            if isinstance(v, VRef):
                rids.add(v.rid)

    def havoc_loop(self, node, st, spec):
        mods = (set(), set(), set(), set())
        self.collect_mods(node.body, st, mods)
        names, rids, fields, ghosts = mods
        for m in spec.get('modifies', []):
            e = ast.parse(m, mode='eval').body
            if isinstance(e, ast.Name):
                names.add(e.id)
                v = st.lookup(e.id)
                if isinstance(v, VRef):
                    rids.add(v.rid)
            else:
                self.mod_target(e, st, mods)
        if isinstance(node, ast.For):
            for n in ast.walk(node.target):
                if isinstance(n, ast.Name):
                    names.discard(n.id)
        fresh_rids = set()
        from .vals import POISON
        for name in sorted(names):
            v = st.lookup(name)
            if v is None or isinstance(v, (VFunc, VClass)):
                continue
            if name in spec.get('scratch', ()):
                # declared loop-scratch: re-assigned before any use in every iteration (with values of another type);
                # poisoned at the head, so a read before the assignment aborts the proof instead of being unsound
                fid = st.fid
                while fid is not None and name not in st.frames[fid]:
                    fid = st.frames[fid].get('__parent__')
                st.frames[fid][name] = POISON
                continue
            fid = st.fid
            while fid is not None and name not in st.frames[fid]:
                fid = st.frames[fid].get('__parent__')
            nv = self.havoc_val(v, name, st)
            st.frames[fid][name] = nv
            if isinstance(nv, VRef):
                fresh_rids.add(nv.rid)
        for rid in sorted(rids):
            self.havoc_heap(rid, st)
        for rid, attr in sorted(fields):
            h = st.heap[rid]
            if attr in h.fields:
                f = dict(h.fields)
                f[attr] = self.havoc_val(h.fields[attr], attr, st)
                if isinstance(f[attr], VRef):
                    fresh_rids.add(f[attr].rid)
                p = dict(h.present)
                if attr in p:
                    p[attr] = z3.Bool(fresh_name('present_' + attr))
                st.heap[rid] = HRec(h.cls, f, p)
        for g in sorted(ghosts):
            if g in st.ghost:
                st.ghost[g] = self.havoc_val(st.ghost[g], 'G_' + g, st)
                if isinstance(st.ghost[g], VRef):
                    fresh_rids.add(st.ghost[g].rid)
        rids |= fresh_rids
        return (names, rids, fields, ghosts)

    def frame_check(self, head, end, mods, node):
        """soundness net: everything a loop body path changed must have been havocked at the loop head."""
        names, rids, fields, ghosts = mods
        for rid, h in head.heap.items():
            h2 = end.heap.get(rid)
            if h2 is h or h2 is None:
                continue
            if isinstance(h, HRec):
                for a, v in h.fields.items():
                    if h2.fields.get(a) is not v and (rid, a) not in fields:
                        raise Unsupported("loop at line %s changes attribute %s outside its havoc set" % (node.lineno, a))
                for a, v in h.present.items():
                    if h2.present.get(a) is not v and (rid, a) not in fields:
                        raise Unsupported("loop at line %s changes presence of %s outside its havoc set" % (node.lineno, a))
            elif rid not in rids:
                owner = [(r, a) for r, hh in head.heap.items() if isinstance(hh, HRec)
                         for a, v in hh.fields.items() if isinstance(v, VRef) and v.rid == rid]
                names_ = [n for fr in head.frames.values() for n, v in fr.items() if isinstance(v, VRef) and v.rid == rid]
                raise Unsupported("loop at line %s mutates a container outside its havoc set (aliasing?): fields %s names %s rid %s havoc %s"
                                  % (node.lineno, owner, names_, rid, sorted(rids)))
        for fid, fr in head.frames.items():
            fr2 = end.frames.get(fid, {})
            for name, v in fr.items():
                if name.startswith('_') or name == '__parent__':
                    continue
                if fr2.get(name) is not v and name not in names:
                    raise Unsupported("loop at line %s rebinds %s outside its havoc set" % (node.lineno, name))
                v2 = fr2.get(name)
                if isinstance(node, ast.For) and any(isinstance(n, ast.Name) and n.id == name for n in ast.walk(node.target)):
                    continue        # the loop variable is bound anew in every iteration
                if v.__class__.__name__ == 'VPoison':
                    continue
                if v2 is not None and v2 is not v and not isinstance(v, (VFunc, VClass)):
                    # soundness net: the value at the loop head was havocked *within its type*; a body path that leaves
                    # a value of another shape (None vs object, int vs list ...) would not be covered by the head state
                    try:
                        t1, t2 = self.shape_of(v, head), self.shape_of(v2, end)
                    except TypeError:
                        t1 = t2 = None
                    if t1 != t2:
                        raise Unsupported("loop at line %s rebinds %s with a different type (%s -> %s): declare it in "
                                          "'locals' (e.g. Opt[...])" % (node.lineno, name, t1, t2))
        for g, v in head.ghost.items():
            if end.ghost.get(g) is not v and g not in ghosts and g != '__yield__':
                raise Unsupported("loop at line %s changes ghost %s outside its havoc set" % (node.lineno, g))

    def shape_of(self, v, st):
        if isinstance(v, VRef):
            h = st.heap[v.rid]
            return ('list',) if isinstance(h, HList) else ('dict',) if isinstance(h, HDict) else ('rec', h.cls)
        if v.__class__.__name__ == 'VUnb':
            return self.shape_of(v.val, st)
        if isinstance(v, VExc):
            return ('exc',)
        if isinstance(v, (VFunc, VClass)):
            return ('callable',)
        t = type_of_val(v, st)
        if t[0] in ('int', 'bool'):
            return ('int',)
        return t

    def havoc_val(self, v, name, st):
        if v.__class__.__name__ == 'VUnb':
            return v.__class__(v.bound, self.havoc_val(v.val, name, st))
        if isinstance(v, VRef):
            h = st.heap[v.rid]
            if isinstance(h, HRec):
                return v
            if isinstance(h, HList) and h.et is None or isinstance(h, HDict) and h.kt is None:
                raise Unsupported("havoc of the untyped empty container %r: add a 'locals' type hint" % name)
            return fresh_val(type_of_val(v, st), name, st)
        if isinstance(v, (VNone, VExc)):
            return v
        if isinstance(v, VTup):
            return VTup([self.havoc_val(i, name, st) for i in v.items])
        return fresh_val(type_of_val(v, st), name, st)

    def havoc_heap(self, rid, st):
        h = st.heap[rid]
        if isinstance(h, HList):
            if h.et is None:
                raise Unsupported("havoc of an untyped empty list: add a 'locals' type hint")
            st.heap[rid] = fresh_hlist(h.et, 'hv', st)
        elif isinstance(h, HDict):
            if h.kt is None:
                raise Unsupported("havoc of an untyped empty dict: add a 'locals' type hint")
            st.heap[rid] = fresh_hdict(h.kt, h.vt, 'hv')
