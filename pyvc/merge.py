"""Join of symbolic states after a statement (keeps the number of paths linear in the number of branches).

k states that all extend the same prefix of the path condition are merged into one: a fresh selector Bool b_i per
state, exactly one of them true, ``b_i -> (what path i assumed after the fork)``, and every value that differs is
``If(b_1, v_1, If(b_2, v_2, ...))``.  Merging is refused (the paths stay separate) when the states differ in a way an
If-term cannot express (a variable bound to different container objects, different frames, ...)."""
import z3

from .vals import (VInt, VBool, VReal, VNone, VObj, VTup, VOpt, VRef, VFunc, VClass, VExc, VUnb, HList, HDict, HRec,
                   fresh_name)
from .state import empty_hlist, empty_hdict


class NoMerge(Exception):
    pass


def ite_chain(sels, zs):
    r = zs[-1]
    for b, z in zip(reversed(sels[:-1]), reversed(zs[:-1])):
        r = z3.If(b, z, r)
    return r


def all_same(xs):
    return all(x is xs[0] for x in xs[1:])


def same_term(zs):
    return all(z.eq(zs[0]) for z in zs[1:])


def merge_z(sels, zs):
    if same_term(zs):
        return zs[0]
    if any(z.sort() != zs[0].sort() for z in zs):
        raise NoMerge("sorts differ")
    return ite_chain(sels, zs)


def merge_vals(sels, vs, heaps, out_heap):
    if all_same(vs):
        return vs[0]
    t = type(vs[0])
    if any(type(v) is not t for v in vs):
        # None vs value -> optional
        if all(isinstance(v, (VNone, VOpt)) or not isinstance(v, (VRef, VFunc, VClass, VExc, VTup)) for v in vs):
            inners = [v.inner if isinstance(v, VOpt) else v for v in vs if not isinstance(v, VNone)]
            if inners and all(type(i) is type(inners[0]) for i in inners):
                nones = [v.isnone if isinstance(v, VOpt) else z3.BoolVal(isinstance(v, VNone)) for v in vs]
                filled = [(v.inner if isinstance(v, VOpt) else (inners[0] if isinstance(v, VNone) else v)) for v in vs]
                return VOpt(merge_z(sels, nones), merge_vals(sels, filled, heaps, out_heap))
        raise NoMerge("kinds differ: %r" % ([type(v).__name__ for v in vs],))
    if t is VInt:
        return VInt(merge_z(sels, [v.z for v in vs]))
    if t is VBool:
        return VBool(merge_z(sels, [v.z for v in vs]))
    if t is VReal:
        return VReal(merge_z(sels, [v.z for v in vs]))
    if t is VNone:
        return vs[0]
    if t is VObj:
        if any(v.sort != vs[0].sort for v in vs):
            raise NoMerge("object sorts differ")
        return VObj(vs[0].sort, merge_z(sels, [v.z for v in vs]))
    if t is VOpt:
        return VOpt(merge_z(sels, [v.isnone for v in vs]), merge_vals(sels, [v.inner for v in vs], heaps, out_heap))
    if t is VTup:
        if any(len(v.items) != len(vs[0].items) for v in vs):
            raise NoMerge("tuple arity")
        return VTup([merge_vals(sels, [v.items[i] for v in vs], heaps, out_heap) for i in range(len(vs[0].items))])
    if t is VRef:
        if any(v.rid != vs[0].rid for v in vs):
            raise NoMerge("different objects")
        return vs[0]
    if t is VExc:
        if any(v.cls != vs[0].cls for v in vs):
            raise NoMerge("exception classes")
        return vs[0]
    if t is VClass:
        if any(v.name != vs[0].name for v in vs):
            raise NoMerge("classes")
        return vs[0]
    if t is VFunc:
        if any(v.kind != vs[0].kind or v.data.keys() != vs[0].data.keys() for v in vs):
            raise NoMerge("functions")
        for key in vs[0].data:
            xs = [v.data[key] for v in vs]
            if not all_same(xs) and not all(x == xs[0] for x in xs[1:]):
                if all(isinstance(x, VRef) and x.rid == xs[0].rid for x in xs):
                    continue
                raise NoMerge("functions")
        return vs[0]
    raise NoMerge("cannot merge %s" % t.__name__)


def merge_heap_obj(sels, hs, heaps, out_heap):
    if all_same(hs):
        return hs[0]
    t = type(hs[0])
    if any(type(h) is not t for h in hs):
        raise NoMerge("heap kinds differ")
    if t is HList:
        ets = [h.et for h in hs if h.et is not None]
        if not ets:
            return hs[0]
        if any(e != ets[0] for e in ets):
            raise NoMerge("list element types")
        hs = [h if h.et is not None else HList(ets[0], empty_hlist(ets[0]).arr, h.n) for h in hs]
        return HList(ets[0], merge_z(sels, [h.arr for h in hs]), merge_z(sels, [h.n for h in hs]))
    if t is HDict:
        kts = [h for h in hs if h.kt is not None]
        if not kts:
            return hs[0]
        k0 = kts[0]
        if any(h.kt != k0.kt or h.vt != k0.vt for h in kts):
            raise NoMerge("dict types")
        hs = [h if h.kt is not None else empty_hdict(k0.kt, k0.vt) for h in hs]
        vals = None if k0.vals is None else merge_z(sels, [h.vals for h in hs])
        return HDict(k0.kt, k0.vt, merge_z(sels, [h.mem for h in hs]), vals)
    if t is HRec:
        if any(h.cls != hs[0].cls or h.fields.keys() != hs[0].fields.keys() or h.present.keys() != hs[0].present.keys()
               for h in hs):
            raise NoMerge("record shapes")
        f = {a: merge_vals(sels, [h.fields[a] for h in hs], heaps, out_heap) for a in hs[0].fields}
        p = {a: merge_z(sels, [h.present[a] for h in hs]) for a in hs[0].present}
        return HRec(hs[0].cls, f, p)
    raise NoMerge("heap object")


def merge_states(base_len, states):
    """-> one merged State, or None when the states cannot be joined."""
    s0 = states[0]
    k = len(states)
    if k == 1:
        return s0
    try:
        for s in states[1:]:
            if s.fid != s0.fid or s.frames.keys() != s0.frames.keys():
                raise NoMerge("frames")
            if s.facts.get('exc_stack') != s0.facts.get('exc_stack'):
                raise NoMerge("handler stacks")
            for i in range(base_len):
                if s.pc[i][0] is not s0.pc[i][0]:
                    raise NoMerge("prefix")
        sels = [z3.Bool(fresh_name('path')) for _ in states]
        m = s0.copy()
        m.pc = list(s0.pc[:base_len])
        heaps = [s.heap for s in states]
        # heap
        rids = set()
        for s in states:
            rids |= set(s.heap)
        new_heap = {}
        for rid in rids:
            have = [(b, s.heap[rid]) for b, s in zip(sels, states) if rid in s.heap]
            if len(have) == k:
                new_heap[rid] = merge_heap_obj(sels, [h for _, h in have], heaps, new_heap)
            else:
                hs = [h for _, h in have]
                new_heap[rid] = hs[0] if all_same(hs) else merge_heap_obj([b for b, _ in have], hs, heaps, new_heap)
        m.heap = new_heap
        # frames
        for fid in s0.frames:
            fr = {}
            keys = set()
            for s in states:
                keys |= set(s.frames[fid])
            for name in keys:
                if name == '__parent__':
                    fr[name] = s0.frames[fid][name]
                    continue
                vals = [s.frames[fid].get(name) for s in states]
                if vals[0] is not None and all_same(vals):
                    fr[name] = vals[0]
                    continue
                if any(v is None or isinstance(v, VUnb) for v in vals):
                    # bound on some paths only: remember when (a read elsewhere raises NameError)
                    have = [(b, v) for b, v in zip(sels, vals) if v is not None]
                    bound = z3.Or(*[(z3.And(b, v.bound) if isinstance(v, VUnb) else b) for b, v in have])
                    inner = [v.val if isinstance(v, VUnb) else v for _, v in have]
                    try:
                        val = inner[0] if len(inner) == 1 else merge_vals([b for b, _ in have], inner, heaps, new_heap)
                    except NoMerge:
                        continue
                    fr[name] = VUnb(bound, val)
                    continue
                fr[name] = merge_vals(sels, vals, heaps, new_heap)
            m.frames[fid] = fr
        # ghost
        for g in s0.ghost:
            m.ghost[g] = merge_vals(sels, [s.ghost[g] for s in states], heaps, new_heap)
        # path condition
        m.pc.append((z3.Or(*sels), True))
        for i in range(k):
            for j in range(i + 1, k):
                m.pc.append((z3.Not(z3.And(sels[i], sels[j])), True))
        for b, s in zip(sels, states):
            extra = s.pc[base_len:]
            for z, qf in extra:
                m.pc.append((z3.Implies(b, z), qf))
        m.closed_defs = 0
        # snapshots taken before the fork are shared; those taken inside one branch (loops) are dropped
        m.snaps = {l: v for l, v in s0.snaps.items() if all(s.snaps.get(l) is v for s in states[1:])}
        m.facts = {kk: v for kk, v in s0.facts.items() if all(s.facts.get(kk) is v for s in states[1:])}
        if 'exc_stack' in s0.facts:
            m.facts['exc_stack'] = s0.facts['exc_stack']
        m.path = list(s0.path[:common_prefix([s.path for s in states])]) + ['join%d' % k]
        return m
    except NoMerge:
        return None


def snaps_equal(a, b):
    return a[0] == b[0] and a[1] == b[1] and a[2] == b[2]


def common_prefix(paths):
    n = min(len(p) for p in paths)
    i = 0
    while i < n and all(p[i] == paths[0][i] for p in paths[1:]):
        i += 1
    return i
